"""Helpers for the C15 check (N-D peak merging = connected components on any schedule).

Nothing here imports ImageD11: oracles, instance generators, judges (pure functions of
the observed outputs), exact expectations for the merged-peak table.
"""
from __future__ import print_function
import numpy as np
from fractions import Fraction

TOL_REL = 1e-9
TOL_ABS = 1e-12


# ----------------------------------------------------------------------------------
# independent oracles for connected components

def roots_unionfind(n, ei, ej):
    """component minimum of every node by a plain union-find (union by smaller root, path halving).
    Independent of the code under test and of scipy."""
    parent = list(range(n))
    ei = [int(x) for x in ei]
    ej = [int(x) for x in ej]
    for a, b in zip(ei, ej):
        while parent[a] != a:
            parent[a] = parent[parent[a]]
            a = parent[a]
        while parent[b] != b:
            parent[b] = parent[parent[b]]
            b = parent[b]
        if a < b:
            parent[b] = a
        elif b < a:
            parent[a] = b
    out = np.empty(n, np.int64)
    for v in range(n):           # parents are always smaller: one pass resolves everything
        p = parent[v]
        out[v] = v if p == v else out[p]
    return out


def roots_scipy(n, ei, ej):
    import scipy.sparse, scipy.sparse.csgraph
    ei = np.asarray(ei, np.int64)
    ej = np.asarray(ej, np.int64)
    coo = scipy.sparse.coo_matrix((np.ones(len(ei), np.int8), (ei, ej)), shape=(n, n))
    nc, lab = scipy.sparse.csgraph.connected_components(coo, directed=False, return_labels=True)
    mins = np.full(nc, n, np.int64)
    np.minimum.at(mins, lab, np.arange(n, dtype=np.int64))
    return mins[lab]


def expected_labels(root):
    """THE value the specification predicts: rank of the component minimum among the minima"""
    root = np.asarray(root, np.int64)
    n = len(root)
    isroot = root == np.arange(n)
    rank = np.cumsum(isroot) - 1
    return int(isroot.sum()), rank[root]


# ----------------------------------------------------------------------------------
# judges

def judge_labels(n, root, nlabel, labels):
    """The property statement, nothing more: labels are exactly 0..nlabel-1 and two nodes share a
    label exactly when they are connected (root = oracle component minimum).
    Returns (problems, renumbered): problems = list of strings (empty = holds); renumbered = True
    when the labelling is valid but not numbered in order of the component minima."""
    problems = []
    try:
        labels = np.asarray(labels)
        if labels.shape != (n,):
            return ["labels shape %s, expected (%d,)" % (labels.shape, n)], False
        if labels.dtype.kind not in "iu":
            return ["labels dtype %s is not integer" % labels.dtype], False
        nlabel = int(nlabel)
    except Exception as e:           # pragma: no cover
        return ["labels not an integer array: %r" % (e,)], False
    ncomp = int((root == np.arange(n)).sum())
    if nlabel != ncomp:
        problems.append("nlabel=%d but the graph has %d components" % (nlabel, ncomp))
    if n:
        lo, hi = int(labels.min()), int(labels.max())
        nu = len(np.unique(labels))
        if lo != 0 or hi != nu - 1 or nu != nlabel:
            problems.append("labels are not exactly 0..nlabel-1 (min %d max %d distinct %d nlabel %d)"
                            % (lo, hi, nu, nlabel))
        same = labels == labels[root]
        if not same.all():
            v = int(np.argmin(same))
            problems.append("connected peaks %d and %d have different labels %d / %d"
                            % (v, int(root[v]), int(labels[v]), int(labels[root[v]])))
        elif nu != ncomp:
            # every component is uniformly labelled, fewer labels than components => two components share
            rl = labels[root == np.arange(n)]
            o = np.argsort(rl, kind="stable")
            d = np.nonzero(np.diff(rl[o]) == 0)[0]
            r = np.nonzero(root == np.arange(n))[0]
            if len(d):
                problems.append("unconnected peaks %d and %d share label %d"
                                % (int(r[o[d[0]]]), int(r[o[d[0] + 1]]), int(rl[o[d[0]]])))
            else:
                problems.append("number of distinct labels %d != components %d" % (nu, ncomp))
    renumbered = False
    if not problems:
        nl, exp = expected_labels(root)
        renumbered = not np.array_equal(exp, labels)
    return problems, renumbered


def close(x, e, scale):
    return abs(float(x) - float(e)) <= TOL_REL * scale + TOL_ABS


def vec_mismatch(name, got, num, den):
    """got: float/int array from the code; expectation = num/den with num, den exact int64 arrays (or
    scalars) below 2^53, so the double quotient is the correctly rounded exact value.
    Returns a problem string or None.  |x - e| <= 1e-9 * max|e| + 1e-12"""
    got = np.asarray(got)
    num = np.asarray(num, np.int64)
    den = np.broadcast_to(np.asarray(den, np.int64), num.shape)
    if got.shape != num.shape:
        return "%s: shape %s, expected %s" % (name, got.shape, num.shape)
    if num.size == 0:
        return None
    assert np.abs(num).max() < 2 ** 53 and np.abs(den).max() < 2 ** 53 and (den != 0).all()
    ef = num.astype(float) / den.astype(float)
    scale = float(np.max(np.abs(ef)))
    bad = ~(np.abs(got.astype(float) - ef) <= TOL_REL * scale + TOL_ABS)     # nan -> bad
    if bad.any():
        k = int(np.argmax(bad))
        return "%s[%d] = %r, exact value %d/%d (=%r)" % (name, k, float(got[k]), int(num[k]), int(den[k]), ef[k])
    return None


class Table(object):
    """integer property table + per-frame integer numerators with power-of-two denominators
    (so the inputs handed to the code are exactly representable doubles)"""

    def __init__(self, props, shape, om_num, om_den, dty_num, dty_den, sc_num, sc_den):
        self.props = np.ascontiguousarray(props, dtype=np.int64)       # (5, n): s1, sI, srI, scI, frm
        self.shape = tuple(shape)                                      # sinogram shape of omega/dty/scale
        self.om_num = np.asarray(om_num, np.int64).ravel()
        self.dty_num = np.asarray(dty_num, np.int64).ravel()
        self.sc_num = np.asarray(sc_num, np.int64).ravel()
        self.om_den, self.dty_den, self.sc_den = int(om_den), int(dty_den), int(sc_den)

    def omega(self):
        return (self.om_num / float(self.om_den)).reshape(self.shape)

    def dty(self):
        return (self.dty_num / float(self.dty_den)).reshape(self.shape)

    def scale(self):
        return (self.sc_num / float(self.sc_den)).reshape(self.shape)


def merged_exact(table, labels, nlabel, scaled):
    """exact integer sums per label: list of 7 (numerators int64 array, denominator int) in the row
    order of numbapkmerge: 0 s1, 1 sI*sc, 2 srI*sc, 3 scI*sc, 4 om*sI*sc, 5 dty*sI*sc, 6 count"""
    s1, sI, srI, scI, frm = [table.props[k] for k in range(5)]
    sc = table.sc_num[frm] if scaled else np.ones(len(frm), np.int64)
    scd = table.sc_den if scaled else 1
    rows = [(s1, 1), (sI * sc, scd), (srI * sc, scd), (scI * sc, scd),
            (table.om_num[frm] * sI * sc, scd * table.om_den),
            (table.dty_num[frm] * sI * sc, scd * table.dty_den),
            (np.ones(len(frm), np.int64), 1)]
    out = []
    for w, den in rows:
        assert np.abs(w).max(initial=0) < 2 ** 40
        acc = np.zeros(nlabel, np.int64)
        np.add.at(acc, labels, w)          # integer accumulation: exact
        out.append((acc, int(den)))
    return out


def judge_merge(table, labels, nlabel, scaled, pkm, stats=None):
    """pkm: dict returned by pks_table.pk2dmerge.  Expectation: exact sums over the members of each
    label (labels = the code's own, already judged, labelling); means as exact rationals
    sum(w x) / sum(w) for weights w = sI * scale of ANY sign; a merged peak whose total weight is
    exactly 0 has no mean (only its sums are judged)."""
    if isinstance(table, FTable):
        return judge_merge_f(table, labels, nlabel, scaled, pkm, stats)
    ex = merged_exact(table, np.asarray(labels, np.int64), nlabel, scaled)
    num = [e[0] for e in ex]
    den = [e[1] for e in ex]
    problems = []
    want = {
        "Number_of_pixels": (num[0], den[0]),
        "sum_intensity": (num[1], den[1]),
        "npk2d": (num[6], den[6]),
        "s_raw": (num[2], num[1]),                     # (srI sum / d) / (sI sum / d)
        "f_raw": (num[3], num[1]),
        "omega": (num[4] * den[1], num[1] * den[4]),
        "dty": (num[5] * den[1], num[1] * den[5]),
        "spot3d_id": (np.arange(nlabel, dtype=np.int64), 1),
    }
    defined = num[1] != 0
    count_signs(stats, num[1])
    for k in sorted(want):
        if k not in pkm:
            problems.append("pk2dmerge result lacks %r" % k)
            continue
        got, wn, wd = np.asarray(pkm[k]), want[k][0], want[k][1]
        if k in ("s_raw", "f_raw", "omega", "dty") and not defined.all() and got.shape == defined.shape:
            got, wn, wd = got[defined], wn[defined], wd[defined]
        p = vec_mismatch("pk2dmerge(%s)[%s]" % ("scaled" if scaled else "unscaled", k), got, wn, wd)
        if p:
            if got is not pkm[k]:
                p += " (index among the merged peaks of non-zero total weight)"
            problems.append(p)
    return problems


def count_signs(stats, totals):
    """evidence: how many judged merged peaks had a negative / zero total weight"""
    if stats is None:
        return
    neg = int(sum(1 for x in totals if x < 0))
    zero = int(sum(1 for x in totals if x == 0))
    stats["merged_peaks_judged_with_negative_total_weight"] = \
        stats.get("merged_peaks_judged_with_negative_total_weight", 0) + neg
    stats["merged_peaks_with_zero_weight_not_judged_for_means"] = \
        stats.get("merged_peaks_with_zero_weight_not_judged_for_means", 0) + zero


def judge_kernel(table, labels, nlabel, scaled, out):
    """out: the (7, nlabel) array numbapkmerge itself filled (called directly on a zeroed buffer).
    Rows = exact sums over the members: 0 s1, 1 w, 2 w*row, 3 w*col, 4 w*omega, 5 w*dty, 6 count with
    w = sI * scale.  |x - e| <= 1e-9 * sum|terms| + 1e-12."""
    tag = "numbapkmerge(%s)" % ("scaled" if scaled else "unscaled")
    out = np.asarray(out)
    if out.shape != (7, nlabel):
        return ["%s: out has shape %s, expected (7, %d)" % (tag, out.shape, nlabel)]
    labels = np.asarray(labels, np.int64)
    if isinstance(table, FTable):
        ex = merged_exact_f(table, labels, nlabel, scaled)
        for r in range(7):
            for j in range(nlabel):
                e = ex["num"][r][j] / ex["den"][r]
                a = ex["absn"][r][j] / ex["den"][r]
                if not abs(float(out[r, j]) - e) <= TOL_REL * a + TOL_ABS:
                    return ["%s: out[%d, %d] = %r, exact sum over the members %r" % (tag, r, j, float(out[r, j]), e)]
        return []
    ex = merged_exact(table, labels, nlabel, scaled)
    problems = []
    for r in range(7):
        p = vec_mismatch("%s: out[%d]" % (tag, r), out[r], ex[r][0], ex[r][1])
        if p:
            problems.append(p)
    return problems


def judge_pk2d(table, glabel, scaled, pk):
    if isinstance(table, FTable):
        return judge_pk2d_f(table, glabel, scaled, pk)
    s1, sI, srI, scI, frm = [table.props[k] for k in range(5)]
    n = len(s1)
    problems = []

    def cmpf(name, got, expf):
        got = np.asarray(got, float)
        if got.shape != expf.shape:
            problems.append("pk2d[%s] shape %s" % (name, got.shape))
            return
        if len(expf) == 0:
            return
        scale = float(np.max(np.abs(expf)))
        bad = ~(np.abs(got - expf) <= TOL_REL * scale + TOL_ABS)
        if bad.any():
            k = int(np.argmax(bad))
            problems.append("pk2d(%s)[%s][%d] = %r, expected %r" % ("scaled" if scaled else "unscaled",
                                                                   name, k, float(got[k]), float(expf[k])))
    cmpf("s_raw", pk["s_raw"], srI / sI.astype(float))
    cmpf("f_raw", pk["f_raw"], scI / sI.astype(float))
    cmpf("omega", pk["omega"], table.om_num[frm] / float(table.om_den))
    cmpf("dty", pk["dty"], table.dty_num[frm] / float(table.dty_den))
    cmpf("Number_of_pixels", pk["Number_of_pixels"], s1.astype(float))
    if scaled:
        cmpf("sum_intensity", pk["sum_intensity"], sI * table.sc_num[frm] / float(table.sc_den))
    else:
        cmpf("sum_intensity", pk["sum_intensity"], sI.astype(float))
    if not np.array_equal(np.asarray(pk["spot3d_id"]), np.asarray(glabel)):
        problems.append("pk2d spot3d_id is not the merged-peak label of each 2D peak")
    return problems


# ----------------------------------------------------------------------------------
# general value tables: omega / dty / scale are ARBITRARY finite doubles or floats handed to the code
# in any dtype / memory layout; the expectation is computed from the exact binary value of every
# element (a double is an integer times a power of two) with Python integers - no rounding at all.

def exact_ints(a):
    """a: float array (any float dtype / layout).  Returns (list of Python ints M in logical C order,
    shift s >= 0) with  a.flat[k] == M[k] / 2**s  exactly."""
    a = np.asarray(a)
    a = np.asarray(a, dtype=np.float64).ravel(order="C")       # float32 -> float64 is exact
    assert np.isfinite(a).all()
    m, e = np.frexp(a)                                         # a = m * 2**e, 0.5 <= |m| < 1 (0 -> 0, 0)
    M = np.round(m * 2.0 ** 53).astype(np.int64)               # exact: 53 significant bits
    e = e.astype(np.int64) - 53
    nz = M != 0
    emin = min(int(e[nz].min()), 0) if nz.any() else 0
    ints = [(int(Mk) << int(ek - emin)) if Mk else 0 for Mk, ek in zip(M, e)]
    return ints, -emin


class FTable(object):
    """integer property table + per-frame float arrays exactly as they are handed to the code.
    kind / notes are free text for the evidence; monitor (optional): (monitor array, monitor_ref) from
    which the dataset route derives scale = monitor_ref / monitor (one IEEE division, repeated here)."""

    def __init__(self, props, omega, dty, scale, kind="", monitor=None):
        self.props = np.ascontiguousarray(props, dtype=np.int64)
        self._om, self._dty, self._sc = omega, dty, scale
        assert omega.shape == dty.shape == scale.shape
        self.shape = omega.shape
        self.kind = kind
        self.monitor = monitor
        self.om_i, self.om_s = exact_ints(omega)
        self.dty_i, self.dty_s = exact_ints(dty)
        self.sc_i, self.sc_s = exact_ints(scale)
        self._cache = {}

    def omega(self):
        return self._om

    def dty(self):
        return self._dty

    def scale(self):
        return self._sc

    def flat64(self, which):
        """logical C-order float64 copy (exact) of one per-frame array"""
        return np.asarray(np.asarray({"om": self._om, "dty": self._dty, "sc": self._sc}[which]),
                          dtype=np.float64).ravel(order="C")


def merged_exact_f(table, labels, nlabel, scaled):
    """exact sums per label with Python integers.  Returns dict: num[r] (list of ints per label) and
    den[r] (int) for the rows r = 0..6 of numbapkmerge, absn[r] = sums of |terms| (every row: the
    weights sI * scale may have any sign)."""
    key = (bool(scaled), int(nlabel), hash(np.ascontiguousarray(labels).tobytes()))
    if key in table._cache:
        return table._cache[key]
    s1, sI, srI, scI, frm = [[int(x) for x in table.props[k]] for k in range(5)]
    lab = [int(x) for x in labels]
    if scaled:
        sc, scs = table.sc_i, table.sc_s
    else:
        sc, scs = [1] * len(table.sc_i), 0
    om, dt = table.om_i, table.dty_i
    num = [[0] * nlabel for r in range(7)]
    ab = [[0] * nlabel for r in range(7)]
    for k in range(len(lab)):
        j, f = lab[k], frm[k]
        w = sI[k] * sc[f]
        terms = (s1[k], w, srI[k] * sc[f], scI[k] * sc[f], om[f] * w, dt[f] * w, 1)
        for r in range(7):
            num[r][j] += terms[r]
            ab[r][j] += abs(terms[r])
    den = [1, 1 << scs, 1 << scs, 1 << scs, 1 << (scs + table.om_s), 1 << (scs + table.dty_s), 1]
    out = {"num": num, "den": den, "absn": ab}
    table._cache = {key: out}
    return out


def judge_merge_f(table, labels, nlabel, scaled, pkm, stats=None):
    """general-value judge, weights w = sI * scale of ANY sign.  Sums: |x - e| <= 1e-9 * sum|terms| +
    1e-12.  Means m = N_r / N_1 (exact rational sum(w x) / sum(w)):
    |x - m| <= 1e-9 * (sum|terms_r| / |N_1| + |m| * sum|w| / |N_1|) + 1e-12, i.e. relative to the
    magnitude of what was summed in the numerator AND in the denominator, not to possibly cancelled
    results (all weights of one sign: sum|w| / |N_1| = 1).  A merged peak whose total weight is exactly
    0 (all scale factors 0, or positive and negative members that cancel) has no defined mean: only
    its pixel count, 2D-peak count and (zero) intensity are judged."""
    ex = merged_exact_f(table, np.asarray(labels, np.int64), nlabel, scaled)
    num, den, absn = ex["num"], ex["den"], ex["absn"]
    tag = "pk2dmerge(%s)" % ("scaled" if scaled else "unscaled")
    problems = []
    for k in ("Number_of_pixels", "sum_intensity", "npk2d", "s_raw", "f_raw", "omega", "dty", "spot3d_id"):
        if k not in pkm:
            problems.append("pk2dmerge result lacks %r" % k)
        elif np.asarray(pkm[k]).shape != (nlabel,):
            problems.append("%s[%s]: shape %s, expected (%d,)" % (tag, k, np.asarray(pkm[k]).shape, nlabel))
    if problems:
        return problems
    if not np.array_equal(np.asarray(pkm["spot3d_id"]), np.arange(nlabel)):
        problems.append("%s[spot3d_id] is not 0..nlabel-1" % tag)
    undefined = 0

    def bad(name, j, x, e, tol, what):
        problems.append("%s[%s][%d] = %r, exact value %r (%s)" % (tag, name, j, float(x), e, what))

    got = {k: np.asarray(pkm[k], float) for k in pkm if k != "spot3d_id"}
    for j in range(nlabel):
        if len(problems) >= 5:
            break
        for name, r in (("Number_of_pixels", 0), ("sum_intensity", 1), ("npk2d", 6)):
            e = num[r][j] / den[r]                  # int / int: correctly rounded
            x = got[name][j]
            if not abs(x - e) <= TOL_REL * (absn[r][j] / den[r]) + TOL_ABS:
                bad(name, j, x, e, 0, "sum over the members")
        if num[1][j] == 0:
            undefined += 1
            continue
        w = abs(num[1][j]) / den[1]
        cancel = absn[1][j] / abs(num[1][j])           # >= 1; = 1 when all weights have one sign
        for name, r in (("s_raw", 2), ("f_raw", 3), ("omega", 4), ("dty", 5)):
            fr = Fraction(num[r][j] * den[1], num[1][j] * den[r])
            e = float(fr)
            mag = (absn[r][j] / den[r]) / w
            x = got[name][j]
            if not abs(x - e) <= TOL_REL * (mag + abs(e) * cancel) + TOL_ABS:
                bad(name, j, x, e, 0, "intensity-weighted mean, exact rational %d/%d" % (fr.numerator, fr.denominator)
                    if fr.denominator < 10 ** 12 else "intensity-weighted mean")
    if stats is not None:
        stats["merged_peaks_with_zero_weight_not_judged_for_means"] = \
            stats.get("merged_peaks_with_zero_weight_not_judged_for_means", 0) + undefined
        stats["merged_peaks_judged_with_negative_total_weight"] = \
            stats.get("merged_peaks_judged_with_negative_total_weight", 0) + sum(1 for x in num[1] if x < 0)
    return problems


def judge_pk2d_f(table, glabel, scaled, pk):
    """per 2D peak, one rounding each: |x - e| <= 1e-9 |e| + 1e-12 elementwise"""
    s1, sI, srI, scI, frm = [table.props[k] for k in range(5)]
    assert int(np.abs(table.props[:4]).max(initial=0)) < 2 ** 53
    problems = []

    def cmpf(name, got, expf):
        got = np.asarray(got, float)
        if got.shape != expf.shape:
            problems.append("pk2d[%s] shape %s" % (name, got.shape))
            return
        bad = ~(np.abs(got - expf) <= TOL_REL * np.abs(expf) + TOL_ABS)
        if bad.any():
            k = int(np.argmax(bad))
            problems.append("pk2d(%s)[%s][%d] = %r, expected %r" % ("scaled" if scaled else "unscaled",
                                                                   name, k, float(got[k]), float(expf[k])))
    cmpf("s_raw", pk["s_raw"], srI / sI.astype(float))
    cmpf("f_raw", pk["f_raw"], scI / sI.astype(float))
    cmpf("omega", pk["omega"], table.flat64("om")[frm])
    cmpf("dty", pk["dty"], table.flat64("dty")[frm])
    cmpf("Number_of_pixels", pk["Number_of_pixels"], s1.astype(float))
    if scaled:
        sh = 1 << table.sc_s
        cmpf("sum_intensity", pk["sum_intensity"],
             np.array([(int(a) * table.sc_i[int(f)]) / sh for a, f in zip(sI, frm)], float))
    else:
        cmpf("sum_intensity", pk["sum_intensity"], sI.astype(float))
    if not np.array_equal(np.asarray(pk["spot3d_id"]), np.asarray(glabel)):
        problems.append("pk2d spot3d_id is not the merged-peak label of each 2D peak")
    return problems


LAYOUTS = ("C64", "mixA", "mixB")
VKINDS = ("wide", "monitor", "zero", "neg", "negmon")


def _layout(a, how):
    """the same values in another dtype / memory layout (values rounded to float32 first when asked)"""
    if how == "C":
        return np.ascontiguousarray(a, np.float64)
    if how == "F":
        return np.asfortranarray(np.asarray(a, np.float64))
    if how == "f32":
        return np.ascontiguousarray(a, np.float32)
    if how == "F32":
        return np.asfortranarray(np.asarray(a, np.float32))
    if how == "strided":                       # every second column of a wider array: neither C nor F contiguous
        big = np.full((a.shape[0], 2 * a.shape[1]), 12345.678)
        big[:, ::2] = a
        return big[:, ::2]
    raise ValueError(how)


def make_vtable(kind, n, seed, root, layout="C64", shape=(13, 17)):
    """value classes of the property table (all finite):
       wide    sI up to 1e9, s1 up to 1e5, scale factors 10**U(-6, 3), omega U(-180, 360), dty U(-5, 5)
       monitor scale = monitor_ref / monitor, monitor U(1e3, 1e9), monitor_ref = mean (non-dyadic quotients)
       zero    as wide with scale = 0 on about half of the frames; every fourth component (by its
               minimum) has ALL members on zero-scale frames (total weight 0: means undefined)
       neg     SIGN classes of the weights: as wide with the scale factor negative on about a third of
               the frames AND a negative sI (background-subtracted table) for about a quarter of the
               peaks: merged peaks of negative total weight, of positive total weight with negative
               members, with one member and with >= 1000 members; every fourth component (by its
               minimum) of an even number m >= 2 of members is made to cancel EXACTLY (all members the
               same |sI|, row and column sums; m/2 on frame 0, m/2 on frame 1, scale[1] = -scale[0]):
               total weight 0, mean undefined, with and without the scale factors when the signs of sI
               are used (every second of them: sI = +c on both frames -> cancels only when scaled;
               the others: sI = +c / -c on ONE frame -> cancels scaled and unscaled)
       negmon  scale = monitor_ref / monitor with a monitor (offset subtracted) that reads below zero
               on about a fifth of the frames - slightly (|monitor| down to 1e-6 of the typical reading:
               huge negative scale factors) to fully negative; monitor_ref = mean of the monitor
    layout: C64 = C-contiguous float64; mixA = omega Fortran-ordered float64, dty float32, scale strided;
            mixB = omega Fortran-ordered float32, dty strided float64, scale Fortran-ordered float64"""
    rng = np.random.default_rng([int(seed), int(n), 4242, VKINDS.index(kind)])
    nf = shape[0] * shape[1]
    s1 = rng.integers(1, 100001, n)
    sI = np.maximum(1, (10 ** rng.uniform(0, 9, n)).astype(np.int64))
    srI = sI * rng.integers(0, 2048, n) + rng.integers(0, 50, n)
    scI = sI * rng.integers(0, 2048, n) + rng.integers(0, 50, n)
    frm = rng.integers(0, nf, n)
    om = rng.uniform(-180, 360, shape)
    dt = rng.uniform(-5, 5, shape)
    monitor = None
    if kind in ("monitor", "negmon"):
        mon = rng.uniform(1e3, 1e9, shape)
        if kind == "negmon":
            dip = rng.random(shape) < 0.2
            dip.flat[2], dip.flat[3] = True, False
            mon = np.where(dip, -mon * 10 ** rng.uniform(-6, 0, shape), mon)
        ref = float(np.mean(mon))
        sc = ref / mon
        monitor = (mon, ref)
    else:
        sc = 10 ** rng.uniform(-6, 3, shape)
    if kind == "zero":
        zf = rng.random(nf) < 0.5
        zf[0], zf[1] = True, False
        sc = np.where(zf.reshape(shape), 0.0, sc)
        zframes = np.nonzero(zf)[0]
        root = np.asarray(root)
        roots = np.nonzero(root == np.arange(n))[0]
        dead = roots[::4]
        isdead = np.zeros(n, bool)
        isdead[dead] = True
        m = isdead[root]
        frm[m] = zframes[rng.integers(0, len(zframes), int(m.sum()))]
    if kind == "neg":
        sc = np.where(rng.random(shape) < 0.33, -sc, sc)
        sc.flat[0] = abs(sc.flat[0])
        sc.flat[1] = -sc.flat[0]
        sI = np.where(rng.random(n) < 0.25, -sI, sI)
        srI = sI * rng.integers(0, 2048, n) + rng.integers(0, 50, n)
        scI = sI * rng.integers(0, 2048, n) + rng.integers(0, 50, n)
        root = np.asarray(root)
        roots = np.nonzero(root == np.arange(n))[0]
        size = np.bincount(root, minlength=n)
        even = roots[(size[roots] % 2 == 0)]
        for q, r in enumerate(even[::4]):
            mem = np.nonzero(root == r)[0] if size[r] < 64 else None
            if mem is None:
                continue
            c = int(abs(sI[r]))
            h = len(mem) // 2
            if q % 2 == 0:
                sI[mem] = c
                frm[mem[:h]], frm[mem[h:]] = 0, 1
            else:
                sI[mem[:h]], sI[mem[h:]] = c, -c
                frm[mem] = 0
            srI[mem] = sI[mem] * 1000 + 7
            scI[mem] = sI[mem] * 500 + 3
    if n:
        k_last = int(rng.integers(0, n))
        if kind == "neg":                      # do not take a member out of a cancelling component
            iso = np.nonzero(size[root] == 1)[0]
            k_last = int(iso[0]) if len(iso) else k_last
        frm[k_last] = nf - 1
    how = {"C64": ("C", "C", "C"), "mixA": ("F", "f32", "strided"), "mixB": ("F32", "strided", "F")}[layout]
    if kind in ("monitor", "negmon") and layout != "C64":
        raise ValueError("the monitor class is built C-contiguous (the dataset derives scale itself)")
    props = np.array([s1, sI, srI, scI, frm], np.int64)
    return FTable(props, _layout(om, how[0]), _layout(dt, how[1]), _layout(sc, how[2]),
                  kind="%s/%s" % (kind, layout), monitor=monitor)


# ----------------------------------------------------------------------------------
# seeded instance families.  A family returns (n, ei, ej) as int64 arrays.

def _orient_shuffle(rng, a, b, shuffle=True, orient=True):
    a = np.asarray(a, np.int64)
    b = np.asarray(b, np.int64)
    if orient and len(a):
        sw = rng.random(len(a)) < 0.5
        a, b = np.where(sw, b, a), np.where(sw, a, b)
    if shuffle and len(a):
        o = rng.permutation(len(a))
        a, b = a[o], b[o]
    return np.ascontiguousarray(a), np.ascontiguousarray(b)


def fam_chain_random(rng, n):
    """one path through all nodes in random node order, edges in random order: ~n/2 sweeps"""
    p = rng.permutation(n)
    return (n,) + _orient_shuffle(rng, p[:-1], p[1:])


def fam_chain_ordered(rng, n):
    """path 0-1-2-...: one sweep forwards, the flipped sweep order is the worst case"""
    a = np.arange(n - 1)
    if rng.random() < 0.5:
        return n, a[::-1].copy().astype(np.int64), (a[::-1] + 1).astype(np.int64)
    return n, a.astype(np.int64), (a + 1).astype(np.int64)


def fam_chain_forest(rng, n, length=64):
    """n nodes in random chains of about `length` nodes (bounded number of sweeps), all interleaved"""
    p = rng.permutation(n)
    a, b = p[:-1], p[1:]
    keep = (np.arange(n - 1) % length) != (length - 1)
    return (n,) + _orient_shuffle(rng, a[keep], b[keep])


def fam_star(rng, n):
    """a few hubs, every other node attached to one hub"""
    nh = int(rng.integers(1, 4))
    hubs = rng.choice(n, nh, replace=False)
    leaves = np.setdiff1d(np.arange(n), hubs)
    h = hubs[rng.integers(0, nh, len(leaves))]
    return (n,) + _orient_shuffle(rng, h, leaves)


def fam_dups_loops(rng, n):
    """sparse random graph + every edge duplicated (some reversed) + self loops"""
    m = max(1, n // 3)
    a = rng.integers(0, n, m)
    b = rng.integers(0, n, m)
    loops = rng.integers(0, n, max(1, n // 5))
    aa = np.concatenate([a, a, b, loops])
    bb = np.concatenate([b, b, a, loops])
    return (n,) + _orient_shuffle(rng, aa, bb, orient=False)


def fam_no_edges(rng, n):
    return n, np.zeros(0, np.int64), np.zeros(0, np.int64)


def fam_random_sparse(rng, n):
    """Erdos-Renyi around the critical density (long tree-like components)"""
    m = int(n * rng.choice([0.3, 0.5, 0.7]))
    return (n,) + _orient_shuffle(rng, rng.integers(0, n, m), rng.integers(0, n, m))


def fam_sinogram(rng, n):
    """overlap pattern of a real peak table: peak k overlaps k+1 (next frame) and k+W (next row), randomly thinned"""
    W = int(rng.integers(5, 60))
    k = np.arange(n)
    a1 = k[:-1][rng.random(n - 1) < 0.5]
    a2 = k[:-W][rng.random(max(n - W, 0)) < 0.3] if n > W else np.zeros(0, np.int64)
    a = np.concatenate([a1, a2])
    b = np.concatenate([a1 + 1, a2 + W])
    return n, np.ascontiguousarray(a, np.int64), np.ascontiguousarray(b, np.int64)


def fam_merge_race(rng, n):
    """a few big stars whose members are interleaved in storage order (peak k belongs to star k % S):
    every contiguous slice of the 2D peak table holds members of every merged peak, so a merge loop
    that is split over threads has all threads updating the same few accumulators"""
    S = int(rng.integers(3, 7))
    k = np.arange(S, n)
    return (n,) + _orient_shuffle(rng, k, k % S)


def fam_vclass(rng, n):
    """6 interleaved stars on the first 3/4 of the peaks (>= 1000 members each for n >= 8000), chains of
    about 8 peaks on the next ~1/5, the rest isolated"""
    S = 6
    a = (3 * n) // 4
    b = a + n // 5
    k = np.arange(S, a)
    p = a + rng.permutation(b - a)
    keep = (np.arange(len(p) - 1) % 8) != 7
    ea = np.concatenate([k, p[:-1][keep]])
    eb = np.concatenate([k % S, p[1:][keep]])
    return (n,) + _orient_shuffle(rng, ea, eb)


FAMILIES = {
    "merge_race": fam_merge_race,
    "vclass": fam_vclass,
    "chain_random": fam_chain_random,
    "chain_ordered": fam_chain_ordered,
    "chain_forest": fam_chain_forest,
    "star": fam_star,
    "dups_loops": fam_dups_loops,
    "no_edges": fam_no_edges,
    "random_sparse": fam_random_sparse,
    "sinogram": fam_sinogram,
}


# stream index of a family (fixed: adding a family must not change the instances of the others)
FAMILY_INDEX = ["chain_forest", "chain_ordered", "chain_random", "dups_loops", "no_edges", "random_sparse",
                "sinogram", "star", "merge_race", "vclass"]


def make_instance(family, n, seed):
    rng = np.random.default_rng([int(seed), int(n), FAMILY_INDEX.index(family)])
    n, ei, ej = FAMILIES[family](rng, int(n))
    return int(n), np.ascontiguousarray(ei, np.int64), np.ascontiguousarray(ej, np.int64)


def make_table(n, seed, shape=(7, 11)):
    """random integer property table: s1 1..40, |sI| 1..2000, srI ~ sI*row, scI ~ sI*col, frm any frame;
    omega in quarter degrees (incl. negative), dty in eighths, scale factors k/8, |k/8| in (0, 2].
    SIGNS: about one 2D peak in ten has a negative sI (background subtracted) and about one frame in
    eight a negative scale factor, so every family / route / history sees merged peaks of negative
    total weight and of mixed signs (a total of exactly 0 can happen: its means are not judged)."""
    rng = np.random.default_rng([int(seed), int(n), 977])
    sgn = np.random.default_rng([int(seed), int(n), 978])
    nf = shape[0] * shape[1]
    s1 = rng.integers(1, 41, n)
    sI = rng.integers(1, 2001, n)
    rr, re = rng.integers(0, 2048, n), rng.integers(0, 50, n)
    cr, ce = rng.integers(0, 2048, n), rng.integers(0, 50, n)
    sI = np.where(sgn.random(n) < 0.1, -sI, sI)
    srI = sI * rr + re
    scI = sI * cr + ce
    frm = rng.integers(0, nf, n)
    if n:
        frm[int(rng.integers(0, n))] = nf - 1
    props = np.array([s1, sI, srI, scI, frm], np.int64)
    om = rng.integers(-720, 721, nf)
    dt = rng.integers(-400, 401, nf)
    sc = rng.integers(1, 17, nf)
    sc = np.where(sgn.random(nf) < 0.125, -sc, sc)
    return Table(props, shape, om, 4, dt, 8, sc, 8)


def table_from_record(rec):
    """the specification's table (LabelND.tla: S1, SI, SR, SC, FRM, OM, DTY, SCN/SDen)"""
    nf = len(rec["omega"])
    return Table(np.array(rec["props"], np.int64).reshape(5, rec["n"]), (1, nf),
                 rec["omega"], 1, rec["dty"], 1, rec["scalenum"], rec["scaleden"])


def split_scans(n, ne, seed, nscans=None):
    """the npk array [nscans, (peaks in scan, pairs within the scan, pairs to the previous scan)] of a
    table of n peaks and ne overlap pairs cut into scans at arbitrary places (empty scans allowed),
    as properties.compute_storage hands it to pks_table(npk)"""
    rng = np.random.default_rng([int(seed), int(n), int(ne), 31])
    ns = int(nscans or rng.integers(1, 5))
    cp = np.sort(rng.integers(0, n + 1, ns - 1))
    pk = np.diff(np.concatenate([[0], cp, [n]]))
    ce = np.sort(rng.integers(0, ne + 1, ns - 1))
    pe = np.diff(np.concatenate([[0], ce, [ne]]))
    nii = np.array([int(rng.integers(0, x + 1)) for x in pe], np.int64)
    return np.array([pk, nii, pe - nii], np.int64).T.copy()


def union_of_records(recs, interleave):
    """disjoint union of small instances (node ids offset).  interleave=True lists edge 0 of every
    instance, then edge 1 of every instance, ... so that one instance's edges fall into different
    prange chunks.  Returns n, ei, ej, offsets"""
    offs = np.zeros(len(recs) + 1, np.int64)
    for k, r in enumerate(recs):
        offs[k + 1] = offs[k] + r["n"]
    ei, ej, pos, gid = [], [], [], []
    for k, r in enumerate(recs):
        for e in range(r["ne"]):
            ei.append(r["ei"][e] + int(offs[k]))
            ej.append(r["ej"][e] + int(offs[k]))
            pos.append(e)
            gid.append(k)
    ei = np.array(ei, np.int64)
    ej = np.array(ej, np.int64)
    if interleave and len(ei):
        o = np.lexsort((np.array(gid), np.array(pos)))
        ei, ej = ei[o], ej[o]
    return int(offs[-1]), np.ascontiguousarray(ei), np.ascontiguousarray(ej), offs

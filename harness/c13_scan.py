"""C13: SparseScan.lmlabel as a function of its arguments and of the SIGN / ZERO class of the stored values
(specs/LocalMaxScan.tla).

Every case TLC emits (a scan <<frame, no pixels, mirrored frame>> under an order preserving value map a v - b: stored
values negative, exactly 0 and positive) is written as scan groups of ONE h5 file with several intensity dtypes
(float32 always; a rotating one of int32, float64, int16, int64, and uint16 when no value is negative), loaded with the
real constructor and labelled with
    lmlabel()                                   the default call (sinograms/properties.props passes countall only)
    lmlabel(countall=c, smooth=s)               all four combinations
    lmlabel(threshold=t, countall=c, smooth=s)  every threshold of the specification's THRS, as int and as float
    lmlabel(t, c, s)                            positional
on ONE object per group (so every call also follows other calls on the same object).  Judged after every call:
scan.signal * 16 == the specification's 16 x signal (exact small integers), scan.labels == the specification's labels of
the stored pixels (raster order; only where every stored 3x3 block has a unique largest signal), scan.nlabels,
scan.total_labels, `labels` registered in scan.names, intensity / row / col untouched.
The specification's expectations are cross-checked against the harness' independent definitions (props/c13.py
sparse_definition, smooth16_definition) - a disagreement is a machinery error.
"""
import os
import numpy as np

DTYPES_ROT = ["int32", "float64", "int16", "int64"]
KEYS = {(False, True): "raw_all", (False, False): "raw_each", (True, True): "sm_all", (True, False): "sm_each"}


def parse(printed):
    import json
    cases = []
    for line in sorted(set(printed)):
        cases.append(json.loads(line))
    return cases


def frames_of(case):
    """-> list per frame of (rows, cols, values int64) in raster order"""
    ns, nf = case["ns"], case["nf"]
    out = []
    for lev in case["lev"]:
        lev = np.asarray(lev, np.int64)
        idx = np.flatnonzero(lev > 0)
        out.append((idx // nf, idx % nf, case["a"] * lev[idx] - case["b"], idx))
    return out


def expected(case, smooth, countall):
    """(signal16 of the stored pixels, labels or None, nlabels or None) from the specification's grids"""
    frs = frames_of(case)
    sg = case["sig_sm" if smooth else "sig_raw"]
    sig16 = np.concatenate([np.asarray(g, np.int64)[f[3]] for g, f in zip(sg, frs)]) if frs else np.zeros(0, np.int64)
    if not case["tf_sm" if smooth else "tf_raw"]:
        return sig16, None, None
    lg = case[KEYS[(smooth, countall)]]
    lab = np.concatenate([np.asarray(g, np.int64)[f[3]] for g, f in zip(lg, frs)])
    return sig16, lab.astype(np.int32), np.asarray(case["n_sm" if smooth else "n_raw"], np.int32)


def crosscheck(case, defs):
    """the specification against the harness' own definitions; -> None or a message"""
    ns, nf = case["ns"], case["nf"]
    for smooth in (False, True):
        sig16, lab, nl = expected(case, smooth, True)
        pos, off, ties = 0, 0, 0
        for k, (ii, jj, vals, idx) in enumerate(frames_of(case)):
            n = len(ii)
            e16 = np.asarray(defs["smooth16_definition"](ii, jj, vals) if smooth else vals * 16, np.int64)
            if not np.array_equal(e16, sig16[pos:pos + n]):
                return "signal (smooth=%s) frame %d: spec %s, definition %s" % (smooth, k, sig16[pos:pos + n].tolist(), e16.tolist())
            if n:
                img = np.zeros((ns, nf), np.float64)
                m = np.zeros((ns, nf), bool)
                m[ii, jj] = True
                img[ii, jj] = e16
                es = defs["sparse_definition"](img, m)
                ties += int(es is None)
                if lab is not None:
                    if es is None or es[1] != nl[k] or not np.array_equal(np.asarray(es[0]) + off, lab[pos:pos + n]):
                        return "labels (smooth=%s) frame %d: spec %s n=%s, definition %s" % (smooth, k, lab[pos:pos + n].tolist(), nl[k], es)
                    off += es[1]
            elif lab is not None and nl[k] != 0:
                return "empty frame with %d labels" % nl[k]
            pos += n
        if lab is None and ties == 0:
            return "tie flag (smooth=%s): the specification sees a tie, the definition none" % smooth
    return None


def dtypes_of(case, k):
    vals = np.concatenate([f[2] for f in frames_of(case)])
    dts = ["float32", DTYPES_ROT[k % len(DTYPES_ROT)]]
    if len(vals) and vals.min() >= 0 and k % 2 == 0:
        dts.append("uint16")
    return dts


def write_file(hname, cases):
    """one group per (case, dtype) -> list of (case index, dtype, group name)"""
    import h5py
    groups = []
    with h5py.File(hname, "w") as h:
        for k, case in enumerate(cases):
            frs = frames_of(case)
            row = np.concatenate([f[0] for f in frs]).astype(np.uint16)
            col = np.concatenate([f[1] for f in frs]).astype(np.uint16)
            vals = np.concatenate([f[2] for f in frs])
            nnz = np.array([len(f[0]) for f in frs], np.uint32)
            for dt in dtypes_of(case, k):
                name = "%d.%d" % (k + 1, len(groups) + 1)
                g = h.create_group(name)
                g.attrs["nframes"] = len(frs)
                g.attrs["shape0"] = case["ns"]
                g.attrs["shape1"] = case["nf"]
                g["row"] = row
                g["col"] = col
                g["intensity"] = vals.astype(dt)
                g["nnz"] = nnz
                groups.append((k, dt, name))
    return groups


def calls_of(case, k):
    """the argument lists: (args, kwargs, smooth, countall)"""
    out = [((), {}, True, True)]
    for s in (False, True):
        for c in (False, True):
            out.append(((), {"countall": c, "smooth": s}, s, c))
    n = 0
    for t in case["thrs"]:
        for s in (False, True):
            for c in (False, True):
                n += 1
                tv = float(t) + (0.5 if n % 4 == 0 else 0.0) if (n + k) % 2 else int(t)
                if (n + k) % 3 == 0:
                    out.append(((tv, c, s), {}, s, c))
                else:
                    out.append(((), {"threshold": tv, "countall": c, "smooth": s}, s, c))
    return out


def judge(sc, case, smooth, countall, inputs):
    """-> list of problems of the object's state after one lmlabel call"""
    sig16, lab, nl = expected(case, smooth, countall)
    probs = []
    sig = np.asarray(getattr(sc, "signal", np.zeros(0)), np.float64) * 16
    if sig.shape != sig16.shape or not np.array_equal(sig, sig16):
        probs.append("scan.signal x 16 = %s, definition %s" % (sig.tolist(), sig16.tolist()))
    if lab is not None:
        got = np.asarray(sc.labels)
        if got.shape != lab.shape or not np.array_equal(got, lab):
            bad = np.flatnonzero(got != lab) if got.shape == lab.shape else []
            probs.append("scan.labels = %s, every stored pixel's local maximum gives %s (%d stored pixels off; their signal: %s)"
                         % (got.tolist(), lab.tolist(), len(bad), (sig16[bad] / 16.0).tolist() if len(bad) else []))
        if not np.array_equal(np.asarray(sc.nlabels), nl):
            probs.append("scan.nlabels = %s, local maxima per frame %s" % (np.asarray(sc.nlabels).tolist(), nl.tolist()))
        if int(sc.total_labels) != int(nl.sum()):
            probs.append("scan.total_labels = %s, local maxima %d" % (sc.total_labels, int(nl.sum())))
    if "labels" not in sc.names:
        probs.append("'labels' not registered in scan.names")
    for nm, orig in inputs.items():
        if not np.array_equal(getattr(sc, nm), orig):
            probs.append("scan.%s was modified" % nm)
    return probs


def replay(chk, cases, sparseframe, defs, directory, seed, share=1.0, perturb=None):
    """-> statistics; violations are recorded on chk (the first few; all are counted)"""
    st = {"cases": 0, "groups": 0, "calls": 0, "calls_value_judged": 0, "calls_with_stored_values_le_0": 0,
          "calls_with_an_exact_zero": 0, "calls_with_negative_values": 0, "default_calls_with_stored_values_le_0": 0,
          "calls_smoothed_signal_le_0": 0, "dtypes": {}, "failing_calls": 0, "spec_vs_definition_checked": 0}
    rng = np.random.default_rng(seed + 1919)
    # cases in which neither signal is tie-free have no defined labels: a twentieth of them is kept (signal, bookkeeping)
    sel = [c for c in cases if (c["tf_raw"] or c["tf_sm"] or rng.random() < 0.05) and (share >= 1.0 or rng.random() < share)]
    for c in sel[::7]:
        msg = crosscheck(c, defs)
        st["spec_vs_definition_checked"] += 1
        if msg:
            raise RuntimeError("LocalMaxScan.tla and the harness definitions disagree (a=%d b=%d lev=%s): %s" % (c["a"], c["b"], c["lev"], msg))
    hname = os.path.join(directory, "c13_scan.h5")
    groups = write_file(hname, sel)
    st["cases"] = len(sel)
    for (k, dt, gname) in groups:
        case = sel[k]
        chk.case(("scan", case["ns"], case["nf"], case["a"], case["b"], str(case["lev"]), dt))
        chk.traces += 1
        st["groups"] += 1
        st["dtypes"][dt] = st["dtypes"].get(dt, 0) + 1
        try:
            sc = sparseframe.SparseScan(hname, gname)
        except Exception as ex:                  # noqa
            st["failing_calls"] += 1
            if st["failing_calls"] <= 6:
                chk.violation("SparseScan(%s intensities %s) raised %r" % (dt, case["lev"], ex), {"scan_case": case, "dtype": dt})
            continue
        frs = frames_of(case)
        vals = np.concatenate([f[2] for f in frs])
        inputs = {"intensity": vals.astype(np.float32), "row": np.concatenate([f[0] for f in frs]).astype(np.uint16),
                  "col": np.concatenate([f[1] for f in frs]).astype(np.uint16)}
        calls = calls_of(case, k)
        if dt != "float32":                      # the other dtypes: the default call, the four option calls, two threshold calls
            calls = calls[:5] + calls[5 + k % 5::6]
        for (args, kwds, smooth, countall) in calls:
            try:
                sc.lmlabel(*args, **kwds)
                probs = judge(sc, case if perturb is None else perturb(case), smooth, countall, inputs)
            except Exception as ex:              # noqa
                probs = ["raised %r" % (ex,)]
            st["calls"] += 1
            tf = bool(case["tf_sm" if smooth else "tf_raw"])
            st["calls_value_judged"] += int(tf)
            if tf:
                st["calls_with_stored_values_le_0"] += int((vals <= 0).any())
                st["calls_with_an_exact_zero"] += int((vals == 0).any())
                st["calls_with_negative_values"] += int((vals < 0).any())
                st["default_calls_with_stored_values_le_0"] += int((vals <= 0).any() and not args and "threshold" not in kwds)
                st["calls_smoothed_signal_le_0"] += int(smooth and (expected(case, True, True)[0] <= 0).any())
            if probs:
                st["failing_calls"] += 1
                if st["failing_calls"] <= 6:
                    call = ", ".join([repr(a) for a in args] + ["%s=%r" % kv for kv in kwds.items()])
                    chk.violation("SparseScan.lmlabel(%s) on a %dx%d scan of %s frames (intensity dtype %s, stored values %s = "
                                  "%d x level - %d, frame sizes %s): %s" % (
                                      call, case["ns"], case["nf"], len(frs), dt, vals.tolist(), case["a"], case["b"],
                                      [len(f[0]) for f in frs], " | ".join(probs[:3])),
                                  {"scan_case": case, "dtype": dt, "call": call})
        if st["failing_calls"] > 400:
            break
    return st

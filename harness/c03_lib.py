"""C03 helpers: exact form <-> cell conversion, observation of the real gethkls / makerings /
assigntorings, judgement of one TLC case against the observation, ring trace recorder; vectorised
(numpy, exact int64) brute force and linear-time ring judgement for the BIG instances.

Everything here is independent of TLC: it takes one record emitted by specs/HklWalk.tla
(`Emit` / `EmitCap`) and the real `ImageD11.unitcell` module.
"""
from __future__ import print_function
import math, itertools
from fractions import Fraction as Fr
import numpy as np

HMAX = 200
LETTERS = ["P", "A", "B", "C", "I", "F", "R"]
QUANT = 1e7           # fixed point of the ring traces
MARGIN = 5e-7         # no logged comparison may be closer than this to its threshold


# ------------------------------------------------------------------------------------------
# exact arithmetic on the integer form g = (g11,g22,g33,g23,g13,g12)

def Q(g, x):
    h, k, l = x
    return g[0] * h * h + g[1] * k * k + g[2] * l * l + 2 * g[3] * k * l + 2 * g[4] * h * l + 2 * g[5] * h * k


def mat(g):
    return [[g[0], g[5], g[4]], [g[5], g[1], g[3]], [g[4], g[3], g[2]]]


def det3(m):
    return (m[0][0] * (m[1][1] * m[2][2] - m[1][2] * m[2][1])
            - m[0][1] * (m[1][0] * m[2][2] - m[1][2] * m[2][0])
            + m[0][2] * (m[1][0] * m[2][1] - m[1][1] * m[2][0]))


def adj3(m):
    c = [[0] * 3 for _ in range(3)]
    for i in range(3):
        for j in range(3):
            r = [x for x in range(3) if x != i]
            s = [x for x in range(3) if x != j]
            c[j][i] = (-1) ** (i + j) * (m[r[0]][s[0]] * m[r[1]][s[1]] - m[r[0]][s[1]] * m[r[1]][s[0]])
    return c


def textbook_absent(cen, h, k, l):
    """International Tables reflection conditions for the seven lattice centrings
    (R = obverse setting on hexagonal axes).  Written from the textbook, not from the code."""
    if cen == "P":
        return False
    if cen == "A":
        return (k + l) % 2 != 0
    if cen == "B":
        return (h + l) % 2 != 0
    if cen == "C":
        return (h + k) % 2 != 0
    if cen == "I":
        return (h + k + l) % 2 != 0
    if cen == "F":
        return not ((h % 2) == (k % 2) == (l % 2))
    if cen == "R":
        return (-h + k + l) % 3 != 0
    raise ValueError(cen)


def cell_from_form(g, tie=False, cap=False, mode="lo"):
    """direct cell (a,b,c,alpha,beta,gamma) whose reciprocal metric is g/scale; returns (cell, scale)
    edges are put inside [2,30] A: mode "lo" = smallest edge 4 A (2 A when the ratio needs it),
    mode "hi" = longest edge 30 A (the same integer problem realised by a large cell and a small
    d-star limit instead of a small cell and a large limit)."""
    m = mat(g)
    d = det3(m)
    a = adj3(m)                      # direct metric = scale * a / d
    diag = [Fr(a[i][i], d) for i in range(3)]
    if cap:
        scale = Fr(900)              # c = 30 A, a = b = 0.15 A (outside the property's domain on purpose)
    elif tie:
        scale = Fr(256)
    elif mode == "hi":
        scale = Fr(900) / max(diag)
    else:
        n, mx = min(diag), max(diag)
        scale = Fr(16) / n if mx / n <= 49 else Fr(4) / n
    ed = [math.sqrt(float(scale * x)) for x in diag]
    def ang(i, j):
        c = float(Fr(a[i][j])) / math.sqrt(float(a[i][i] * a[j][j]))
        return math.degrees(math.acos(max(-1.0, min(1.0, c))))
    cell = (ed[0], ed[1], ed[2], ang(1, 2), ang(0, 2), ang(0, 1))
    return cell, scale


def dsmax_for(lim, scale, tie):
    """half-integer margin: dsmax^2 = (L - 1/2)/scale ; TIE: exactly L/scale"""
    if tie:
        return math.sqrt(float(Fr(lim) / scale))
    return math.sqrt(float((Fr(2 * lim - 1, 2)) / scale))


def rolling_hash(trace):
    vh = 0
    w = 2 * HMAX + 1
    for (h, k, l) in trace:
        code = ((h + HMAX) * w + (k + HMAX)) * w + (l + HMAX)
        vh = (vh * 31 + code) % 1000003
    return vh


def brute_py(g, lim, cen, strict=True):
    """independent brute force over a fixed generous cube (numpy, exact int64)"""
    m = mat(g)
    d = det3(m)
    a = adj3(m)
    bound = max(int(math.isqrt((lim * a[i][i]) // d)) for i in range(3)) + 3
    r = np.arange(-bound, bound + 1, dtype=np.int64)
    H, K, L = np.meshgrid(r, r, r, indexing="ij")
    q = (g[0] * H * H + g[1] * K * K + g[2] * L * L + 2 * g[3] * K * L + 2 * g[4] * H * L + 2 * g[5] * H * K)
    sel = (q < lim) if strict else (q <= lim)
    sel &= ~((H == 0) & (K == 0) & (L == 0))
    out = set()
    for h, k, l in zip(H[sel].tolist(), K[sel].tolist(), L[sel].tolist()):
        if not textbook_absent(cen, h, k, l):
            out.add((h, k, l))
    # the cube must be a strict superset: nothing on its surface
    surf = sel & ((abs(H) == bound) | (abs(K) == bound) | (abs(L) == bound))
    assert not surf.any()
    return out


# ------------------------------------------------------------------------------------------
# observation of the real code

class Obs(object):
    pass


def observe_gethkls(ucmod, cell, cen, dsmax, via_parameters=False, via=None):
    """call the real gethkls with ds() and absent() wrapped to record the walk
    via: None = unitcell(cell, cen) | "parameters" = unitcell_from_parameters | "string" = cellfromstring"""
    if via == "string":
        uc = ucmod.cellfromstring(" ".join(repr(float(x)) for x in cell) + " " + cen)    # repr: bit-exact round trip
    elif via_parameters or via == "parameters":
        from ImageD11 import parameters
        p = parameters.parameters(cell__a=cell[0], cell__b=cell[1], cell__c=cell[2],
                                  cell_alpha=cell[3], cell_beta=cell[4], cell_gamma=cell[5])
        p.set("cell_lattice_[P,A,B,C,I,F,R]", cen)
        uc = ucmod.unitcell_from_parameters(p)
    else:
        uc = ucmod.unitcell(cell, cen)
    o = Obs()
    o.ds_calls = []
    o.absent_calls = []
    real_ds = uc.ds
    real_absent = uc.absent

    def ds_w(h):
        o.ds_calls.append((int(h[0]), int(h[1]), int(h[2])))
        return real_ds(h)

    def absent_w(h, k, l):
        r = real_absent(h, k, l)
        o.absent_calls.append(((int(h), int(k), int(l)), bool(r)))
        return r
    uc.ds = ds_w
    uc.absent = absent_w
    try:
        peaks = uc.gethkls(dsmax)
    finally:
        uc.ds = real_ds
        uc.absent = real_absent
    o.uc = uc
    o.peaks = [[float(p[0]), tuple(int(x) for x in p[1])] for p in peaks]
    o.raw_is_state = [list(p) for p in uc.peaks] == [list(p) for p in peaks]      # anchored state unitcell.peaks
    again = uc.gethkls(dsmax)
    o.cached_same = [list(p) for p in again] == [list(p) for p in peaks]          # same question, same answer
    o.pysorted = all(peaks[i] <= peaks[i + 1] for i in range(len(peaks) - 1))
    o.B = np.array(uc.B, float)
    o.gi = np.array(uc.gi, float)
    return o


def box_trace(box):
    """visiting order of the proposed repair: lexicographic over the box, origin skipped"""
    hm, km, lm = box
    return [(h, k, l) for h in range(-hm, hm + 1) for k in range(-km, km + 1) for l in range(-lm, lm + 1)
            if (h, k, l) != (0, 0, 0)]


def close(x, e, scale=None):
    s = abs(e) if scale is None else scale
    return abs(x - e) <= 1e-9 * s + 1e-12


class Verdict(object):
    """result of judging one case"""
    def __init__(self):
        self.prop = []        # property clauses that failed (strings)
        self.conf = []        # walk-model conformance clauses that failed
        self.algo = None      # "walk" | "box" | "other"
        self.skipped = None   # reason when the case is not judged
        self.missing = []
        self.extra = []
        self.cause = set()    # for property failures: {"walk-loss", "centring-table", "unexplained"}


def judge_gethkls(rec, o, scale):
    """rec: TLC record; o: observation.  PROPERTY = textbook brute force; CONFORMANCE = walk model."""
    v = Verdict()
    g, lim, cen = rec["g"], rec["lim"], rec["cen"]
    cap = bool(rec.get("cap"))
    hits = [tuple(x) for x in rec["hits"]]
    model_app = [x[:3] for x in hits if x[3] == 1]
    srt = [tuple(x) for x in rec["srt"]]
    real = [p[1] for p in o.peaks]
    realset = set(real)
    # ---- which modelled algorithm does the trace follow?
    walk_trace_ok = (len(o.ds_calls) == rec["nvis"] and rolling_hash(o.ds_calls) == rec["vh"])
    if walk_trace_ok:
        v.algo = "walk"
    elif not cap and o.ds_calls == box_trace(rec["box"]):
        v.algo = "box"
    elif not cap and rec.get("boxtie") and any(
            o.ds_calls == box_trace([max(b + d, 0) for b, d in zip(rec["box"], dd)])
            for dd in itertools.product((0, -1, 1), repeat=3)):
        v.algo = "box"            # dsmax*a is an exact integer n: the float product truncates to n or n - 1
                                  # depending on the realisation (hkl with |h| = n lie ON the limit: out either way)
    else:
        v.algo = "other"
    if v.algo == "box":
        # ---- conformance with the box model (the proposed repair): absent() is asked for every
        # in-range hkl in lexicographic order, the list is those it lets through, sorted
        strict_in = [x for x in o.ds_calls if Q(g, x) < lim]
        want_abs = [(x, textbook_absent(rec["rule"], *x)) for x in strict_in]
        if o.absent_calls != want_abs:
            v.conf.append("box:absent-calls")
        want = sorted([x for x, a in want_abs if not a], key=lambda x: (Q(g, x), x))
        if sorted(real) != sorted(want):
            v.conf.append("box:list-set")
        elif real != want and ([Q(g, x) for x in real] != [Q(g, x) for x in want] or not o.pysorted):
            v.conf.append("box:list-order")
    else:
        _walk_conformance(v, rec, o, g, hits, model_app, srt, real, walk_trace_ok)
    if cap:
        return v                  # |hkl| < 200 is the docstring's assumption: conformance only
    # ---- the property (brute-force set from the specification: (walk model's list - extra) + miss)
    return _property(v, rec, o, scale, g, lim, cen, hits, model_app, real, realset)


def _walk_conformance(v, rec, o, g, hits, model_app, srt, real, walk_trace_ok):
    # ---- conformance with the walk model (only meaningful when the code is the walk)
    if not walk_trace_ok:
        v.conf.append("trace")
    if [a[0] for a in o.absent_calls] != [x[:3] for x in hits] or \
            [a[1] for a in o.absent_calls] != [x[3] == 0 for x in hits]:
        v.conf.append("absent-calls")
    if sorted(real) != sorted(model_app):
        v.conf.append("list-set")
    elif real != srt:
        # equal-Q entries may be ordered by the last bits of the float ds: accept iff that is all
        if [Q(g, x) for x in real] != [Q(g, x) for x in srt] or not o.pysorted:
            v.conf.append("list-order")


def _property(v, rec, o, scale, g, lim, cen, hits, model_app, real, realset):
    miss = set(tuple(x) for x in rec["miss"])
    extra = set(tuple(x) for x in rec["extra"])
    brute = (set(model_app) - extra) | miss
    v.brute = brute
    if realset != brute:
        v.missing = sorted(brute - realset)
        v.extra = sorted(realset - brute)
        if v.missing:
            v.prop.append("incomplete")
        if v.extra:
            v.prop.append("unsound")
    if len(real) != len(realset):
        v.prop.append("duplicates")
    qs = [Q(g, x) for x in real]
    if any(qs[i] > qs[i + 1] for i in range(len(qs) - 1)):
        v.prop.append("not-ascending")
    for (d, x), q in zip(o.peaks, qs):
        e = math.sqrt(float(Fr(q) / scale))
        if not close(d, e):
            v.prop.append("ds-value")
            break
        bl = float(np.sqrt(((o.B @ np.array(x, float)) ** 2).sum()))
        if not close(d, bl):
            v.prop.append("ds-vs-B")
            break
    if not o.raw_is_state:
        v.prop.append("state(unitcell.peaks)")
    if not o.cached_same:
        v.prop.append("second-call")
    # ---- explanation of a membership failure by the model
    if v.missing or v.extra:
        lost = set(tuple(x) for x in rec["lost"])
        hitset = set(x[:3] for x in hits)
        for x in v.missing + v.extra:
            if x in lost and x not in realset and not v.conf:
                v.cause.add("walk-loss")
            elif x in hitset and not v.conf and rec["rule"] != cen and \
                    textbook_absent(rec["rule"], *x) != textbook_absent(cen, *x):
                v.cause.add("centring-table")
            else:
                v.cause.add("unexplained")
    elif v.prop:
        v.cause.add("unexplained")
    return v


def tie_exact(rec, o, scale):
    """precondition of a TIE case: the code's reciprocal metric diagonal is the exact dyadic value"""
    g = rec["g"]
    for i in range(3):
        if o.gi[i, i] != float(Fr(g[i]) / scale):
            return False
    return True


# ------------------------------------------------------------------------------------------
# rings

class Unmappable(Exception):
    pass


def ring_table(uc):
    """project the real ring table on list positions: rs (ring ds), rm (1-based positions)"""
    pos = {}
    for i, p in enumerate(uc.peaks):
        hkl = tuple(int(x) for x in p[1])
        if hkl in pos:
            raise Unmappable("hkl %s listed twice" % (hkl,))
        pos[hkl] = i + 1
    rs, rm = [], []
    for d in uc.ringds:
        rs.append(float(d))
        try:
            rm.append([pos[tuple(int(x) for x in h)] for h in uc.ringhkls[d]])
        except KeyError as e:
            raise Unmappable("ring member %s is not in the list" % (e,))
    if len(uc.ringhkls) != len(uc.ringds):
        raise Unmappable("ringhkls has %d keys for %d rings" % (len(uc.ringhkls), len(uc.ringds)))
    return rs, rm


def q7(x):
    return int(round(float(x) * QUANT))


def margins_ok(ds, tol, gds=None, rs=None):
    """every pairwise comparison a grouping rule could make is decided by more than MARGIN"""
    d = np.asarray(ds, float)
    if len(d) > 1:
        diff = np.abs(d[:, None] - d[None, :])
        if (np.abs(diff - tol) < MARGIN).any():
            return False
    if gds is not None and len(gds):
        gg = np.asarray(gds, float)
        r = np.asarray(rs, float)
        e = np.abs(gg[:, None] - r[None, :])
        if (np.abs(e - tol) < MARGIN).any():
            return False
        for row in e:
            c = np.sort(row[row < tol])
            if len(c) > 1 and (np.diff(c) < MARGIN).any():
                return False
    return True


def ring_trace(uc, tol, tid, route, gds=None, ra=None):
    rs, rm = ring_table(uc)
    return {"tid": tid, "route": route, "tol": q7(tol),
            "ds": [q7(p[0]) for p in uc.peaks],
            "rs": [q7(x) for x in rs], "rm": rm,
            "gds": [q7(x) for x in (gds if gds is not None else [])],
            "ra": [int(x) for x in (ra if ra is not None else [])]}


def judge_rings_exact(g, scale, uc, tol):
    """mode A: tol is below every gap between distinct exact d-stars, so rings = shells of equal Q
    of the list the code produced (the ring clause is relative to *this* list)"""
    fails = []
    peaks = uc.peaks
    shells = []
    for p in peaks:
        x = tuple(int(y) for y in p[1])
        q = Q(g, x)
        if shells and shells[-1][0] == q:
            shells[-1][1].append(x)
        else:
            shells.append([q, [x]])
    if len(set(s[0] for s in shells)) != len(shells):
        fails.append("list not grouped by Q")
    if len(uc.ringds) != len(shells):
        fails.append("ring count %d != %d shells" % (len(uc.ringds), len(shells)))
        return fails
    for d, (q, members) in zip(uc.ringds, shells):
        if not close(d, math.sqrt(float(Fr(q) / scale))):
            fails.append("ringds value")
            break
        got = [tuple(int(y) for y in h) for h in uc.ringhkls.get(d, [])]
        if got != members:
            fails.append("ringhkls members")
            break
    if any(uc.ringds[i] >= uc.ringds[i + 1] for i in range(len(uc.ringds) - 1)):
        fails.append("ringds not ascending")
    return fails


def exact_gap(g, scale, lim):
    """smallest gap between distinct d-stars sqrt(q/scale), q = 1..lim"""
    v = [math.sqrt(float(Fr(q) / scale)) for q in range(1, lim + 1)]
    return min(b - a for a, b in zip(v[:-1], v[1:])) if len(v) > 1 else v[0]


def random_cell(rng, kind):
    """seeded cell inside the property's domain: a,b,c in [2,30], angles in [55,125]"""
    while True:
        if kind == "pseudo":          # nearly cubic / tetragonal / hexagonal: chains of close d-stars
            a = rng.uniform(3, 9)
            e = [a * (1 + rng.uniform(-0.01, 0.01)) for _ in range(3)]
            base = rng.choice([90.0, 90.0, 120.0])
            an = [90 + rng.uniform(-0.5, 0.5), 90 + rng.uniform(-0.5, 0.5), base + rng.uniform(-0.5, 0.5)]
        elif kind == "ortho":
            e = [rng.uniform(2, 12) for _ in range(3)]
            an = [90.0, 90.0, rng.choice([90.0, 120.0])]
            if an[2] == 120.0:
                e[1] = e[0]
        else:
            e = [rng.uniform(2, 12) for _ in range(3)]
            an = [rng.uniform(55, 125) for _ in range(3)]
        ca, cb, cg = [math.cos(math.radians(x)) for x in an]
        vol2 = 1 - ca * ca - cb * cb - cg * cg + 2 * ca * cb * cg
        if vol2 > 0.05:
            return tuple(e) + tuple(an), e[0] * e[1] * e[2] * math.sqrt(vol2)


# ------------------------------------------------------------------------------------------
# BIG instances (candidate boxes of 1e5 .. 2e6 hkl): vectorised, exact, independent of the code

HP = 1000003


def textbook_absent_np(cen, H, K, L):
    """textbook_absent on integer arrays (written from the same table of the International Tables)"""
    if cen == "P":
        return np.zeros(np.broadcast(H, K, L).shape, bool)
    if cen == "A":
        return (K + L) % 2 != 0
    if cen == "B":
        return (H + L) % 2 != 0
    if cen == "C":
        return (H + K) % 2 != 0
    if cen == "I":
        return (H + K + L) % 2 != 0
    if cen == "F":
        return ~(((H % 2) == (K % 2)) & ((K % 2) == (L % 2)))
    if cen == "R":
        return (-H + K + L) % 3 != 0
    raise ValueError(cen)


def q_np(g, hkl):
    h, k, l = hkl[:, 0], hkl[:, 1], hkl[:, 2]
    return g[0] * h * h + g[1] * k * k + g[2] * l * l + 2 * g[3] * k * l + 2 * g[4] * h * l + 2 * g[5] * h * k


def code_np(hkl):
    """injective code of an hkl with |h|,|k|,|l| < 256"""
    return ((hkl[:, 0] + 256) * 512 + (hkl[:, 1] + 256)) * 512 + (hkl[:, 2] + 256)


class Brute(object):
    """every non-zero hkl with Q < lim the centring allows: hkl (n,3) int64, q (n,), sorted codes"""
    def __init__(self, g, lim, cen):
        m = mat(g)
        d = det3(m)
        a = adj3(m)
        # Cauchy-Schwarz: x_i^2 <= Q(x) (G^-1)_ii < lim a_ii / d ; two more on every side
        b = [int(math.isqrt((lim * a[i][i]) // d)) + 2 for i in range(3)]
        H = np.arange(-b[0], b[0] + 1, dtype=np.int64)[:, None, None]
        K = np.arange(-b[1], b[1] + 1, dtype=np.int64)[None, :, None]
        Lz = np.arange(-b[2], b[2] + 1, dtype=np.int64)[None, None, :]
        q = g[0] * H * H + g[1] * K * K + g[2] * Lz * Lz + 2 * g[3] * K * Lz + 2 * g[4] * H * Lz + 2 * g[5] * H * K
        sel = q < lim
        sel[b[0], b[1], b[2]] = False                     # (0,0,0) is not a reflection
        if sel[0].any() or sel[-1].any() or sel[:, 0].any() or sel[:, -1].any() or sel[:, :, 0].any() or sel[:, :, -1].any():
            raise AssertionError("brute force box too small")
        sel &= ~textbook_absent_np(cen, H, K, Lz)
        i, j, k = np.nonzero(sel)
        self.hkl = np.stack([i - b[0], j - b[1], k - b[2]], axis=1).astype(np.int64)
        self.q = q[sel]
        self.codes = np.sort(code_np(self.hkl))
        self.g, self.lim, self.cen = list(g), lim, cen

    def below(self, lim2):
        """the same set for a smaller limit"""
        o = object.__new__(Brute)
        keep = self.q < lim2
        o.hkl, o.q = self.hkl[keep], self.q[keep]
        o.codes = np.sort(code_np(o.hkl))
        o.g, o.lim, o.cen = self.g, lim2, self.cen
        return o

    def summary(self):
        """the numbers HklWalk.tla emits for a BIG instance (EmitBig)"""
        h = self.hkl
        code = ((h[:, 0] + HMAX) * (2 * HMAX + 1) + (h[:, 1] + HMAX)) * (2 * HMAX + 1) + (h[:, 2] + HMAX)
        return {"nb": int(len(h)), "hq": int(self.q.sum() % HP), "hc": int((code % HP).sum() % HP),
                "nsh": int(len(np.unique(self.q)))}


def list_arrays(peaks):
    n = len(peaks)
    hkl = np.array([p[1] for p in peaks], dtype=np.int64).reshape(n, 3)
    ds = np.array([p[0] for p in peaks], dtype=float).reshape(n)
    return hkl, ds


def hkls_of(codes, limit=6):
    out = []
    for c in codes[:limit].tolist():
        out.append((c // (512 * 512) - 256, (c // 512) % 512 - 256, c % 512 - 256))
    return out


def judge_list_np(brute, peaks, Bmat, scale):
    """the list clauses of the property on a (big) list; returns (failed clauses, detail dict)"""
    fails, det = [], {}
    hkl, ds = list_arrays(peaks)
    if len(hkl) and np.abs(hkl).max() >= 256:
        return ["unsound"], {"extra": "an index beyond 255"}
    codes = code_np(hkl)
    u = np.unique(codes)
    miss = np.setdiff1d(brute.codes, u, assume_unique=True)
    extra = np.setdiff1d(u, brute.codes, assume_unique=True)
    if len(miss):
        fails.append("incomplete")
        det["missing"] = hkls_of(miss)
        det["n_missing"] = int(len(miss))
    if len(extra):
        fails.append("unsound")
        det["extra"] = hkls_of(extra)
        det["n_extra"] = int(len(extra))
    if len(u) != len(codes):
        fails.append("duplicates")
    q = q_np(brute.g, hkl)
    if (np.diff(q) < 0).any():
        fails.append("not-ascending")
    e = np.sqrt(q / float(scale))
    if (np.abs(ds - e) > 1e-9 * e + 1e-12).any():
        fails.append("ds-value")
    bl = np.sqrt(((hkl.astype(float) @ np.asarray(Bmat, float).T) ** 2).sum(axis=1))
    if (np.abs(ds - bl) > 1e-9 * bl + 1e-12).any():
        fails.append("ds-vs-B")
    det["n_real"], det["n_brute"] = int(len(codes)), int(len(brute.codes))
    return fails, det


def ring_starts(uc):
    """list positions at which the rings of the real table start, when the table is a partition of
    uc.peaks into consecutive runs labelled by their first member (else: the failed clause)"""
    peaks = uc.peaks
    if len(uc.ringhkls) != len(uc.ringds):
        return None, "prop:ringds-count"
    pos, starts = 0, []
    for d in uc.ringds:
        mem = uc.ringhkls.get(d)
        if not mem:
            return None, "prop:nonempty"
        m = len(mem)
        if [tuple(x) for x in mem] != [tuple(p[1]) for p in peaks[pos:pos + m]]:
            return None, "prop:runs"
        if d != peaks[pos][0]:
            return None, "prop:ringds-label"
        starts.append(pos)
        pos += m
    if pos != len(peaks):
        return None, "prop:cover"
    return np.array(starts, dtype=np.int64), None


def judge_rings_np(uc, tol, q=None, scale=None):
    """linear-time judgement of a ring table on a long list: the stated partition property, the
    grouping rule of TraceRings.tla (a ring lasts while ds - ds(ring start) < tol), and - when q is
    given (tol below every gap between distinct exact d-stars) - rings = shells of equal Q."""
    starts, why = ring_starts(uc)
    if why:
        return [why], None
    fails = []
    ds = np.array([p[0] for p in uc.peaks], float)
    n = len(ds)
    if (np.diff(ds) < 0).any():
        fails.append("prop:sorted")
    isstart = np.zeros(n, bool)
    isstart[starts] = True
    d1 = np.abs(ds[1:] - ds[:-1])
    if (d1[~isstart[1:]] >= tol).any():
        fails.append("prop:gap")
    # the code's rule
    ring_of = np.cumsum(isstart) - 1
    s0 = ds[starts][ring_of]
    if (np.abs(ds - s0)[~isstart] >= tol).any() or \
            (len(starts) > 1 and (np.abs(ds[starts[1:]] - ds[starts[:-1]]) < tol).any()):
        fails.append("conf:table")
    if q is not None:
        want = np.concatenate([[0], np.flatnonzero(np.diff(q) != 0) + 1])
        if len(want) != len(starts) or (want != starts).any():
            fails.append("rings are not the shells of equal Q")
        else:
            e = np.sqrt(q[starts] / float(scale))
            if (np.abs(ds[starts] - e) > 1e-9 * e + 1e-12).any():
                fails.append("ringds value")
    return fails, starts


def ring_windows(uc, starts, tol, tid0, route, maxlen=90, want=3):
    """traces for TraceRings of windows of consecutive rings (the grouping rule restarts at every
    ring start, so a run of whole rings is a trace of its own); only windows in which no comparison
    lies within the quantisation margin"""
    ds = [p[0] for p in uc.peaks]
    n, nr = len(ds), len(starts)
    ends = list(starts[1:]) + [n]
    out, tried = [], 0
    anchors = [0, nr // 2, nr - 1, nr // 3, (2 * nr) // 3, nr // 5]
    for a in anchors:
        if len(out) >= want:
            break
        for shift in range(0, 40, 5):
            j1 = min(nr - 1, a + shift) if a < nr - 1 else max(0, nr - 1 - shift)
            j0 = j1
            while j0 > 0 and ends[j1] - starts[j0 - 1] <= maxlen:
                j0 -= 1
            while j1 < nr - 1 and ends[j1 + 1] - starts[j0] <= maxlen:
                j1 += 1
            p0, p1 = int(starts[j0]), int(ends[j1])
            if p1 - p0 > 4 * maxlen:
                continue
            w = ds[p0:p1]
            tried += 1
            if not margins_ok(w, tol):
                continue
            rm = [list(range(int(starts[j]) - p0 + 1, int(ends[j]) - p0 + 1)) for j in range(j0, j1 + 1)]
            out.append({"tid": tid0 + len(out), "route": route, "tol": q7(tol), "ds": [q7(x) for x in w],
                        "rs": [q7(ds[int(starts[j])]) for j in range(j0, j1 + 1)], "rm": rm, "gds": [], "ra": [],
                        "window": [j0, j1]})
            break
    return out


# ------------------------------------------------------------------------------------------
# float cells judged against the harness' own metric (near-degenerate cells at every scale)

def exact_gi(cell):
    """reciprocal metric tensor of a float cell: direct metric from the six parameters, inverse by
    the adjugate (plain double precision arithmetic, no numpy.linalg, nothing of the code under test);
    relative accuracy ~1e-13 on the property's domain"""
    a, b, c = [float(x) for x in cell[:3]]
    ca, cb, cg = [0.0 if x == 90.0 else math.cos(math.radians(x)) for x in cell[3:]]
    m = [[a * a, a * b * cg, a * c * cb], [a * b * cg, b * b, b * c * ca], [a * c * cb, b * c * ca, c * c]]
    d = det3(m)
    ad = adj3(m)
    return np.array([[ad[i][j] / d for j in range(3)] for i in range(3)], float)


def near_cells(rng, n):
    """seeded NEAR-DEGENERATE cells inside the property's domain, at every scale: angles a hair off 90 / 120
    degrees (1e-4 .. 0.05 deg), edges a hair off each other (1e-6 .. 1e-3 relative), longest edge 20 .. 30 A
    (three in five), 8 .. 15 A, 3 .. 6 A; exactly degenerate controls.  Yields (kind, cell)."""
    kinds = ["orth-near", "hex-near", "mono-near", "cubic-near", "tetr-near", "orth-near", "rhomb-near", "exact"]
    for i in range(n):
        kind = kinds[i % len(kinds)]
        top = (rng.uniform(20, 30), rng.uniform(24, 30), 30.0, rng.uniform(8, 15), rng.uniform(3, 6))[(i // len(kinds)) % 5]

        def hair():
            m = 10 ** rng.uniform(-4, -1.3) if rng.random() < 0.5 else rng.uniform(0.01, 0.05)
            return m if rng.random() < 0.5 else -m

        def split():
            return 1.0 + rng.choice((-1, 1)) * 10 ** rng.uniform(-6, -3)
        e = [top * rng.uniform(0.62, 1.0) for _ in range(3)]
        e[rng.randrange(3)] = top
        an = [90.0, 90.0, 90.0]
        if kind == "orth-near":
            for j in rng.sample(range(3), rng.choice((1, 2, 3, 3))):
                an[j] += hair()
        elif kind == "mono-near":
            an[1] += hair()
        elif kind == "hex-near":
            e[1] = e[0] * (split() if rng.random() < 0.7 else 1.0)
            an[2] = 120.0 + hair()
            if rng.random() < 0.5:
                an[rng.randrange(2)] += hair()
        elif kind == "cubic-near":
            e = [top, top * split(), top * split()]
            an = [90.0 + hair() * rng.choice((0, 1, 1)) for _ in range(3)]
        elif kind == "tetr-near":
            e[1] = e[0] * split()
        elif kind == "rhomb-near":
            al = rng.choice((60.0, 90.0, 109.47, 70.5))
            e = [top, top * split(), top * split()]
            an = [al + hair(), al + hair(), al + hair()]
        else:                        # exactly degenerate controls at the same scales
            an[2] = rng.choice((90.0, 90.0, 120.0))
            if an[2] == 120.0:
                e[1] = e[0]
        e = [min(30.0, max(2.0, x)) for x in e]
        yield kind, tuple(e) + tuple(an)


def judge_float_list(cell, cen, dsmax, peaks, Bmat, rel=1e-9):
    """the list clauses of the property for a FLOAT cell, against the harness' own metric (exact_gi) at a
    tolerance RELATIVE to d-star; membership is judged outside a relative margin of the limit.
    returns (failed clauses, detail dict)"""
    gi = exact_gi(cell)
    nb = [int(dsmax * (1 + rel) * float(x)) + 1 for x in cell[:3]]
    H = np.arange(-nb[0], nb[0] + 1, dtype=np.int64)[:, None, None]
    K = np.arange(-nb[1], nb[1] + 1, dtype=np.int64)[None, :, None]
    Lz = np.arange(-nb[2], nb[2] + 1, dtype=np.int64)[None, None, :]
    q = (gi[0, 0] * H * H + gi[1, 1] * K * K + gi[2, 2] * Lz * Lz
         + 2 * gi[1, 2] * K * Lz + 2 * gi[0, 2] * H * Lz + 2 * gi[0, 1] * H * K)
    ok = ~textbook_absent_np(cen, H, K, Lz) & ~((H == 0) & (K == 0) & (Lz == 0))
    e = np.sqrt(np.maximum(q, 0.0))

    def codes_of(sel):
        i, j, k = np.nonzero(sel)
        return np.sort(code_np(np.stack([i - nb[0], j - nb[1], k - nb[2]], axis=1).astype(np.int64)))
    must = codes_of(ok & (e < dsmax * (1 - rel)))
    may = codes_of(ok & (e < dsmax * (1 + rel)))
    fails, det = [], {"n_real": len(peaks), "n_must": int(len(must))}
    hkl, ds = list_arrays(peaks)
    if len(hkl) and np.abs(hkl).max() >= 256:
        return ["unsound"], {"extra": "an index beyond 255"}
    codes = code_np(hkl) if len(hkl) else np.zeros(0, np.int64)
    u = np.unique(codes)
    miss = np.setdiff1d(must, u, assume_unique=True)
    extra = np.setdiff1d(u, may, assume_unique=True)
    if len(miss):
        fails.append("incomplete")
        det["missing"], det["n_missing"] = hkls_of(miss), int(len(miss))
    if len(extra):
        fails.append("unsound")
        det["extra"], det["n_extra"] = hkls_of(extra), int(len(extra))
    if len(u) != len(codes):
        fails.append("duplicates")
    if len(hkl):
        hf = hkl.astype(float)
        ex = np.sqrt(np.einsum("ij,jk,ik->i", hf, gi, hf))
        if (np.diff(ds) < 0).any() or (ex[1:] < ex[:-1] * (1 - 2 * rel)).any():
            fails.append("not-ascending")
        err = np.abs(ds - ex) / ex
        if (err > rel).any():
            fails.append("ds-value")
            j = int(np.argmax(err))
            det["ds"] = "listed d*(%s) = %r, |B.hkl| from the cell parameters = %r (relative error %.3g)" % (
                tuple(int(x) for x in hkl[j]), float(ds[j]), float(ex[j]), float(err[j]))
        bl = np.sqrt(((hf @ np.asarray(Bmat, float).T) ** 2).sum(axis=1))
        if (np.abs(ds - bl) > rel * bl).any():
            fails.append("ds-vs-B")
        det["ex"] = ex
    return fails, det


# ------------------------------------------------------------------------------------------
# object histories (specs/HklObject.tla): injection into a running public call

class Injected(Exception):
    """the exception the harness delivers inside a public call of the object under test"""


def profiled(fn, body, n, action):
    """run fn() and count the calls made BY the function named `body` of unitcell.py (python calls such
    as self.ds / self.absent and C calls such as append / sort / abs: the points where a signal handler
    can run); at the n-th one `action()` is executed (it may raise: the exception then comes out of that
    call, or call into the object again: a re-entrant request).  The call of gethkls made by makerings
    is not a point of body "makerings".  returns (result of fn, number of calls counted, fired)"""
    import sys
    cnt, fired = [0], [False]

    def prof(frame, event, arg):
        if event == "call":
            fr = frame.f_back
            if body == "makerings" and frame.f_code.co_name == "gethkls":
                return
        elif event == "c_call":
            fr = frame
        else:
            return
        if fr is None or fr.f_code.co_name != body or not fr.f_code.co_filename.endswith("unitcell.py"):
            return
        cnt[0] += 1
        if cnt[0] == n:
            fired[0] = True
            action()
    old = sys.getprofile()
    sys.setprofile(prof)
    try:
        r = fn()
    finally:
        sys.setprofile(old)
    return r, cnt[0], fired[0]

"""C12 - the SIZE family: frames that carry tens of thousands of blobs (>= 16384 and >= 32768 labels on one
frame: isolated pixels, rows of teeth joined by a bar, checkerboards, dense noise with and without NaN pixels on
258x258 .. 700x700), two or three frames with merges between them, driven through labelimage.peaksearch / mergelast / finalise.

The per-call transcription of Merge3D.tla (harness/c12_model.py) is pure Python and far too slow at this size, and
the specification states the 2-D labelling declaratively, so its constants cannot reach the label tables of
connectedpixels (blobs.c dset_new doubles its table at 16384, 32768, ... provisional labels).  The family is
therefore judged by the PROPERTY alone, vectorised and independent of the code under test:

  * components of the stacked volume by scipy.ndimage.label (8-connected in a frame, same pixel on adjacent
    frames) over the voxels  isfinite(v) & (v > float32(threshold));
  * after every peaksearch: npk = number of 2-D components of the frame, blim is exactly that partition
    (labels 1..npk, all used), the rows of `res` hold all pixels and all intensity of the frame;
  * after finalise: number of peaks = number of 3-D components, total pixels and total intensity conserved,
    the multiset of rows (n, I, I^2, fI, ffI, sI, ssI, sfI, oI, ooI, soI, foI, max I, bounding box) equals the
    multiset of component rows, every peak's maximum position is a voxel of the component with that row
    carrying that intensity; the merged text has one line per component.

Pixel values are small integers and omega is a multiple of 1/4: every sum is exact in a double.
"""
from __future__ import print_function
import io
import numpy as np
from scipy import ndimage

import c12_model as M

ST3 = np.zeros((3, 3, 3), int)
ST3[1] = 1
ST3[0, 1, 1] = ST3[2, 1, 1] = 1
ST2 = np.ones((3, 3), int)
# columns of the comparison, in c12_model order (the max position is judged separately)
CORE = [M.N_, M.I_, M.I2_, M.FI_, M.FFI_, M.SI_, M.SSI_, M.SFI_, M.OI_, M.OOI_, M.SOI_, M.FOI_,
        M.MXI_, M.BXF_, M.BXS_, M.BXO_, M.BNF_, M.BNS_, M.BNO_]
CORE_NAMES = [M.FIELDS[k] for k in CORE]


def mask_of(vol, thr):
    with np.errstate(invalid="ignore"):
        return np.isfinite(vol) & (vol > np.float32(thr))


def component_rows(vol, omegas, thr):
    """(rows (n, 19) float64 in CORE order, lab) of the 3-D components of the stacked volume"""
    vol = np.asarray(vol, np.float32).astype(np.float64)
    mask = mask_of(vol, thr)
    lab, n = ndimage.label(mask, structure=ST3)
    if n == 0:
        return np.zeros((0, len(CORE))), lab
    o, s, f = np.nonzero(mask)
    l = lab[o, s, f] - 1
    v = vol[o, s, f]
    om = np.asarray(omegas, float)[o]
    s = s.astype(float)
    f = f.astype(float)

    def bc(w):
        return np.bincount(l, weights=w, minlength=n)
    cols = [bc(np.ones(len(l))), bc(v), bc(v * v), bc(f * v), bc(f * f * v), bc(s * v), bc(s * s * v),
            bc(s * f * v), bc(om * v), bc(om * om * v), bc(s * om * v), bc(f * om * v)]
    order = np.argsort(l, kind="stable")
    starts = np.searchsorted(l[order], np.arange(n))

    def mx(a):
        return np.maximum.reduceat(a[order], starts)

    def mn(a):
        return np.minimum.reduceat(a[order], starts)
    cols += [mx(v), mx(f), mx(s), mx(om), mn(f), mn(s), mn(om)]
    return np.array(cols).T, lab


def judge(rows, vol, omegas, thr):
    """rows: (k, 22) array of emitted peaks in c12_model column order.  None / description"""
    rows = np.asarray(rows, float).reshape(-1, M.NROW)
    exp, lab = component_rows(vol, omegas, thr)
    volf = np.asarray(vol, np.float32).astype(np.float64)
    mask = lab > 0
    if len(rows) != len(exp):
        return "number of emitted peaks %d != number of 3-D components %d" % (len(rows), len(exp))
    if not np.all(np.isfinite(rows)):
        return "%d emitted peaks carry non-finite sums" % int((~np.isfinite(rows)).any(axis=1).sum())
    if rows[:, M.N_].sum() != mask.sum():
        return "total pixels of the peaks %d != voxels above threshold %d" % (rows[:, M.N_].sum(), mask.sum())
    if rows[:, M.I_].sum() != volf[mask].sum():
        return "total intensity of the peaks %r != intensity above threshold %r" % (rows[:, M.I_].sum(), volf[mask].sum())
    if len(exp) == 0:
        return None
    got = rows[:, CORE]
    ig = np.lexsort(got.T[::-1])
    ie = np.lexsort(exp.T[::-1])
    if not np.array_equal(got[ig], exp[ie]):
        j = int(np.nonzero((got[ig] != exp[ie]).any(axis=1))[0][0])
        return "peaks and 3-D components are not in one-to-one correspondence: first difference (sorted rows) peak %r, " \
               "component %r (columns %s)" % (got[ig][j].tolist(), exp[ie][j].tolist(), " ".join(CORE_NAMES))
    # the maximum position names a voxel of a component with this row that carries the maximum
    om = np.asarray(omegas, float)
    if len(set(om.tolist())) != len(om):
        raise ValueError("the size family wants distinct omegas")
    srt = np.argsort(om)
    k = srt[np.clip(np.searchsorted(om[srt], rows[:, M.MXO_]), 0, len(om) - 1)]
    s = rows[:, M.MXS_].astype(int)
    f = rows[:, M.MXF_].astype(int)
    ok = (om[k] == rows[:, M.MXO_]) & (s == rows[:, M.MXS_]) & (f == rows[:, M.MXF_]) & \
        (s >= 0) & (s < vol.shape[1]) & (f >= 0) & (f < vol.shape[2])
    if not ok.all():
        j = int(np.nonzero(~ok)[0][0])
        return "peak %r: maximum position is not a voxel of the series" % (rows[j].tolist(),)
    c = lab[k, s, f]
    ok = (c > 0) & (volf[k, s, f] == rows[:, M.MXI_])
    if ok.all():
        ok = (exp[c - 1] == got).all(axis=1)
    if not ok.all():
        j = int(np.nonzero(~ok)[0][0])
        return "peak %r: maximum position is not a maximal voxel of its component" % (rows[j].tolist(),)
    return None


def judge_frame(R, li, frame, thr, k):
    """state of the labelimage object after peaksearch of one frame"""
    m2 = mask_of(np.asarray(frame, np.float32).astype(np.float64), thr)
    lab2, n2 = ndimage.label(m2, structure=ST2)
    if int(li.npk) != n2:
        return "frame %d after peaksearch: npk = %d, the frame has %d 8-connected blobs" % (k, int(li.npk), n2)
    bl = np.asarray(li.blim)
    if not np.array_equal(bl > 0, m2):
        return "frame %d after peaksearch: %d pixels labelled, %d above threshold" % (k, int((bl > 0).sum()), int(m2.sum()))
    if n2:
        a, b = bl[m2].astype(np.int64), lab2[m2].astype(np.int64)
        if a.min() < 1 or a.max() > n2:
            return "frame %d after peaksearch: labels outside 1..npk (max %d, npk %d)" % (k, int(a.max()), n2)
        pairs = np.unique(a * (n2 + 1) + b)
        if len(pairs) != n2 or len(np.unique(a)) != n2:
            return "frame %d after peaksearch: blim is not the partition into 8-connected blobs (%d label pairs, %d blobs)" % (
                k, len(pairs), n2)
        res = np.asarray(li.res)
        if res.shape[0] != n2:
            return "frame %d after peaksearch: res has %d rows, npk %d" % (k, res.shape[0], n2)
        fr = np.asarray(frame, np.float32).astype(np.float64)
        if res[:, R.c.s_1].sum() != m2.sum() or res[:, R.c.s_I].sum() != fr[m2].sum():
            return "frame %d after peaksearch: res holds %r pixels / intensity %r, the frame %d / %r" % (
                k, res[:, R.c.s_1].sum(), res[:, R.c.s_I].sum(), int(m2.sum()), fr[m2].sum())
        if not np.array_equal(res[:, R.c.s_1], np.bincount(a, minlength=n2 + 1)[1:]):
            return "frame %d after peaksearch: res[:, s_1] is not the pixel count of each label" % k
    return None


def drive(R, case):
    """one series through a real labelimage; None / first divergence; case gets 'npks' (per frame) and 'ncomp'"""
    vol, omegas, thr = case["vol"], case["omegas"], case["thr"]
    out = io.StringIO()
    li = R.labelimage.labelimage(vol.shape[1:], fileout=out, sptfile=io.StringIO())
    captured = []
    orig = li.outputpeaks

    def capture(peaks):
        captured.append(np.array(peaks, copy=True))
        return orig(peaks)
    li.outputpeaks = capture
    case["npks"] = []
    for k in range(len(vol)):
        li.peaksearch(np.asarray(vol[k], dtype=case.get("dtype", "float32")), thr, float(omegas[k]))
        case["npks"].append(int(li.npk))
        msg = judge_frame(R, li, vol[k], thr, k)
        if msg:
            return msg
        li.mergelast()
    li.finalise()
    rows = [a[a[:, R.c.s_1] >= 0.1][:, R.cols] for a in captured]
    rows = np.concatenate(rows) if rows else np.zeros((0, M.NROW))
    case["ncomp"] = len(rows)
    msg = judge(rows, vol, omegas, thr)
    if msg:
        return msg
    lines = [l for l in out.getvalue().splitlines() if l and not l.startswith("#")]
    if len(lines) != len(rows):
        return "merged file has %d lines, %d peaks were handed to outputpeaks" % (len(lines), len(rows))
    ncol = R.tcol["Number_of_pixels"]
    if sum(int(float(l.split()[ncol])) for l in lines) != int(rows[:, M.N_].sum()):
        return "merged file: Number_of_pixels does not add up to the voxels above threshold"
    ids = [int(l.split()[R.tcol["spot3d_id"]]) for l in (lines[0], lines[-1])] if lines else [0, -1]
    if lines and ids != [0, len(lines) - 1]:
        return "merged file: spot3d_id runs %r, expected 0..%d" % (ids, len(lines) - 1)
    return None


# ------------------------------------------------------------------------------------------------
# the instance family

def _vals(rng, shape, lo=20, hi=2000):
    return rng.randint(lo, hi, size=shape).astype(np.float32)


def isolated(rng, n, nfr, thr=10.0):
    """every second row / column: (n/2)^2 one-pixel blobs on frame 0; frame 1 keeps a random half of them (each
    merges with the pixel below it in omega) and, where both neighbours went, nothing; frame 2 is the grid moved by
    (1, 1): no voxel touches frame 1's through the same pixel"""
    vol = np.zeros((nfr, n, n), np.float32)
    vol[0, ::2, ::2] = _vals(rng, (n // 2, n // 2))
    if nfr > 1:
        keep = rng.rand(n // 2, n // 2) < 0.5
        vol[1, ::2, ::2] = np.where(keep, _vals(rng, (n // 2, n // 2)), rng.randint(0, 10, size=keep.shape))
    if nfr > 2:
        vol[2, 1::2, 1::2] = _vals(rng, (n // 2, n // 2))
    return {"name": "isolated pixels %dx%d x %d frames" % (n, n, nfr), "vol": vol, "thr": thr,
            "omegas": [10.0 + 0.25 * k for k in range(nfr)]}


def teeth(rng, n, nfr, thr=5.0):
    """rows 3i: one-pixel teeth at the even columns (a new provisional label each), rows 3i+1: a bar with a few
    gaps that joins them: (n/3)*(n/2) provisional labels end in a few hundred blobs"""
    vol = np.zeros((nfr, n, n), np.float32)
    for k in range(nfr):
        v = _vals(rng, (n, n), 6, 500)
        m = np.zeros((n, n), bool)
        m[0::3, (k % 2)::2] = True
        bar = rng.rand(n, n) > 0.01
        m[1::3] = bar[1::3]
        drop = rng.rand(n) < 0.1              # some bars are missing: their teeth stay one-pixel blobs
        m[1::3][drop[1::3]] = False
        vol[k] = np.where(m, v, 0)
    return {"name": "teeth and bars %dx%d x %d frames" % (n, n, nfr), "vol": vol, "thr": thr,
            "omegas": [-1.0 + 0.5 * k for k in range(nfr)]}


def checker(rng, n, nfr, thr=0.0):
    """checkerboards: one blob per frame; odd frames carry the other colour (no common pixel: nothing merges),
    the last frame repeats the colour before it (everything merges)"""
    vol = np.zeros((nfr, n, n), np.float32)
    ii, jj = np.indices((n, n))
    for k in range(nfr):
        colour = k % 2 if k < nfr - 1 or nfr < 3 else (k - 1) % 2
        vol[k] = np.where((ii + jj) % 2 == colour, _vals(rng, (n, n), 1, 50), 0)
    return {"name": "checkerboards %dx%d x %d frames" % (n, n, nfr), "vol": vol, "thr": thr,
            "omegas": [0.25 * k for k in range(nfr)], "dtype": "uint16"}


def noise(rng, n, nfr, dens, thr=3.0):
    vol = np.where(rng.rand(nfr, n, n) < dens, _vals(rng, (nfr, n, n), 4, 4000), rng.randint(0, 4, size=(nfr, n, n)))
    return {"name": "noise %dx%d density %.2f x %d frames" % (n, n, dens, nfr), "vol": vol.astype(np.float32),
            "thr": thr, "omegas": [90.0 - 0.25 * k for k in range(nfr)], "dtype": "uint16"}


def nan_noise(rng, n, nfr, dens, thr=3.0):
    """noise with 2 % not-a-number pixels (background by `NaN > t is false`) and a dead column"""
    c = noise(rng, n, nfr, dens, thr)
    vol = c["vol"]
    vol[rng.rand(*vol.shape) < 0.02] = np.nan
    vol[:, :, n // 3] = np.nan
    c.update(name="noise with NaN pixels %dx%d density %.2f x %d frames" % (n, n, dens, nfr), dtype="float32")
    return c


def cases(seed, tier):
    rng = np.random.RandomState(seed * 7 + 1212)
    out = [isolated(rng, 300, 3), isolated(rng, 400, 2), teeth(rng, 400, 2), checker(rng, 300, 3),
           noise(rng, 600, 2, 0.10), isolated(rng, 258, 3), isolated(rng, 364, 2), noise(rng, 400, 3, 0.30),
           nan_noise(rng, 300, 3, 0.15)]
    if tier != "quick":
        out += [isolated(rng, 600, 2), teeth(rng, 600, 3), noise(rng, 400, 3, 0.12), noise(rng, 700, 2, 0.30),
                isolated(rng, 514, 2), checker(rng, 401, 2)]
    return out

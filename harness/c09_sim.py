"""Forward simulation of 3DXRD peaks for C09 (independent of the code under test for the forward direction).

forward(sc, fc, omega, t, pars) implements the documented pipeline detector pixel -> lab -> k -> g in ~40 lines of
numpy written from the formulas (the same stages specs/Geometry.tla names: Place, Flip, Tilt, Shift, Origin, Diff,
RotateG).  Peaks are *generated* with the library's inverse (uncompute_g_vectors + compute_xyz_from_tth_eta), and every
generated peak is then pushed through forward(): it must give back UB.h to 1e-7 relative, otherwise the case is a
machinery error (the inverse is C02's subject, not C09's).
"""
import numpy as np


def rx(a):
    return np.array([[1, 0, 0], [0, np.cos(a), -np.sin(a)], [0, np.sin(a), np.cos(a)]])


def ry(a):
    return np.array([[np.cos(a), 0, np.sin(a)], [0, 1, 0], [-np.sin(a), 0, np.cos(a)]])


def rz(a):
    return np.array([[np.cos(a), -np.sin(a), 0], [np.sin(a), np.cos(a), 0], [0, 0, 1]])


def wedge_chi(p):
    w = np.radians(p["wedge"])
    c = np.radians(p["chi"])
    WI = np.array([[np.cos(w), 0, -np.sin(w)], [0, 1, 0], [np.sin(w), 0, np.cos(w)]])
    CI = np.array([[1, 0, 0], [0, np.cos(c), -np.sin(c)], [0, np.sin(c), np.cos(c)]])
    return WI @ CI


def lab_frame(sc, fc, omega, t, p):
    """d (n,3): peak position on the detector minus the origin of the grain (translation t rotated by the OBSERVED omega,
    wedge, chi), lab frame; WC: the wedge / chi matrix"""
    v0 = (np.asarray(sc, float) - p["z_center"]) * p["z_size"]
    v1 = (np.asarray(fc, float) - p["y_center"]) * p["y_size"]
    f0 = p["o11"] * v0 + p["o12"] * v1
    f1 = p["o21"] * v0 + p["o22"] * v1
    vec = np.array([np.zeros_like(f0), f1, f0])
    R = rx(p["tilt_x"]) @ ry(p["tilt_y"]) @ rz(p["tilt_z"])
    xyz = R @ vec
    xyz[0] += p["distance"]
    WC = wedge_chi(p)
    o = (omega_matrices(np.asarray(omega, float) * p["omegasign"]) @ np.asarray(t, float)) @ WC.T
    return xyz.T - o, WC


def omega_matrices(om_deg):
    """rz(om) for every peak at once (the per-peak loop of the first version, vectorised); om in degrees, any range"""
    oms = np.radians(np.asarray(om_deg, float))
    co, so = np.cos(oms), np.sin(oms)
    Om = np.zeros((len(oms), 3, 3))
    Om[:, 0, 0], Om[:, 0, 1], Om[:, 1, 0], Om[:, 1, 1], Om[:, 2, 2] = co, -so, so, co, 1.0
    return Om


def forward(sc, fc, omega, t, p, omega_rot=None):
    """g-vectors (n,3) from detector positions, observed omega (degrees) and grain translation t.  omega_rot: the
    rotation angle (degrees, sign already applied) that takes k back to the sample frame when it is not the observed one
    (omega floated: the grain origin still moves with the observed omega)"""
    d, WC = lab_frame(sc, fc, omega, t, p)
    k = (d / np.linalg.norm(d, axis=1)[:, None] - np.array([1.0, 0, 0])) / p["wavelength"]
    Om = omega_matrices(np.asarray(omega, float) * p["omegasign"] if omega_rot is None else omega_rot)
    return np.einsum("nji,nj->ni", Om, k @ WC)          # Om^T (WC^T k)


def tth_eta(sc, fc, omega, t, p):
    """two theta and eta (degrees) of every peak as seen from a grain at translation t: the scattered ray d makes the
    angle tth with the beam (x); eta is the azimuth of d around the beam, zero along +z, positive towards -y"""
    d, _ = lab_frame(sc, fc, omega, t, p)
    tth = np.degrees(np.arctan2(np.hypot(d[:, 1], d[:, 2]), d[:, 0]))
    eta = np.degrees(np.arctan2(-d[:, 1], d[:, 2]))
    return tth, eta


def bragg_omegas(g, p):
    """the two rotation angles (degrees, in (-360, 360)) at which the g-vectors g (n,3, sample frame) diffract:
    k = WC rz(om) g must have k_x = -lambda |g|^2 / 2, i.e. A cos(om) + B sin(om) = C.  Solved here from the formula,
    independent of transform.uncompute_g_vectors.  Also returns eta (degrees) of each solution; nan = never diffracts."""
    g = np.asarray(g, float)
    WC = wedge_chi(p)
    a, b, cc = WC[0]
    A = a * g[:, 0] + b * g[:, 1]
    B = b * g[:, 0] - a * g[:, 1]
    C = -0.5 * p["wavelength"] * (g * g).sum(axis=1) - cc * g[:, 2]
    r = np.hypot(A, B)
    with np.errstate(invalid="ignore", divide="ignore"):
        q = C / r
        q[np.abs(q) > 1] = np.nan
        base, half = np.degrees(np.arctan2(B, A)), np.degrees(np.arccos(q))
    out = []
    for om in (base + half, base - half):
        k = np.einsum("nij,nj->ni", omega_matrices(np.nan_to_num(om)), g) @ WC.T
        out.append((om, np.degrees(np.arctan2(-k[:, 1], k[:, 2]))))
    return out


def wrap180(x):
    """x modulo 360 into [-180, 180) (floor modulo: right for every sign of x)"""
    return np.mod(np.asarray(x, float) + 180.0, 360.0) - 180.0


def floated_omega(sc, fc, omega, hkl, ubi, t, p, slop):
    """what 'omega floated' means (refinegrains docstring / compute_gv): the rotation angle used for a peak is the angle
    at which the grain (ubi) puts its integer hkl on the Ewald sphere - the solution on the side of the detector the peak
    was seen on - when that is within slop (degrees, modulo a full turn) of the observed omega x omegasign, else the
    observed angle moved by slop towards it.  Returns (angle, judged): judged False where the two solutions cannot be
    told apart by eta (eta within 0.5 degree of 0 / 180) or the reflection does not diffract for this ubi."""
    g = np.asarray(hkl, float) @ np.linalg.inv(np.asarray(ubi, float)).T
    (om1, eta1), (om2, eta2) = bragg_omegas(g, p)
    _, eta_obs = tth_eta(sc, fc, omega, t, p)
    e1, e2 = np.abs(wrap180(eta1 - eta_obs)), np.abs(wrap180(eta2 - eta_obs))
    ideal = np.where(e1 <= e2, om1, om2)
    judged = np.isfinite(om1) & (np.minimum(e1, e2) < 0.5) & (np.maximum(e1, e2) > 1.0) & (np.abs(np.sin(np.radians(eta_obs))) > 0.01)
    obs = np.asarray(omega, float) * p["omegasign"]
    err = wrap180(obs - ideal)
    return obs - np.clip(err, -slop, slop), judged, err


def to_range(om, lo):
    """the same angles presented in the scan range [lo, lo + 360)"""
    return lo + np.mod(np.asarray(om, float) - lo, 360.0)


def hkl_errors(sc, fc, omega, ubi, t, p):
    """squared hkl error |ubi.g - round(ubi.g)|^2 of every peak for a grain (ubi, t): g from forward(), i.e.
    independent of cImageD11.compute_gv / score_and_assign"""
    h = forward(sc, fc, omega, t, p) @ np.asarray(ubi, float).T
    d = h - np.rint(h)
    return (d * d).sum(axis=1)


E_OUT = 99          # rank standing for "not within tolerance"


def owner_table(errs, tol, rel=1e-6):
    """errs (ngrains, npeaks) squared errors.  Per peak: dense rank of every grain's error among the errors inside the
    tolerance (E_OUT = outside), the expected owner (index of the strictly smallest error inside the tolerance, -1 = none)
    and `blur`: the order cannot be told apart from binary64 noise (an error within rel of tol^2, or two errors inside
    the tolerance within rel of each other) - such a peak is not judged in this pass."""
    errs = np.asarray(errs, float)
    ng, n = errs.shape
    tolsq = tol * tol
    inside = errs < tolsq
    blur = (np.abs(errs - tolsq) <= rel * tolsq).any(axis=0)
    ranks = np.full((ng, n), E_OUT, int)
    owner = np.full(n, -1, int)
    for k in np.nonzero(inside.any(axis=0))[0]:
        gs = np.nonzero(inside[:, k])[0]
        es = errs[gs, k]
        o = np.argsort(es, kind="stable")
        for r, j in enumerate(o):
            ranks[gs[j], k] = r
            if r > 0 and es[j] - es[o[r - 1]] <= rel * es[j] + 1e-12:
                blur[k] = True
        owner[k] = gs[o[0]]
    return ranks, owner, blur


def random_rotation(rng):
    q = rng.normal(size=4)
    q /= np.linalg.norm(q)
    a, b, c, d = q
    return np.array([[a * a + b * b - c * c - d * d, 2 * (b * c - a * d), 2 * (b * d + a * c)],
                     [2 * (b * c + a * d), a * a - b * b + c * c - d * d, 2 * (c * d - a * b)],
                     [2 * (b * d - a * c), 2 * (c * d + a * b), a * a - b * b - c * c + d * d]])


def small_rotation(rng, angle):
    ax = rng.normal(size=3)
    ax /= np.linalg.norm(ax)
    K = np.array([[0, -ax[2], ax[1]], [ax[2], 0, -ax[0]], [-ax[1], ax[0], 0]])
    return np.eye(3) + np.sin(angle) * K + (1 - np.cos(angle)) * K @ K


FLIPS = [(1, 0, 0, 1), (1, 0, 0, -1), (-1, 0, 0, 1), (-1, 0, 0, -1), (0, 1, 1, 0), (0, 1, -1, 0), (0, -1, 1, 0), (0, -1, -1, 0)]


def make_pars(rng, k):
    """geometry parameter set number k: cycles through flips, omegasign, tilts, wedge, chi on/off"""
    o11, o12, o21, o22 = FLIPS[k % 8]
    on = lambda bit: (k >> bit) & 1
    p = {"cell__a": 4.05, "cell__b": 4.05, "cell__c": 4.05, "cell_alpha": 90.0, "cell_beta": 90.0, "cell_gamma": 90.0,
         "cell_lattice_[P,A,B,C,I,F,R]": "F",
         "chi": (0.7 if on(3) else 0.0), "wedge": (-1.3 if on(4) else 0.0),
         "distance": 180000.0 + 20000.0 * (k % 3), "fit_tolerance": 0.05,
         "o11": o11, "o12": o12, "o21": o21, "o22": o22,
         "omegasign": (-1.0 if on(5) else 1.0),
         "t_x": 0.0, "t_y": 0.0, "t_z": 0.0,
         "tilt_x": (0.004 if on(0) else 0.0), "tilt_y": (-0.006 if on(1) else 0.0), "tilt_z": (0.005 if on(2) else 0.0),
         "wavelength": 0.2646, "y_center": 1020.0 + (k % 5), "y_size": 50.0, "z_center": 1030.0 - (k % 4), "z_size": 50.0}
    return p


def axis_rotation(ax, angle):
    ax = np.asarray(ax, float) / np.linalg.norm(ax)
    K = np.array([[0, -ax[2], ax[1]], [ax[2], 0, -ax[0]], [-ax[1], ax[0], 0]])
    return np.eye(3) + np.sin(angle) * K + (1 - np.cos(angle)) * K @ K


def relation(rng, kind):
    """crystal-frame misorientation M of a grain related to a parent (U_child = U_parent M) and its offset from the
    parent: 'subgrain' = 6..20 mrad about a random axis, 'twin' = fcc sigma-3 (60 degrees about a <111>) followed by
    3..12 mrad about a random axis (an exact twin at the same place ties exactly on a third of the reflections)"""
    ax = rng.normal(size=3)
    if kind == "twin":
        t111 = np.array([1.0, 1.0, 1.0]) * rng.choice([-1.0, 1.0], size=3)
        M = axis_rotation(t111, np.pi / 3) @ axis_rotation(ax, rng.uniform(0.003, 0.012))
    else:
        M = axis_rotation(ax, rng.uniform(0.006, 0.020))
    d = rng.normal(size=3)
    d *= rng.uniform(5.0, 80.0) / np.linalg.norm(d)
    return M, d


def simulate(rng, transform, unitcell_mod, pars, ngrains, strain=5e-3, tmax=500.0, related=None, rng2=None, dsmax=0.85):
    """returns grains (ubi_true, t_true), peak table dict(sc, fc, omega, grain, h, k, l).
    dsmax: reflections up to this d* (the SIZE of the peak file: 2 pi dsmax^3 a^3 / 3 peaks per fcc grain on a detector
    that holds the whole rings; 0.85 = about 100 peaks per grain, 1.9 = about 950).
    related = {child: (parent, kind)}: the child's orientation is the parent's times relation(rng2, kind), its position
    the parent's plus 5..80 um (kept within +-tmax), its strain its own."""
    uc = unitcell_mod.unitcell([pars["cell__a"], pars["cell__b"], pars["cell__c"], pars["cell_alpha"], pars["cell_beta"],
                                pars["cell_gamma"]], pars["cell_lattice_[P,A,B,C,I,F,R]"])
    hkls = np.array([h for (_, h) in uc.gethkls(dsmax)], float)
    grains = []
    rows = []
    Us = []
    det = {k: pars[k] for k in ("y_center", "y_size", "tilt_y", "z_center", "z_size", "tilt_z", "tilt_x", "distance",
                                "o11", "o12", "o21", "o22")}
    for g in range(ngrains):
        U = random_rotation(rng)
        e = rng.uniform(-strain, strain, size=(3, 3))
        S = np.eye(3) + 0.5 * (e + e.T)
        ub = U @ np.linalg.inv(S) @ uc.B
        ubi = np.linalg.inv(ub)
        t = rng.uniform(-tmax, tmax, size=3)
        if related and g in related:
            parent, kind = related[g]
            M, d = relation(rng2, kind)
            U = Us[parent] @ M
            ub = U @ np.linalg.inv(S) @ uc.B
            ubi = np.linalg.inv(ub)
            t = np.clip(grains[parent][1] + d, -tmax, tmax)
        Us.append(U)
        gv = (ub @ hkls.T)
        tth, (eta1, eta2), (om1, om2) = transform.uncompute_g_vectors(gv, pars["wavelength"], pars["wedge"], pars["chi"])
        for eta, om in ((eta1, om1), (eta2, om2)):
            ok = np.isfinite(om) & np.isfinite(eta) & (tth > 0)
            # invalid solutions are flagged by the library with tth = eta = omega = 0 after masking
            fc, sc = transform.compute_xyz_from_tth_eta(tth, eta, om, t_x=t[0], t_y=t[1], t_z=t[2],
                                                        wedge=pars["wedge"], chi=pars["chi"], **det)
            for i in np.nonzero(ok)[0]:
                if 20 < fc[i] < 2030 and 20 < sc[i] < 2030:
                    rows.append((sc[i], fc[i], om[i] * pars["omegasign"], g, hkls[i, 0], hkls[i, 1], hkls[i, 2]))
        grains.append((ubi, t))
    tab = np.array(rows)
    # independent forward validation, grain by grain
    keep = np.ones(len(tab), bool)
    worst = 0.0
    for g, (ubi, t) in enumerate(grains):
        m = tab[:, 3] == g
        gcalc = forward(tab[m, 0], tab[m, 1], tab[m, 2], t, pars)
        gtrue = (np.linalg.inv(ubi) @ tab[m, 4:7].T).T
        err = np.abs(gcalc - gtrue).max(axis=1) / np.abs(gtrue).max()
        # solutions the library flagged invalid (all zeros) do not reproduce: drop them, they are not peaks
        bad = err > 1e-6
        idx = np.nonzero(m)[0]
        keep[idx[bad]] = False
        if (~bad).any():
            worst = max(worst, err[~bad].max())
    tab = tab[keep]
    return uc, grains, tab, worst

"""X07 child driver: replays ONE behaviour of specs/ProcState.tla in a fresh interpreter.

    /venv/bin/python x07_driver.py <job.json>      (PYTHONPATH = shadow package; OMP_NUM_THREADS /
                                                     SLURM_CPUS_PER_TASK exactly as the behaviour's environment says)

This interpreter is the parent process "P" of the model.  When the behaviour launches it, ONE multiprocessing child
"C" (multiprocessing.Process, default context or an explicit fork / spawn / forkserver context) runs `child_main`:
a command loop on a Pipe, so that the parent decides the order of every step of both processes (the interleaving TLC
chose).  A child that does not answer within the step's time limit while all of its threads sleep without using cpu
time is recorded as "stuck" and killed (this is the hang of a forked child that enters an OpenMP region while the
parent's thread pool was alive at the fork; a child that is merely slow on a busy box is running or runnable and is
waited for); a child whose pipe closes is "dead" (numba's OpenMP back end terminates such a child).

The driver knows nothing about expectations.  For every step it records
    ret     "ok" / value / "exc:<Type>"          nwarn  ImageD11's fork warnings raised by the step
    proc    the projection of both processes AFTER the step (see `proj`)
and prints one JSON document.  Nothing is imported from ImageD11 before the behaviour's own "import" step,
except ImageD11.ImageD11_thread (pure python, no compiled code, needed for the flag projection).
"""
import os, sys, json, time, io

T_STEP = 1.0          # seconds after which a silent child is examined (see `asleep`)
T_HARD = 240.0        # a child that is still running or runnable (not asleep) gets this long (busy box)
T_IMPORT = 60.0       # import of numba + the compiled module in a child (cold caches, busy box)
T_NBKERNEL = 4.0      # array_bin + array_lt are compiled by numba on their first call (about 2 s, busy cpu: not asleep)
FORK_WARNING = "forkserver or spawn"


# ------------------------------------------------------------------------------------------------
# operations available in BOTH processes

class State(object):
    stdout_lines = None
    workers = None
    thread_exc = None


S = State()


def _c():
    return sys.modules.get("ImageD11.cImageD11")


def _nb_launched():
    par = sys.modules.get("numba.np.ufunc.parallel")
    if par is None:
        return False
    return bool(getattr(par, "_is_initialized", False))


def proj():
    """the observable state of the process this runs in (pure observers only)"""
    import multiprocessing
    c = _c()
    out = {"loaded": c is not None, "reg": None, "cores": None, "openmp": None}
    if c is not None:
        out["reg"] = int(c.cimaged11_omp_get_max_threads())
        out["cores"] = int(c.cores_available())
        out["openmp"] = bool(c.OPENMP)
    m = multiprocessing.get_start_method(allow_none=True)
    out["gstart"] = "none" if m is None else m
    out["envomp"] = os.environ.get("OMP_NUM_THREADS", "")
    out["nbl"] = _nb_launched()
    out["nbreg"] = None
    if out["nbl"]:
        import numba
        out["nbreg"] = int(numba.get_num_threads())
    it = sys.modules.get("ImageD11.ImageD11_thread")
    out["stop"] = bool(it.stop_now) if it is not None else None
    out["ischild"] = multiprocessing.parent_process() is not None
    return out


def kernel_inputs(np):
    n = 64 * 64
    i = np.arange(n, dtype=np.int64)
    dat = (i * 7 % 251).astype(np.uint16)
    drk = (i % 13).astype(np.float32)
    msk = ((i * 1103515245 + 12345) // 65536 % 5 < 2).astype(np.int8).reshape(64, 64)
    ind = np.array([0, 3, 3, 5, 15, 3], dtype=np.intp)
    vals = np.array([1, 2, 3, 4, 5, 6], dtype=np.float32)
    return i, dat, drk, msk, ind, vals


def run_kernels():
    """two cheap OpenMP kernels + the put_incr dispatch; exact integer digests"""
    import numpy as np
    c = _c()
    i, dat, drk, msk, ind, vals = kernel_inputs(np)
    cor = np.full(dat.shape, -777.0, dtype=np.float32)
    c.uint16_to_float_darksub(cor, drk, dat)
    ret = np.full(msk.shape, 5, dtype=np.int8)
    npx = c.clean_mask(msk, ret)
    acc = np.zeros(16, dtype=np.float32)
    # the dispatch of put_incr (cImageD11.py:118-132): which compiled routine does it reach?
    route = []
    real = {}
    for nm in ("put_incr64", "put_incr32"):
        real[nm] = getattr(c, nm)
        setattr(c, nm, (lambda f, n: (lambda *a, **k: (route.append(n), f(*a, **k))[1]))(real[nm], nm))
    try:
        c.put_incr(acc, ind, vals)
    finally:
        for nm in real:
            setattr(c, nm, real[nm])
    return {"k1": int((cor.astype(np.int64) * (i % 17 + 1)).sum()),
            "k2n": int(npx),
            "k2": int((ret.astype(np.int64).ravel() * (i % 19 + 1)).sum()),
            "pi": [int(x) for x in acc], "pi_route": ",".join(route)}


def run_numba_kernels():
    import numpy as np
    c = _c()
    a = (np.arange(200, dtype=np.float64) * 37 % 101) / 10.0 - 2.0
    b = c.array_bin(a, 2.0, 7)
    out = np.zeros(a.shape, dtype=bool)
    c.array_lt(a, 3.05, out)
    w = np.arange(200, dtype=np.int64) % 11 + 1
    return {"ab": int((b.astype(np.int64) * w).sum()), "abmin": int(b.min()), "abmax": int(b.max()),
            "abdtype": str(b.dtype), "al": int((out.astype(np.int64) * w).sum())}


def docs_ok():
    """fill_in_docstrings ran at import: every documented name that exists carries its text"""
    from ImageD11 import cImageD11_docstrings as D
    c = _c()
    bad = []
    for name in D.__all__:
        if hasattr(c, name):
            doc = getattr(c, name).__doc__ or ""
            if getattr(D, name) not in doc:
                bad.append(name)
    return bad


# ---- users that change the thread count (real function bodies, stubbed collaborators) ----------

class _Boom(Exception):
    pass


def user_do_index(fail):
    """ImageD11.indexing.do_index with a stub indexer: returns the thread count seen inside find()"""
    import numpy as np
    from ImageD11 import indexing
    c = _c()
    seen = []

    class UC(object):
        ringds = [0.5]
        ringhkls = {0.5: [(1, 0, 0), (-1, 0, 0)]}

    class Idx(object):
        omega_fullrange = 180.0
        unitcell = UC()
        na = [4]
        ra = np.zeros(4, int)
        hits = []
        ubis = []

        def assigntorings(self):
            pass

        def find(self):
            seen.append(int(c.cimaged11_omp_get_max_threads()))
            if fail:
                raise _Boom("x07 stub failure inside the indexing loop")

        def scorethem(self):
            pass

    class CF(object):
        nrows = 4
        parameters = None

        def copyrows(self, m):
            return CF()

    old = indexing.indexer_from_colfile
    indexing.indexer_from_colfile = lambda cf, **k: Idx()
    so = sys.stdout
    sys.stdout = io.StringIO()
    try:
        indexing.do_index(CF(), hkl_tols=(0.05,), fracs=(0.5,), forgen=(0,), foridx=(0,))
    finally:
        sys.stdout = so
        indexing.indexer_from_colfile = old
    return seen[:1]


def do_op(op):
    """execute one operation in this process -> {"ret":..., "nwarn": n, "otherwarn": [...]}"""
    import warnings
    name = op[0]
    ret = "ok"
    with warnings.catch_warnings(record=True) as wl:
        warnings.simplefilter("always")
        try:
            if name == "import":
                import ImageD11.cImageD11
                bad = docs_ok()
                if bad:
                    ret = "docs:" + ",".join(bad[:3])
            elif name == "set":
                _c().cimaged11_omp_set_num_threads(int(op[2]))
            elif name == "kernel":
                ret = run_kernels()
            elif name == "checkmp":
                r = _c().check_multiprocessing(patch=bool(op[2]))
                ret = "ok" if r is None else repr(r)
            elif name == "setstart":
                import multiprocessing
                multiprocessing.set_start_method(op[2])
            elif name == "putenv":
                os.environ["OMP_NUM_THREADS"] = str(op[2])
            elif name == "nbget":
                import numba
                ret = int(numba.get_num_threads())
            elif name == "nbset":
                import numba
                numba.set_num_threads(int(op[2]))
            elif name == "nbkernel":
                ret = run_numba_kernels()
            elif name == "user":
                if op[2] == "do_index":
                    ret = user_do_index(bool(op[3]))
                else:
                    raise ValueError("unknown user %r" % (op[2],))
            elif name == "pbp":
                import ImageD11.sinograms.point_by_point
            elif name == "stopset":
                import ImageD11.ImageD11_thread as it
                it.stop_now = True
            else:
                raise ValueError("unknown operation %r" % (op,))
        except _Boom:
            ret = "exc:Boom"
        except BaseException as e:        # the behaviour decides what is legal; record the type
            ret = "exc:" + type(e).__name__
    nwarn = sum(1 for w in wl if FORK_WARNING in str(w.message))
    other = sorted(set(w.category.__name__ for w in wl if FORK_WARNING not in str(w.message)))
    return {"ret": ret, "nwarn": nwarn, "otherwarn": other}


# ------------------------------------------------------------------------------------------------
# the child

def _task_stats(pid):
    """[(state, cpu ticks)] of every thread of pid"""
    out = []
    d = "/proc/%d/task" % pid
    for t in os.listdir(d):
        try:
            with open("%s/%s/stat" % (d, t)) as f:
                s = f.read()
        except OSError:
            continue
        rest = s[s.rindex(")") + 2:].split()
        out.append((rest[0], int(rest[11]) + int(rest[12])))
    return sorted(out)


def asleep(pid, dt=0.3):
    """True when every thread of pid sleeps and none used cpu time during dt: the process is not slow, it waits
    (a hung OpenMP team waits on a futex; OMP_WAIT_POLICY=passive)"""
    try:
        a = _task_stats(pid)
        time.sleep(dt)
        b = _task_stats(pid)
    except OSError:
        return False
    return a == b and all(st == "S" for st, _ in b)


def child_main(conn):
    try:
        import ImageD11.ImageD11_thread        # pure python; inherited under fork
        conn.send({"hello": True, "proj": proj()})
        while True:
            op = conn.recv()
            if op is None:
                break
            r = do_op(op)
            r["proj"] = proj()
            conn.send(r)
    except EOFError:
        pass
    os._exit(0)


# ------------------------------------------------------------------------------------------------
# worker threads of ImageD11.ImageD11_thread (parent only).  Every atomic step of a worker waits for a
# token from the main thread, so the interleaving is the one the behaviour names.

def make_worker(name):
    import queue
    from ImageD11 import ImageD11_thread

    class Worker(ImageD11_thread.ImageD11_thread):
        """the loop idiom of peaksearcher.py: while not self.ImageD11_stop_now(): one unit of work"""

        def __init__(self):
            ImageD11_thread.ImageD11_thread.__init__(self, myname=name)
            self.req = queue.Queue()
            self.rsp = queue.Queue()
            self.nwork = 0
            self.daemon = True

        def ImageD11_run(self):
            while True:
                self.req.get()                      # token: check
                s = self.ImageD11_stop_now()
                self.rsp.put(bool(s))
                if s:
                    return
                tok = self.req.get()                # token: work / raise
                if tok == "raise":
                    self.rsp.put("raise")
                    raise _Boom("x07 worker failure")
                self.nwork += 1
                self.rsp.put(self.nwork)

    return Worker()


def thread_op(op):
    import threading
    name, w = op[0], op[2]
    ws = S.workers
    ret = "ok"
    if name == "tstart":
        ws[w] = make_worker("w%s" % w)
        ws[w].start()
    elif name == "tcheck":
        ws[w].req.put("check")
        ret = ws[w].rsp.get(timeout=120)
        if ret:
            ws[w].join(120)
    elif name == "twork":
        ws[w].req.put("work")
        ret = ws[w].rsp.get(timeout=120)
    elif name == "traise":
        ws[w].req.put("raise")
        ret = ws[w].rsp.get(timeout=120)
        ws[w].join(120)
    return {"ret": ret, "nwarn": 0, "otherwarn": []}


def workers_proj():
    out = {}
    for w, t in sorted((S.workers or {}).items()):
        out[str(w)] = {"alive": bool(t.is_alive()), "nwork": int(t.nwork)}
    return out


# ------------------------------------------------------------------------------------------------

class Capture(io.StringIO):
    pass


def main():
    job = json.load(open(sys.argv[1]))
    env = job["env"]
    long_wait = bool(job.get("long_wait"))
    t_step = T_STEP
    # cpu affinity = what cores_available and the OpenMP runtime see
    allowed = sorted(os.sched_getaffinity(0))
    k = int(env["cores"])
    off = int(job.get("cpu_offset", 0)) % max(1, len(allowed))
    mine = [allowed[(off + j) % len(allowed)] for j in range(min(k, len(allowed)))]
    os.sched_setaffinity(0, mine)
    import multiprocessing, threading
    import ImageD11.ImageD11_thread
    S.workers = {}
    S.thread_exc = []
    threading.excepthook = lambda a: S.thread_exc.append(a.exc_type.__name__)
    real_stdout = sys.stdout
    cap = Capture()
    sys.stdout = cap
    child = {"proc": None, "conn": None, "state": "none", "exit": None}
    steps = []

    def child_call(op, tmo):
        """send op to the child; -> reply dict or None (stuck / dead: child['state'] updated)"""
        try:
            child["conn"].send(op)
            t0 = time.time()
            while True:
                if child["conn"].poll(min(tmo, T_STEP)):
                    return child["conn"].recv()
                if not child["proc"].is_alive():
                    break
                waited = time.time() - t0
                if waited >= T_HARD:
                    break
                # silent for tmo seconds: stuck only if every thread sleeps and none uses cpu time (a slow or
                # starved child is running / runnable); the confirming run (long_wait) looks three times for 1 s
                if waited >= tmo - 1e-3 and all(asleep(child["proc"].pid, 1.0 if long_wait else 0.3)
                                                for _ in range(3 if long_wait else 1)):
                    break
        except (EOFError, OSError, BrokenPipeError):
            child["proc"].join(5)
            child["state"] = "dead"
            child["exit"] = child["proc"].exitcode
            return None
        if not child["proc"].is_alive():
            child["proc"].join(5)
            child["state"] = "dead"
            child["exit"] = child["proc"].exitcode
            return None
        child["state"] = "stuck"
        try:
            child["proc"].kill()
            child["proc"].join(5)
        except Exception:
            pass
        return None

    try:
        for op in job["ops"]:
            name = op[0]
            who = op[1]
            nstop0 = cap.getvalue().count("Got a stop in")
            t0 = time.time()
            cproj = None
            if name == "launch":
                how = op[2]
                import warnings
                with warnings.catch_warnings(record=True) as wl:
                    warnings.simplefilter("always")
                    ctx = multiprocessing if how == "default" else multiprocessing.get_context(how)
                    pc, cc = multiprocessing.Pipe()
                    p = ctx.Process(target=child_main, args=(cc,))
                    p.daemon = True
                    p.start()
                    cc.close()
                child.update(proc=p, conn=pc, state="alive")
                r = {"ret": "ok", "nwarn": sum(1 for w in wl if FORK_WARNING in str(w.message)),
                     "otherwarn": sorted(set(w.category.__name__ for w in wl if FORK_WARNING not in str(w.message)))}
                hello = None
                try:
                    if pc.poll(T_HARD):
                        hello = pc.recv()
                except (EOFError, OSError):
                    pass
                if hello is None:
                    child["state"] = "dead"
                    r["ret"] = "exc:NoHello"
                else:
                    cproj = hello["proj"]
            elif name in ("tstart", "tcheck", "twork", "traise"):
                r = thread_op(op)
            elif who == "C":
                if child["state"] != "alive":
                    r = {"ret": "exc:NoChild", "nwarn": 0, "otherwarn": []}
                else:
                    rr = child_call(op, T_IMPORT if name in ("import", "user", "pbp") else
                                    (T_NBKERNEL if name == "nbkernel" else t_step))
                    if rr is None:
                        r = {"ret": child["state"], "nwarn": 0, "otherwarn": []}
                    else:
                        cproj = rr.pop("proj")
                        r = rr
            else:
                r = do_op(op)
            if child["state"] == "alive" and cproj is None:
                # ask the child for its projection after a parent step (nothing of the parent may leak into it)
                rr = child_call(["proj"], t_step)
                cproj = rr["proj"] if rr else None
            pp = proj()
            pp["workers"] = workers_proj()
            pp["thread_exc"] = list(S.thread_exc)
            r.update(op=op, P=pp, C=cproj, cstate=child["state"], cexit=child["exit"],
                     nstop=cap.getvalue().count("Got a stop in") - nstop0, dt=round(time.time() - t0, 3))
            steps.append(r)
    finally:
        sys.stdout = real_stdout
        if child["proc"] is not None:
            try:
                if child["state"] == "alive":
                    child["conn"].send(None)
                    child["proc"].join(2)
                if child["proc"].is_alive():
                    child["proc"].kill()
                    child["proc"].join(5)
            except Exception:
                pass
    meta = {"python": sys.version.split()[0], "pid": os.getpid(), "cpus": mine}
    if "numba" in sys.modules:
        import numba
        meta["numba"] = numba.__version__
        meta["nbmax"] = int(numba.config.NUMBA_NUM_THREADS)
        if _nb_launched():
            meta["nblayer"] = numba.threading_layer()
    real_stdout.write(json.dumps({"steps": steps, "meta": meta}) + "\n")
    real_stdout.flush()
    # never wait for forkserver / resource tracker / stuck OpenMP threads
    os._exit(0)


# "proj" is a pseudo operation understood by do_op in the child
_do_op = do_op


def do_op(op):          # noqa: F811
    if op[0] == "proj":
        return {"ret": "ok", "nwarn": 0, "otherwarn": []}
    return _do_op(op)


if __name__ == "__main__":
    main()

"""C16 helper (runs in a FRESH interpreter): drive the real ImageD11.sym_u.generate_group from two threads
under a deterministic schedule and report what every caller was handed.

    python c16_conc_child.py <shadow dir> <tree under test (realpath)> <jobs.json> <results.json>

Nothing in the tree under test is edited.  From this (harness) process
  * sym_u.symcache is replaced by a dict subclass that logs every access (who, which operation, the key, the
    length of the group list of the object returned / stored at that moment),
  * sym_u.group.__init__, .additem and .op are wrapped,
and each wrapped call is a *hook point*: a registered worker thread parks there until the controller (main
thread) grants it one step.  Only one worker runs at a time, so a schedule (which thread passes how many hook
points, in which order) is reproduced exactly: the second thread looks the cache up in the middle of the first
thread's build, deterministically.  The first job of a process works on the untouched module state (the first
use of the named group in the process IS the concurrent one); later jobs start from a new empty dictionary.

jobs.json   : {"jobs": [ {"names": [n1, n2], "policy": {...}}, ... ], "step_timeout": seconds}
policy      : {"kind": "cut",  "first": 0|1, "k": K}   thread `first` passes K hook points, the other thread runs
                                                        to its return, then `first` finishes
              {"kind": "cut2", "first": 0|1, "k": K}   as cut, but the other thread stops just before it stores
                                                        into the dictionary; `first` finishes; the other finishes
              {"kind": "rr"}                            strict alternation, one hook point each
              {"kind": "rand", "seed": s, "p": p}       switch thread with probability p after every hook point
results.json: {"file": realpath of sym_u, "results": [ {...} per job ]}
"""
from __future__ import print_function
import sys, os, json, threading, random, time, traceback


def main():
    shadow, repo, jobfile, outfile = sys.argv[1:5]
    sys.dont_write_bytecode = True
    sys.path.insert(0, shadow)
    with open(jobfile) as f:
        spec = json.load(f)
    step_timeout = float(spec.get("step_timeout", 300.0))
    max_points = int(spec.get("max_points", 20000))
    import numpy as np
    import ImageD11.sym_u as S
    out = {"file": os.path.realpath(S.__file__), "results": []}
    if not out["file"].startswith(os.path.realpath(repo) + os.sep):
        out["machinery"] = "sym_u resolved to %s, not to the tree under test %s" % (out["file"], repo)
        with open(outfile, "w") as f:
            json.dump(out, f)
        return 0

    tls = threading.local()
    state = {"sched": None}

    class Stuck(Exception):
        pass

    class Sched(object):
        """lock-step controller for two worker threads"""

        def __init__(self):
            self.cv = threading.Condition()
            self.parked = {}        # tid -> label of the hook point the thread waits at
            self.grant = {0: 0, 1: 0}
            self.done = {0: False, 1: False}
            self.passed = {0: 0, 1: 0}     # hook points passed
            self.labels = {0: [], 1: []}
            self.events = []
            self.abort = False

        # ---- worker side
        def point(self, label):
            tid = getattr(tls, "tid", None)
            if tid is None or state["sched"] is not self:
                return
            with self.cv:
                self.parked[tid] = label
                self.cv.notify_all()
                while self.grant[tid] == 0 and not self.abort:
                    self.cv.wait(1.0)
                if self.abort:
                    raise SystemExit
                self.grant[tid] -= 1
                del self.parked[tid]
                self.passed[tid] += 1
                self.labels[tid].append(label)
                if self.passed[tid] > max_points:
                    self.abort = True
                    self.cv.notify_all()
                    raise SystemExit

        def log(self, ev):
            tid = getattr(tls, "tid", None)
            if tid is None or state["sched"] is not self:
                return
            ev["t"] = tid
            self.events.append(ev)

        def finish(self, tid):
            with self.cv:
                self.done[tid] = True
                self.cv.notify_all()

        # ---- controller side
        def wait_parked(self, tid):
            t0 = time.time()
            with self.cv:
                while tid not in self.parked and not self.done[tid] and not self.abort:
                    self.cv.wait(1.0)
                    if time.time() - t0 > step_timeout:
                        raise Stuck("thread %d does not reach its next hook point within %g s" % (tid, step_timeout))
                if self.abort:
                    raise Stuck("thread passed more than %d hook points (makegroup does not terminate?)" % max_points)

        def step(self, tid):
            """let thread tid pass the hook point it is parked at and run to the next one (or to its end)"""
            if self.done[tid]:
                return False
            with self.cv:
                self.grant[tid] += 1
                self.cv.notify_all()
            # the thread leaves `parked`, runs, and parks again / finishes
            t0 = time.time()
            with self.cv:
                while self.grant[tid] > 0 and not self.abort:
                    self.cv.wait(1.0)
                    if time.time() - t0 > step_timeout:
                        raise Stuck("thread %d does not take its step within %g s" % (tid, step_timeout))
            self.wait_parked(tid)
            return True

        def label(self, tid):
            return self.parked.get(tid)

    def objlen(o):
        g = getattr(o, "group", None)
        try:
            return len(g)
        except TypeError:
            return -1

    def keyrepr(k):
        return list(k) if isinstance(k, tuple) else [repr(k)]

    class TracingDict(dict):
        """symcache stand-in: same behaviour, every access by a worker is a hook point and is logged"""

        def _s(self):
            return state["sched"]

        def __contains__(self, k):
            s = self._s()
            if s is not None:
                s.point("contains")
            r = dict.__contains__(self, k)
            if s is not None:
                s.log({"op": "contains", "key": keyrepr(k), "res": bool(r)})
            return r

        def __getitem__(self, k):
            s = self._s()
            if s is not None:
                s.point("get")
            r = dict.__getitem__(self, k)
            if s is not None:
                s.log({"op": "get", "key": keyrepr(k), "len": objlen(r), "obj": id(r)})
            return r

        def get(self, k, d=None):
            s = self._s()
            if s is not None:
                s.point("get")
            r = dict.get(self, k, d)
            if s is not None:
                if dict.__contains__(self, k):
                    s.log({"op": "get", "key": keyrepr(k), "len": objlen(r), "obj": id(r)})
                else:
                    s.log({"op": "contains", "key": keyrepr(k), "res": False})
            return r

        def __setitem__(self, k, v):
            s = self._s()
            if s is not None:
                s.point("set")
            dict.__setitem__(self, k, v)
            if s is not None:
                s.log({"op": "pub", "key": keyrepr(k), "len": objlen(v), "obj": id(v)})

        def setdefault(self, k, d=None):
            s = self._s()
            if s is not None:
                s.point("set")
            had = dict.__contains__(self, k)
            r = dict.setdefault(self, k, d)
            if s is not None:
                s.log({"op": "get" if had else "pub", "key": keyrepr(k), "len": objlen(r), "obj": id(r)})
            return r

        def update(self, *a, **kw):
            for k, v in dict(*a, **kw).items():
                self[k] = v

        def pop(self, k, *d):
            s = self._s()
            if s is not None:
                s.point("del")
                s.log({"op": "del", "key": keyrepr(k)})
            return dict.pop(self, k, *d)

        def __delitem__(self, k):
            s = self._s()
            if s is not None:
                s.point("del")
                s.log({"op": "del", "key": keyrepr(k)})
            dict.__delitem__(self, k)

        def clear(self):
            s = self._s()
            if s is not None:
                s.point("del")
                s.log({"op": "clear"})
            dict.clear(self)

    def hooked(label, orig):
        def f(*a, **kw):
            s = state["sched"]
            if s is not None:
                s.point(label)
            return orig(*a, **kw)
        f.__name__ = getattr(orig, "__name__", label)
        return f

    S.group.__init__ = hooked("new", S.group.__init__)
    S.group.additem = hooked("additem", S.group.additem)
    S.group.op = hooked("op", S.group.op)
    preexisting = [keyrepr(k) for k in S.symcache.keys()]
    S.symcache = TracingDict(S.symcache)

    def mats(g):
        try:
            return [np.asarray(m, dtype=float).tolist() for m in list(g.group)]
        except Exception as e:       # not a group object at all
            return "unreadable: %r" % (e,)

    def run_job(job, first_in_process):
        if not first_in_process:
            S.symcache = TracingDict()
        sched = Sched()
        state["sched"] = sched
        res = {"names": job["names"], "policy": job["policy"], "first_in_process": first_in_process,
               "preexisting_keys": preexisting if first_in_process else [], "threads": [None, None]}
        objs = {}

        def worker(tid, name):
            tls.tid = tid
            r = {"name": name, "error": None, "returned": None, "obj": None}
            try:
                sched.point("call")
                g = S.getgroup(name)()
                r["returned"] = mats(g)          # what the caller holds AT THE MOMENT of the return
                r["obj"] = id(g)
                objs[id(g)] = g
            except SystemExit:
                r["error"] = "aborted"
            except BaseException as e:
                r["error"] = "%s: %s" % (type(e).__name__, e)
                r["traceback"] = traceback.format_exc()[-1500:]
            res["threads"][tid] = r
            sched.finish(tid)

        ths = [threading.Thread(target=worker, args=(t, job["names"][t])) for t in (0, 1)]
        for t in ths:
            t.daemon = True
            t.start()
        pol = job["policy"]
        try:
            sched.wait_parked(0)
            sched.wait_parked(1)
            kind = pol["kind"]
            if kind in ("cut", "cut2"):
                A = int(pol.get("first", 0))
                B = 1 - A
                for _ in range(int(pol["k"])):
                    if not sched.step(A):
                        break
                if kind == "cut":
                    while sched.step(B):
                        pass
                else:
                    while not sched.done[B] and sched.label(B) != "set":
                        sched.step(B)
                while sched.step(A):
                    pass
                while sched.step(B):
                    pass
            elif kind == "rr":
                while not (sched.done[0] and sched.done[1]):
                    for t in (0, 1):
                        sched.step(t)
            elif kind == "rand":
                rng = random.Random(int(pol["seed"]))
                p = float(pol.get("p", 0.5))
                cur = int(pol.get("first", 0))
                while not (sched.done[0] and sched.done[1]):
                    if rng.random() < p:
                        cur = 1 - cur
                    if sched.done[cur]:
                        cur = 1 - cur
                    sched.step(cur)
            else:
                raise ValueError("unknown policy %r" % (pol,))
            res["stuck"] = None
        except Stuck as e:
            res["stuck"] = str(e)
            with sched.cv:
                sched.abort = True
                sched.cv.notify_all()
        for t in ths:
            t.join(5.0)
        state["sched"] = None
        # renumber the objects in order of first appearance: events, then returns, then the dictionary
        ids = {}

        def oid(i):
            if i is None:
                return None
            if i not in ids:
                ids[i] = len(ids) + 1
            return ids[i]
        for e in sched.events:
            if "obj" in e:
                e["obj"] = oid(e["obj"])
        for r in res["threads"]:
            if r is not None:
                r["obj"] = oid(r["obj"])
        res["events"] = sched.events
        res["points"] = [sched.passed[0], sched.passed[1]]
        res["labels"] = [[l for l in sched.labels[t] if l != "op"] for t in (0, 1)]
        cache = []
        for k, v in dict.items(S.symcache):
            objs.setdefault(id(v), v)
            cache.append([keyrepr(k), oid(id(v))])
        res["cache"] = cache
        # the lists as they are when everything has returned (a held object must not have changed)
        res["final"] = {str(oid(i)): mats(o) for i, o in objs.items()}
        return res

    first = True
    for job in spec["jobs"]:
        r = run_job(job, first)
        first = False
        out["results"].append(r)
        if r.get("stuck"):
            break                      # threads of this job may still be alive: nothing after it is trustworthy
    with open(outfile, "w") as f:
        json.dump(out, f)
    return 0


if __name__ == "__main__":
    rc = main()
    sys.stdout.flush()
    os._exit(rc)

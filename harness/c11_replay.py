"""Replay of connected-pixel cases into the real kernels (normal or sanitizer build).

A case is a dict  {"ns","nf","tern":[0/1/2 per pixel, row-major],"con8":0/1,"labels": expected dense labels
(for the *above* pixels, canonical numbering), "np": n}.  tern: 0 = absent from the sparse list,
1 = listed but not strictly above threshold, 2 = above.  Dense routes see tern==2 as above.
Optional "zpi","zpj" (SparseCP.tla's ZPI, ZPJ): the splat scratch is sized for a frame that many rows / columns larger.

The specification's image is binary / ternary; the harness chooses the numbers (covariant: the model depends on the
values only through "strictly above the threshold"), rotating with the case index through
  * thresholds: exact in float32 (0, 10, -3.5, 1000) and NOT exact (0.1, -1/3, 1e-3, 16777217: the kernels' parameter is a
    float32, so the caller's number arrives rounded; "above" means above the rounded threshold),
  * values of the not-above pixels: equal to the (rounded) threshold, one float32 below it, 1 below it,
  * values of the above pixels: one float32 above the threshold, 1 (or 0.5) above it,
  * labelimage.labelpeaks input dtype / memory layout: float32, float64 (the same values: exactly representable),
    uint8 / uint16 / int16 / int32 (own integer values and threshold), Fortran order, strided view,
  * sparseframe.sparse_connected_pixels: default array names (threshold from the meta data or explicit) and the names
    lima_segmenter.clean passes (data_name="f32", label_name="cp") on a frame whose "intensity" array is a decoy with
    the opposite classification and whose "intensity" meta threshold classifies nothing as above.

Used in-process by props/c11.py and as a script under the ASan environment:
    python c11_replay.py <cases.jsonl> <out.json>
"""
import sys, os, json, io, contextlib
import numpy as np

POISON = -7
THRS = [0.0, 10.0, -3.5, 1000.0, 0.1, -1.0 / 3.0, 1e-3, 16777217.0]
NVARIANT = 192                    # idx values after which the (threshold, value, dtype, name) rotation has seen all
LI_KINDS = ["float32", "float64", "uint16", "int32", "uint8", "int16", "fortran", "strided"]
INT_THR = [0, 10, 7, 1000]


_POOLS = {}


def f32_above_below(thr):
    """(t32, [values not strictly above], [values strictly above]) as float32, checked here without the kernels"""
    if thr not in _POOLS:
        _POOLS[thr] = _f32_above_below(thr)
    return _POOLS[thr]


def _f32_above_below(thr):
    t32 = np.float32(thr)
    ninf, pinf = np.float32(-np.inf), np.float32(np.inf)
    lo = [t32, np.nextafter(t32, ninf), np.float32(t32 - np.float32(1.0))]
    hi1 = np.float32(t32 + np.float32(1.0))
    hih = np.float32(t32 + np.float32(0.5))
    up = np.nextafter(t32, pinf)
    hi = [up, hi1 if hi1 > t32 else up, hih if hih > t32 else up]
    assert all(x <= t32 for x in lo) and all(x > t32 for x in hi)
    return t32, np.array(lo, np.float32), np.array(hi, np.float32)


def dense_data(tern, ns, nf, thr, variant):
    """float32 image; every pixel picks its own representative of its class (rotating with pixel index and variant)"""
    t = np.array(tern).reshape(ns, nf)
    _, lo, hi = f32_above_below(thr)
    p = np.arange(ns * nf).reshape(ns, nf)
    v = variant // len(THRS)
    return np.where(t == 2, hi[(p + v) % 3], lo[(2 * p + v) % 3]).astype(np.float32)


def int_data(tern, ns, nf, variant, dtype):
    """integer image and integer threshold for the integer input dtypes of labelpeaks"""
    t = np.array(tern).reshape(ns, nf)
    thr = INT_THR[variant % 4]          # (variant % 8 selects the float threshold; the integer one follows it)
    if np.dtype(dtype) == np.uint8:
        thr = thr % 200
    p = np.arange(ns * nf).reshape(ns, nf)
    lo = thr - ((p + variant) % 2)
    if np.dtype(dtype).kind == "u":
        lo = np.maximum(lo, 0)
    hi = thr + 1 + ((p + variant // 4) % 2)
    return np.where(t == 2, hi, lo).astype(dtype), float(thr)


def li_input(kind, data32, tern, ns, nf, variant, thr):
    """the array handed to labelimage.labelpeaks and its threshold"""
    if kind == "float32":
        return data32, thr
    if kind == "float64":
        return data32.astype(np.float64), thr
    if kind == "fortran":
        return np.asfortranarray(data32), thr
    if kind == "strided":
        big = np.full((2 * ns, 3 * nf), np.float32(thr) + np.float32(7.0), np.float32)
        big[1::2, 2::3] = data32
        return big[1::2, 2::3], thr
    return int_data(tern, ns, nf, variant, getattr(np, kind))


def routes_for(case):
    return case.get("routes") or ["dense", "labelimage", "sparse", "splat", "sparseframe"]


def run_labelpeaks(labelimage, data, thr, shape, reuse=None):
    """reuse: dict shape -> labelimage object used before (its blim then holds the labels of the previous image, as in
    a peak search over a series of frames); a fresh object gets a poisoned blim"""
    li = reuse.get(tuple(shape)) if reuse is not None else None
    if li is None:
        with contextlib.redirect_stdout(io.StringIO()):
            li = labelimage.labelimage(tuple(shape), fileout=io.StringIO(), sptfile=io.StringIO())
        li.blim[:] = POISON
        if reuse is not None:
            reuse[tuple(shape)] = li
    li.labelpeaks(data, thr)
    return li.blim, li.npk


def run_sparseframe(sparseframe, ii, jj, shape, v, thr, mode, probs, decoy=None):
    """sparseframe.sparse_connected_pixels; mode 0 threshold from meta, 1 explicit (default names);
    2 / 3 the same with data_name="f32", label_name="cp" next to a decoy "intensity" array.  returns (labels, n)"""
    name = "sparseframe.sparse_connected_pixels"
    if mode < 2:
        fr = sparseframe.sparse_frame(ii, jj, tuple(shape), itype=np.uint16, pixels={"intensity": v})
        fr.meta["intensity"] = {"threshold": thr}
        n = sparseframe.sparse_connected_pixels(fr, threshold=(thr if mode == 1 else None))
        lname = "connectedpixels"
    else:
        name += "(data_name='f32', label_name='cp')"
        if decoy is None:
            t32, lo, hi = f32_above_below(thr)
            decoy = np.where(v > t32, lo[0], hi[1]).astype(np.float32)
        keep_d, keep_v = decoy.copy(), v.copy()
        fr = sparseframe.sparse_frame(ii, jj, tuple(shape), itype=np.uint16, pixels={"intensity": decoy})
        # the decoy's threshold: far above every value in the frame (nothing is a peak under it)
        fr.meta["intensity"] = {"threshold": float(max(np.max(np.abs(v)), np.max(np.abs(decoy)), abs(thr))) * 2.0 + 4096.0}
        fr.set_pixels("f32", v, {"threshold": thr})
        n = sparseframe.sparse_connected_pixels(fr, threshold=(thr if mode == 3 else None), data_name="f32", label_name="cp")
        lname = "cp"
        if "connectedpixels" in fr.pixels:
            probs.append("%s: wrote an array named 'connectedpixels'" % name)
        if not (np.array_equal(fr.pixels["intensity"], keep_d) and np.array_equal(fr.pixels["f32"], keep_v)):
            probs.append("%s: the data arrays of the frame were modified" % name)
    if lname not in fr.pixels:
        probs.append("%s: no array named %r in the frame afterwards" % (name, lname))
        return name, None, n
    if fr.meta.get(lname, {}).get("nlabel") != n:
        probs.append("%s: nlabel meta differs from returned count" % name)
    return name, fr.pixels[lname], n


def run_splat(cImageD11, v, ii, jj, thr, ns, nf, zpi=0, zpj=0):
    lab = np.full(len(v), POISON, np.int32)
    ni, nj = ns + zpi, nf + zpj
    Z = np.full((ni + 2) * (nj + 2), POISON, np.int32)
    n = cImageD11.sparse_connectedpixels_splat(v, ii, jj, thr, lab, Z, ni, nj)
    return lab, n


def run_case(case, mods, idx=0):
    """returns list of problem strings (empty = conforms)"""
    cImageD11, labelimage, sparseframe = mods
    ns, nf = case["ns"], case["nf"]
    tern = np.array(case["tern"], dtype=int).reshape(ns, nf)
    con8 = int(case.get("con8", 1))
    exp_dense = np.array(case["labels_dense"], dtype=np.int32).reshape(ns, nf)
    n_exp = int(case["np"])
    thr = THRS[idx % len(THRS)]
    data = dense_data(case["tern"], ns, nf, thr, idx)
    probs = []
    routes = routes_for(case)

    def cmp(name, got, exp, n):
        if int(n) != n_exp:
            probs.append("%s: returned count %d, specification %d" % (name, int(n), n_exp))
        if got is None:
            return
        if got.shape != exp.shape or not np.array_equal(got, exp):
            probs.append("%s: labels %s differ from specification %s (threshold %r)" % (
                name, got.ravel().tolist(), exp.ravel().tolist(), thr))

    if "dense" in routes:
        lab = np.full((ns, nf), POISON, np.int32)
        n = cImageD11.connectedpixels(data, lab, thr, 0, con8)
        cmp("connectedpixels(con8=%d)" % con8, lab, exp_dense, n)
    if "labelimage" in routes and con8 == 1:
        kind = LI_KINDS[(idx // len(THRS)) % len(LI_KINDS)]
        arr, t = li_input(kind, data, case["tern"], ns, nf, idx, thr)
        blim, npk = run_labelpeaks(labelimage, arr, t, (ns, nf))
        cmp("labelimage.labelpeaks(%s input)" % kind, blim, exp_dense, npk)
    if con8 == 1 and ("sparse" in routes or "splat" in routes or "sparseframe" in routes):
        listed = tern > 0
        ii, jj = np.nonzero(listed)
        ii = ii.astype(np.uint16)
        jj = jj.astype(np.uint16)
        v = data[listed].astype(np.float32)
        exp_sp = exp_dense[listed]
        nnz = len(v)
        if nnz == 0:
            routes = []     # the f2py wrappers reject zero-length lists; the library represents empty frames as None
        if "sparse" in routes:
            lab = np.full(nnz, POISON, np.int32)
            n = cImageD11.sparse_connectedpixels(v, ii, jj, thr, lab)
            cmp("sparse_connectedpixels", lab, exp_sp, n)
        if "splat" in routes:
            zpi, zpj = int(case.get("zpi", 0)), int(case.get("zpj", 0))
            lab, n = run_splat(cImageD11, v, ii, jj, thr, ns, nf, zpi, zpj)
            cmp("sparse_connectedpixels_splat(Z for %dx%d)" % (ns + zpi, nf + zpj), lab, exp_sp, n)
        if "sparseframe" in routes and nnz > 0:
            name, got, n = run_sparseframe(sparseframe, ii, jj, (ns, nf), v, thr, (idx // len(THRS)) % 4, probs)
            cmp(name, got, exp_sp, n)
    return probs


def load_mods():
    from ImageD11 import cImageD11, labelimage, sparseframe
    return cImageD11, labelimage, sparseframe


def main():
    cases_path, out_path = sys.argv[1], sys.argv[2]
    mods = load_mods()
    out = {"n": 0, "problems": []}
    with open(cases_path) as f:
        for idx, line in enumerate(f):
            case = json.loads(line)
            out["n"] += 1
            with open(out_path + ".cur", "w") as g:
                g.write(str(idx))
            try:
                p = run_case(case, mods, idx)
            except Exception as e:          # noqa
                p = ["exception %r" % (e,)]
            if p:
                out["problems"].append({"idx": idx, "case": case, "problems": p})
            # write progressively so that a sanitizer abort still tells how far we got
            if idx % 2000 == 0:
                with open(out_path, "w") as g:
                    json.dump(dict(out, partial=True, last=idx), g)
    with open(out_path, "w") as g:
        json.dump(out, g)


if __name__ == "__main__":
    main()

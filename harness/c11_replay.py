"""Replay of connected-pixel cases into the real kernels (normal or sanitizer build).

A case is a dict  {"ns","nf","tern":[0/1/2 per pixel, row-major],"con8":0/1,"labels": expected dense labels
(for the *above* pixels, canonical numbering), "np": n}.  tern: 0 = absent from the sparse list,
1 = listed but not strictly above threshold, 2 = above.  Dense routes see tern==2 as above.

Used in-process by props/c11.py and as a script under the ASan environment:
    python c11_replay.py <cases.jsonl> <out.json>
"""
import sys, os, json, io, contextlib
import numpy as np

POISON = -7


def dense_data(tern, ns, nf, thr, variant):
    """float32 image: above -> thr + 1 (or +0.5), not above -> thr (equal: not strictly above) or thr - 1"""
    t = np.array(tern).reshape(ns, nf)
    lo = thr if variant % 2 == 0 else thr - 1.0
    hi = thr + (1.0 if variant % 3 else 0.5)
    return np.where(t == 2, hi, lo).astype(np.float32)


def routes_for(case):
    return case.get("routes") or ["dense", "labelimage", "sparse", "splat", "sparseframe"]


def run_case(case, mods, idx=0):
    """returns list of problem strings (empty = conforms)"""
    cImageD11, labelimage, sparseframe = mods
    ns, nf = case["ns"], case["nf"]
    tern = np.array(case["tern"], dtype=int).reshape(ns, nf)
    con8 = int(case.get("con8", 1))
    exp_dense = np.array(case["labels_dense"], dtype=np.int32).reshape(ns, nf)
    n_exp = int(case["np"])
    thr = [0.0, 10.0, -3.5, 1000.0][idx % 4]
    data = dense_data(case["tern"], ns, nf, thr, idx)
    probs = []
    routes = routes_for(case)

    def cmp(name, got, exp, n):
        if int(n) != n_exp:
            probs.append("%s: returned count %d, specification %d" % (name, int(n), n_exp))
        if got.shape != exp.shape or not np.array_equal(got, exp):
            probs.append("%s: labels %s differ from specification %s" % (name, got.ravel().tolist(), exp.ravel().tolist()))

    if "dense" in routes:
        lab = np.full((ns, nf), POISON, np.int32)
        n = cImageD11.connectedpixels(data, lab, thr, 0, con8)
        cmp("connectedpixels(con8=%d)" % con8, lab, exp_dense, n)
    if "labelimage" in routes and con8 == 1:
        with contextlib.redirect_stdout(io.StringIO()):
            li = labelimage.labelimage((ns, nf), fileout=io.StringIO(), sptfile=io.StringIO())
        li.blim[:] = POISON
        li.labelpeaks(data, thr)
        cmp("labelimage.labelpeaks", li.blim, exp_dense, li.npk)
    if con8 == 1 and ("sparse" in routes or "splat" in routes or "sparseframe" in routes):
        listed = tern > 0
        ii, jj = np.nonzero(listed)
        ii = ii.astype(np.uint16)
        jj = jj.astype(np.uint16)
        v = data[listed].astype(np.float32)
        exp_sp = exp_dense[listed]
        nnz = len(v)
        if nnz == 0:
            routes = []     # the f2py wrappers reject zero-length lists; the library represents empty frames as None
        if "sparse" in routes:
            lab = np.full(nnz, POISON, np.int32)
            n = cImageD11.sparse_connectedpixels(v, ii, jj, thr, lab)
            cmp("sparse_connectedpixels", lab, exp_sp, n)
        if "splat" in routes:
            lab = np.full(nnz, POISON, np.int32)
            Z = np.full((ns + 2) * (nf + 2), POISON, np.int32)
            n = cImageD11.sparse_connectedpixels_splat(v, ii, jj, thr, lab, Z, ns, nf)
            cmp("sparse_connectedpixels_splat", lab, exp_sp, n)
        if "sparseframe" in routes and nnz > 0:
            fr = sparseframe.sparse_frame(ii, jj, (ns, nf), itype=np.uint16, pixels={"intensity": v})
            fr.meta["intensity"] = {"threshold": thr}
            n = sparseframe.sparse_connected_pixels(fr, threshold=(thr if idx % 2 else None))
            cmp("sparseframe.sparse_connected_pixels", fr.pixels["connectedpixels"], exp_sp, n)
            if fr.meta["connectedpixels"]["nlabel"] != n:
                probs.append("sparseframe: nlabel meta differs from returned count")
    return probs


def load_mods():
    from ImageD11 import cImageD11, labelimage, sparseframe
    return cImageD11, labelimage, sparseframe


def main():
    cases_path, out_path = sys.argv[1], sys.argv[2]
    mods = load_mods()
    out = {"n": 0, "problems": []}
    with open(cases_path) as f:
        for idx, line in enumerate(f):
            case = json.loads(line)
            out["n"] += 1
            with open(out_path + ".cur", "w") as g:
                g.write(str(idx))
            try:
                p = run_case(case, mods, idx)
            except Exception as e:          # noqa
                p = ["exception %r" % (e,)]
            if p:
                out["problems"].append({"idx": idx, "case": case, "problems": p})
            # write progressively so that a sanitizer abort still tells how far we got
            if idx % 2000 == 0:
                with open(out_path, "w") as g:
                    json.dump(dict(out, partial=True, last=idx), g)
    with open(out_path, "w") as g:
        json.dump(out, g)


if __name__ == "__main__":
    main()

"""Replay of connected-pixel cases into the real kernels (normal or sanitizer build).

A case is a dict  {"ns","nf","tern":[0/1/2 per pixel, row-major],"con8":0/1,"labels": expected dense labels
(for the *above* pixels, canonical numbering), "np": n}.  tern: 0 = absent from the sparse list,
1 = listed but not strictly above threshold, 2 = above.  Dense routes see tern==2 as above.
Optional "zpi","zpj" (SparseCP.tla's ZPI, ZPJ): the splat scratch is sized for a frame that many rows / columns larger.

The specification's image is binary / ternary; the harness chooses the numbers (covariant: the model depends on the
values only through "strictly above the threshold"), rotating with the case index through
  * thresholds: exact in float32 (0, 10, -3.5, 1000) and NOT exact (0.1, -1/3, 1e-3, 16777217: the kernels' parameter is a
    float32, so the caller's number arrives rounded; "above" means above the rounded threshold),
  * values of the not-above pixels: equal to the (rounded) threshold, one float32 below it, 1 below it,
  * values of the above pixels: one float32 above the threshold, 1 (or 0.5) above it,
  * labelimage.labelpeaks input dtype / memory layout: float32, float64 (the same values: exactly representable),
    uint8 / uint16 / int16 / int32 (own integer values and threshold), Fortran order, strided view,
  * sparseframe.sparse_connected_pixels: the classes of its arguments come from SparseCP.tla ("frame" cases carry
    targ / rec / names; for the other cases the 26 combinations rotate with the case index): the threshold argument
    None (documented default: the cut recorded in the frame's meta data) / exactly zero / negative / positive, as
    Python int / float, numpy float32 / float64 / int64 scalars, -0.0, given by keyword or by position; the recorded
    cut absent (no meta entry, an empty one, one without "threshold") / the same number / a number below / a number
    above the requested one, with listed pixels on both sides of both numbers; default array names or the names
    lima_segmenter.clean passes (data_name="f32", label_name="cp") on a frame whose "intensity" array is a decoy with
    the opposite classification and whose "intensity" meta threshold classifies nothing as above; the frame built by
    sparse_frame(...), from_data_mask, from_data_cut or read back through to_hdf_group / from_hdf_group.
    The expectation is the specification's labelling under the threshold REQUESTED, never the recorded one.
  * option arguments of cImageD11.connectedpixels: a case's `verbose` (ConnPix.tla, VERBS) is passed as it is (and set
    as labelimage.verbose for labelpeaks); verbose / con8 are given by position, by keyword or left to their defaults,
    "8-connected" is asked for as con8 = 1, 2, 8 or -1 (documented: 4-connected if con8 == 0).  The kernel's banner
    goes to a swallowed stdout (swallow_stdout: file descriptor 1 -> /dev/null around the replay loops).

  * entry points of the labelimage wrapper: every case's image goes through labelimage.labelpeaks AND through
    labelimage.peaksearch (the entry the peak search scripts use: astype, labelpeaks, measurepeaks), each time into a
    label buffer that holds POISON (= any content of an earlier frame); blim / npk are judged after each call.
  * SERIES on one labelimage object (LabelSeries.tla, run_series): a behaviour = the calls peaksearch / labelpeaks /
    mergelast on ONE object, frames without a pixel above the threshold (all below it, all EQUAL to it, all exactly 0)
    at every position; blim and npk are compared with the specification's labels after EVERY labelling call.  The
    threshold (the same for the series, or changing from call to call), the values, the input dtype (float32, float64,
    uint16, int32: peaksearch converts) and the state of a new object's buffers (zeros / POISON when the series never
    calls mergelast) rotate with the behaviour index.

Used in-process by props/c11.py and as a script under the ASan environment:
    python c11_replay.py <cases.jsonl> <out.json>
"""
import sys, os, json, io, contextlib
import numpy as np

POISON = -7
THRS = [0.0, 10.0, -3.5, 1000.0, 0.1, -1.0 / 3.0, 1e-3, 16777217.0]
NVARIANT = 416                    # idx values after which the (threshold, value, dtype, option, name) rotation has seen all
# sparseframe.sparse_connected_pixels: the numbers of SparseCP.tla's threshold classes (np.finfo(float32).min is what
# sandbox/newpeaksearch3d.py passes)
FR_THR = {"zero": [0.0], "neg": [-3.5, -1.0 / 3.0, float(np.finfo(np.float32).min)],
          "pos": [10.0, 1000.0, 0.1, 1e-3, 16777217.0], "none": THRS}
COMBOS = [("none", "same", nm) for nm in ("default", "named")] + \
         [(ta, rc, nm) for ta in ("zero", "neg", "pos") for rc in ("absent", "same", "below", "above")
          for nm in ("default", "named")]
# how the frame is made, rotating with the case index (the HDF5 round trip costs milliseconds: one call in 64)
BUILDERS = tuple("hdf" if i == 37 else ("sparse_frame", "from_data_mask", "from_data_cut")[i % 3] for i in range(64))
NOTES = {}                        # things met and not judged (constructors that do not give the frame asked for)
C8_TRUE = [1, 2, 8, -1]
LI_KINDS = ["float32", "float64", "uint16", "int32", "uint8", "int16", "fortran", "strided"]
INT_THR = [0, 10, 7, 1000]


_POOLS = {}


def f32_above_below(thr):
    """(t32, [values not strictly above], [values strictly above]) as float32, checked here without the kernels"""
    if thr not in _POOLS:
        _POOLS[thr] = _f32_above_below(thr)
    return _POOLS[thr]


def _f32_above_below(thr):
    with np.errstate(over="ignore"):
        return _f32_above_below_(thr)


def _f32_above_below_(thr):
    t32 = np.float32(thr)
    ninf, pinf = np.float32(-np.inf), np.float32(np.inf)
    lo = [t32, np.nextafter(t32, ninf), np.float32(t32 - np.float32(1.0))]
    hi1 = np.float32(t32 + np.float32(1.0))
    hih = np.float32(t32 + np.float32(0.5))
    up = np.nextafter(t32, pinf)
    hi = [up, hi1 if hi1 > t32 else up, hih if hih > t32 else up]
    assert all(x <= t32 for x in lo) and all(x > t32 for x in hi)
    return t32, np.array(lo, np.float32), np.array(hi, np.float32)


def dense_data(tern, ns, nf, thr, variant):
    """float32 image; every pixel picks its own representative of its class (rotating with pixel index and variant)"""
    t = np.array(tern).reshape(ns, nf)
    _, lo, hi = f32_above_below(thr)
    p = np.arange(ns * nf).reshape(ns, nf)
    v = variant // len(THRS)
    return np.where(t == 2, hi[(p + v) % 3], lo[(2 * p + v) % 3]).astype(np.float32)


def int_data(tern, ns, nf, variant, dtype):
    """integer image and integer threshold for the integer input dtypes of labelpeaks"""
    t = np.array(tern).reshape(ns, nf)
    thr = INT_THR[variant % 4]          # (variant % 8 selects the float threshold; the integer one follows it)
    if np.dtype(dtype) == np.uint8:
        thr = thr % 200
    p = np.arange(ns * nf).reshape(ns, nf)
    lo = thr - ((p + variant) % 2)
    if np.dtype(dtype).kind == "u":
        lo = np.maximum(lo, 0)
    hi = thr + 1 + ((p + variant // 4) % 2)
    return np.where(t == 2, hi, lo).astype(dtype), float(thr)


def li_input(kind, data32, tern, ns, nf, variant, thr):
    """the array handed to labelimage.labelpeaks and its threshold"""
    if kind == "float32":
        return data32, thr
    if kind == "float64":
        return data32.astype(np.float64), thr
    if kind == "fortran":
        return np.asfortranarray(data32), thr
    if kind == "strided":
        big = np.full((2 * ns, 3 * nf), np.float32(thr) + np.float32(7.0), np.float32)
        big[1::2, 2::3] = data32
        return big[1::2, 2::3], thr
    return int_data(tern, ns, nf, variant, getattr(np, kind))


def routes_for(case):
    return case.get("routes") or ["dense", "labelimage", "sparse", "splat", "sparseframe"]


def call_dense(cImageD11, data, lab, thr, verbose, con8, idx):
    """cImageD11.connectedpixels(data, labels, threshold, verbose=0, con8=1) with its option arguments written the
    idx-th way; returns (count, how it was called)"""
    c8 = C8_TRUE[(idx // 5) % len(C8_TRUE)] if con8 else 0
    shape = (idx // 3) % 3
    if shape == 0:
        return cImageD11.connectedpixels(data, lab, thr, verbose, c8), "threshold, %d, %d" % (verbose, c8)
    if shape == 1:
        return (cImageD11.connectedpixels(data, lab, thr, con8=c8, verbose=verbose),
                "threshold, con8=%d, verbose=%d" % (c8, verbose))
    kw = {}
    if verbose != 0:
        kw["verbose"] = verbose
    if c8 != 1:
        kw["con8"] = c8
    return (cImageD11.connectedpixels(data, lab, thr, **kw),
            "threshold" + "".join(", %s=%d" % (k, kw[k]) for k in sorted(kw)))


def run_labelpeaks(labelimage, data, thr, shape, reuse=None, verbose=0):
    """reuse: dict shape -> labelimage object used before (its blim then holds the labels of the previous image, as in
    a peak search over a series of frames); a fresh object gets a poisoned blim"""
    li = reuse.get(tuple(shape)) if reuse is not None else None
    if li is None:
        with contextlib.redirect_stdout(io.StringIO()):
            li = labelimage.labelimage(tuple(shape), fileout=io.StringIO(), sptfile=io.StringIO())
        li.blim[:] = POISON
        if reuse is not None:
            reuse[tuple(shape)] = li
    li.verbose = verbose
    li.labelpeaks(data, thr)
    return li.blim, li.npk


def new_labelimage(labelimage, shape, poison=True):
    """a labelimage object writing to nowhere; poison: both label buffers hold POISON (any earlier content)"""
    with contextlib.redirect_stdout(io.StringIO()):
        li = labelimage.labelimage(tuple(shape), fileout=io.StringIO(), sptfile=io.StringIO())
    if poison:
        li.blim[:] = POISON
    return li


SERIES_KINDS = ["float32", "float64", "uint16", "int32"]
THRS_NONNEG = [t for t in THRS if t >= 0]


def series_frame(code, kind, ns, nf, thr, dkind, variant):
    """(array handed to peaksearch / labelpeaks, threshold, boolean image of the pixels strictly above) for one frame of a
    series.  code: bit p = pixel p strictly above; kind: "mixed" (not-above pixels equal to / one float32 below / 1 below
    the threshold), "below" (all strictly below), "equal" (all equal to the threshold), "zero" (all exactly 0, thr >= 0).
    The classification is checked here in exact arithmetic (float32 / integers -> Python numbers), not by the kernels."""
    bits = np.array([(code >> p) & 1 for p in range(ns * nf)]).reshape(ns, nf)
    p = np.arange(ns * nf).reshape(ns, nf)
    if dkind in ("uint16", "int32"):
        t = INT_THR[variant % 4]
        if kind == "below" and (t == 0 and dkind == "uint16"):
            t = 7
        lo = {"mixed": t - ((p + variant) % 2) * (1 if t > 0 or dkind == "int32" else 0), "below": t - 1 - (p % 2) * (1 if t > 1 else 0),
              "equal": t + 0 * p, "zero": 0 * p}[kind]
        arr = np.where(bits == 1, t + 1 + ((p + variant // 4) % 2), lo).astype(getattr(np, dkind))
        t = float(t)
    else:
        t = thr
        t32, lo, hi = f32_above_below(t)
        v = variant // len(THRS)
        low = {"mixed": lo[(2 * p + v) % 3], "below": lo[1 + (p + v) % 2], "equal": np.full((ns, nf), t32), "zero": np.zeros((ns, nf), np.float32)}[kind]
        arr = np.where(bits == 1, hi[(p + v) % 3], low).astype(np.float32)
        if dkind == "float64":
            arr = arr.astype(np.float64)
    t32 = float(np.float32(t))
    vals = np.asarray(arr, np.float32).astype(np.float64)        # what the kernel receives (exact in float64)
    above = vals > t32
    ok = np.array_equal(above, bits == 1)
    if kind == "below":
        ok = ok and bool((vals < t32).all())
    if kind == "equal":
        ok = ok and bool((vals == t32).all())
    if kind == "zero":
        ok = ok and bool((vals == 0).all())
    if not ok:
        raise AssertionError("series_frame: frame %d/%s (%s, threshold %r) is not in its class" % (code, kind, dkind, t))
    return arr, t, above


def run_series(beh, mods, idx=0):
    """one behaviour of LabelSeries.tla on ONE labelimage object; blim / npk judged after every labelling call against
    the specification's labels.  Returns the list of problem strings (empty = conforms)."""
    cImageD11, labelimage, sparseframe = mods
    ns, nf = beh["ns"], beh["nf"]
    calls = beh["calls"]
    merges = any(c["op"] == "mergelast" for c in calls)
    zero = any(c.get("kind") == "zero" for c in calls)
    pool = THRS_NONNEG if zero else THRS
    percall = (idx // 2) % 2 == 1                     # the threshold changes from call to call
    # POISON in the buffers of a new object only when mergelast is never called (bloboverlaps indexes with the labels)
    li = new_labelimage(labelimage, (ns, nf), poison=(not merges and idx % 2 == 0))
    if not merges and idx % 4 == 0:
        li.lastbl[:] = POISON
    li.verbose = 0
    probs, k = [], 0
    said = "series on one labelimage object (%s)" % beh.get("mode", "?")
    for q, c in enumerate(calls):
        if c["op"] == "mergelast":
            li.mergelast()
            continue
        thr = pool[(idx + (k if percall else 0)) % len(pool)]
        dkind = SERIES_KINDS[(idx // 3 + k) % len(SERIES_KINDS)]
        arr, t, above = series_frame(c["code"], c["kind"], ns, nf, thr, dkind, idx + k)
        if c["op"] == "peaksearch":
            li.peaksearch(arr, t, float(k))
        else:
            li.labelpeaks(arr, t)
        k += 1
        exp = np.array(c["labels"], np.int32).reshape(ns, nf)
        what = None
        if int(li.npk) != int(c["n"]):
            what = "npk = %d, specification %d" % (int(li.npk), int(c["n"]))
        elif li.blim.shape != exp.shape or not np.array_equal(li.blim, exp):
            stale = int(((li.blim != 0) & ~above).sum())
            what = "blim %s differs from specification %s (%d pixels not above the threshold carry a label)" % (
                li.blim.ravel().tolist(), exp.ravel().tolist(), stale)
        if what:
            done = " ".join("%s(%s)" % (d["op"], "%d/%s" % (d["code"], d["kind"]) if "code" in d else "") for d in calls[:q + 1])
            probs.append("%s: after call %d = labelimage.%s(frame %d/%s as %s, threshold %r) of [%s]: %s" % (
                said, q + 1, c["op"], c["code"], c["kind"], dkind, t, done, what))
            break
    return probs


@contextlib.contextmanager
def swallow_stdout():
    """file descriptor 1 -> /dev/null (the C kernels' printf when verbose != 0) while Python's sys.stdout keeps writing to
    the real stdout (through a duplicate descriptor); both stdio layers are flushed on the way in and out, so nothing of
    the banner reaches the real stdout later"""
    import ctypes
    libc = ctypes.CDLL(None)
    sys.stdout.flush()
    libc.fflush(None)
    saved = os.dup(1)
    null = os.open(os.devnull, os.O_WRONLY)
    pyout, mine = sys.stdout, os.fdopen(os.dup(saved), "w")
    try:
        os.dup2(null, 1)
        sys.stdout = mine
        yield
    finally:
        sys.stdout = pyout
        try:
            mine.close()
        except Exception:
            pass
        libc.fflush(None)
        os.dup2(saved, 1)
        os.close(saved)
        os.close(null)


def as_type(x, q):
    """the number x as the q-th Python / numpy type a caller may hold it in (equal in value, or float32(x) which is what
    the kernel makes of it anyway)"""
    kinds = [float, np.float32, np.float64]
    if float(x) == int(x) and abs(x) < 2 ** 31:
        kinds += [int, np.int64]
    return kinds[q % len(kinds)](x)


ZEROS = [0, 0.0, -0.0, np.float32(0), np.float64(0), np.int64(0), np.float32(-0.0), np.int32(0)]


def frame_numbers(targ, rec, idx):
    """(stated threshold as a Python float, the object passed as `threshold`, the recorded cut or None): the classes are
    SparseCP.tla's, the numbers are chosen here; checked in exact arithmetic"""
    pool = FR_THR[targ]
    thr = pool[idx % len(pool)]
    t32, lo, hi = f32_above_below(thr)
    q = idx // 3
    if targ == "none":
        arg = None
    elif targ == "zero":
        arg = ZEROS[q % len(ZEROS)]
    else:
        arg = as_type(thr, q)
    if arg is not None and not (float(np.float32(arg)) == float(t32) and (float(arg) == 0.0) == (targ == "zero")):
        raise AssertionError("frame_numbers: argument %r is not the threshold %r" % (arg, thr))
    if rec == "absent":
        cut = None
    elif rec == "same":
        cut = as_type(thr, idx // 7)
    elif rec == "below":
        cut = float(lo[2]) if lo[2] < t32 else float(lo[1])
    else:
        cut = float(sorted(hi.tolist())[1])
    if cut is not None:
        c32 = float(np.float32(cut))
        if not {"same": c32 == float(t32), "below": c32 < float(t32), "above": c32 > float(t32)}[rec]:
            raise AssertionError("frame_numbers: recorded cut %r is not %s %r" % (cut, rec, thr))
    return thr, arg, cut


def build_frame(sparseframe, how, shape, listed, dimg, meta, ddecoy=None, dmeta=None):
    """a sparse frame holding the pixels `listed` of the dense image dimg as "intensity" (meta: its meta data dict or None
    = no entry), or - with a decoy - the decoy as "intensity" and dimg as "f32".  Returns (frame, how it was built)"""
    ns, nf = shape
    ii, jj = np.nonzero(listed)
    ii, jj = ii.astype(np.uint16), jj.astype(np.uint16)
    first = dimg if ddecoy is None else ddecoy
    fmeta = meta if ddecoy is None else dmeta
    fr = None
    if how in ("from_data_mask", "hdf"):
        fr = sparseframe.from_data_mask(listed.astype(np.int8), first, fmeta if fmeta is not None else {})
    elif how == "from_data_cut":
        # every listed pixel above the cut, every other pixel at or below it
        cut = np.float32(min(float(first.min()), 0.0) - 2.0)
        if np.isfinite(cut) and cut < first[listed].min():
            d = np.where(listed, first, cut - np.float32(listed.sum() % 2)).astype(np.float32)
            fr = sparseframe.from_data_cut(d, float(cut), fmeta if fmeta is not None else {})
    if fr is None:
        how = "sparse_frame"
        fr = sparseframe.sparse_frame(ii, jj, (ns, nf), itype=np.uint16, pixels={"intensity": first[listed]})
        if fmeta is not None:
            fr.meta["intensity"] = fmeta
    elif fmeta is None:
        fr.meta.pop("intensity", None)
    if ddecoy is not None:
        if meta is None:
            fr.set_pixels("f32", dimg[listed])
        else:
            fr.set_pixels("f32", dimg[listed], meta)
    if how == "hdf":
        import h5py
        with h5py.File("c11_replay_%d.h5" % os.getpid(), "w", driver="core", backing_store=False) as h:
            fr.to_hdf_group(h.create_group("f"))
            fr = sparseframe.from_hdf_group(h["f"])
    name = "intensity" if ddecoy is None else "f32"
    want = dimg[listed]
    ok = (fr.nnz == len(ii) and np.array_equal(fr.row, ii) and np.array_equal(fr.col, jj) and name in fr.pixels
          and np.array_equal(np.asarray(fr.pixels[name], np.float32), want)
          and ("threshold" in fr.meta.get(name, {})) == (meta is not None and "threshold" in meta))
    if ok and meta is not None and "threshold" in meta:
        ok = float(fr.meta[name]["threshold"]) == float(meta["threshold"])
    if not ok:
        # building / storing frames is C14's and X03's matter: fall back on the plain constructor, count it
        NOTES["frame builder %s did not give the frame asked for (not judged here)" % how] = \
            NOTES.get("frame builder %s did not give the frame asked for (not judged here)" % how, 0) + 1
        return build_frame(sparseframe, "sparse_frame", shape, listed, dimg, meta, ddecoy, dmeta)
    return fr, how


def run_frame(sparseframe, tern, ns, nf, combo, idx, probs, data=None, thr=None, builders=BUILDERS):
    """sparseframe.sparse_connected_pixels with the argument classes combo = (targ, rec, names) of SparseCP.tla.
    data / thr given (large images): the image and the stated threshold are the caller's, otherwise they are chosen here.
    returns (route name, labels or None, returned count)"""
    targ, rec, names = combo
    tern = np.asarray(tern).reshape(ns, nf)
    listed = tern > 0
    if data is None:
        thr, arg, cut = frame_numbers(targ, rec, idx)
        data = dense_data(tern.ravel().tolist(), ns, nf, thr, idx)
    else:
        t32, lo, hi = np.float32(thr), data[tern == 1], data[tern == 2]
        arg = None if targ == "none" else ZEROS[(idx // 3) % len(ZEROS)] if thr == 0 else as_type(thr, idx // 3)
        cut = None
        if rec == "same":
            cut = as_type(thr, idx // 7)
        elif rec == "below" and len(lo):          # a number that some not-above pixels exceed
            cut = float(np.sort(lo)[len(lo) // 2])
            cut = cut if cut < float(t32) else float(np.nextafter(t32, np.float32(-np.inf)))
        elif rec == "above" and len(hi):          # ... that some above pixels do not exceed
            cut = float(np.sort(hi)[len(hi) // 2])
        if cut is None:
            rec = "absent"
    t32 = np.float32(thr)
    # meta data of the labelled array; "absent": no entry / an empty entry / an entry without "threshold"
    if rec == "absent":
        meta = [None, {}, {"cut": 12345.0}][(idx // 5) % 3]
    else:
        meta = {"threshold": cut}
        if (idx // 5) % 2:
            meta["title"] = "c11"
    how = builders[(idx // 2) % len(builders)]
    route = "sparseframe.sparse_connected_pixels(threshold=%r%s) [recorded cut %s, frame by %%s]" % (
        arg, ", data_name='f32', label_name='cp'" if names == "named" else "",
        "none" if rec == "absent" else "%r (%s)" % (cut, rec))
    if names == "named":
        _, plo, phi = f32_above_below(thr)
        ddecoy = np.where(data > t32, plo[0], phi[1]).astype(np.float32)
        big = float(max(np.max(np.abs(data[np.isfinite(data)]), initial=0.0), abs(thr) if np.isfinite(thr) else 0.0, 1.0))
        dmeta = {"threshold": min(big * 2.0 + 4096.0, 3e38)}
        fr, how = build_frame(sparseframe, how, (ns, nf), listed, data, meta, ddecoy, dmeta)
        lname, dname = "cp", "f32"
        keep = {"intensity": fr.pixels["intensity"].copy(), "f32": fr.pixels["f32"].copy()}
    else:
        fr, how = build_frame(sparseframe, how, (ns, nf), listed, data, meta)
        lname, dname = "connectedpixels", "intensity"
        keep = {"intensity": fr.pixels["intensity"].copy()}
    route = route % how
    shape = (idx // 11) % 3                   # how the arguments are written
    if names == "named":
        if shape == 0:
            n = sparseframe.sparse_connected_pixels(fr, "cp", "f32", arg)
        elif shape == 1:
            n = sparseframe.sparse_connected_pixels(fr, threshold=arg, data_name="f32", label_name="cp")
        else:
            n = sparseframe.sparse_connected_pixels(fr, label_name="cp", data_name="f32", **({} if arg is None else {"threshold": arg}))
    else:
        if shape == 0:
            n = sparseframe.sparse_connected_pixels(fr, "connectedpixels", "intensity", arg)
        elif shape == 1:
            n = sparseframe.sparse_connected_pixels(fr, threshold=arg)
        else:
            n = sparseframe.sparse_connected_pixels(fr, **({} if arg is None else {"threshold": arg}))
    if names == "named" and "connectedpixels" in fr.pixels:
        probs.append("%s: wrote an array named 'connectedpixels'" % route)
    for k, a in keep.items():
        if k not in fr.pixels or not np.array_equal(fr.pixels[k], a):
            probs.append("%s: the data array %r of the frame was modified" % (route, k))
    if lname not in fr.pixels:
        probs.append("%s: no array named %r in the frame afterwards" % (route, lname))
        return route, None, n
    if fr.meta.get(lname, {}).get("nlabel") != n:
        probs.append("%s: nlabel meta differs from returned count" % route)
    return route, fr.pixels[lname], n


def run_splat(cImageD11, v, ii, jj, thr, ns, nf, zpi=0, zpj=0):
    lab = np.full(len(v), POISON, np.int32)
    ni, nj = ns + zpi, nf + zpj
    Z = np.full((ni + 2) * (nj + 2), POISON, np.int32)
    n = cImageD11.sparse_connectedpixels_splat(v, ii, jj, thr, lab, Z, ni, nj)
    return lab, n


def run_case(case, mods, idx=0):
    """returns list of problem strings (empty = conforms)"""
    cImageD11, labelimage, sparseframe = mods
    ns, nf = case["ns"], case["nf"]
    tern = np.array(case["tern"], dtype=int).reshape(ns, nf)
    con8 = int(case.get("con8", 1))
    exp_dense = np.array(case["labels_dense"], dtype=np.int32).reshape(ns, nf)
    n_exp = int(case["np"])
    thr = THRS[idx % len(THRS)]
    data = dense_data(case["tern"], ns, nf, thr, idx)
    probs = []
    routes = routes_for(case)

    def cmp(name, got, exp, n, say_thr=True):
        if int(n) != n_exp:
            probs.append("%s: returned count %d, specification %d" % (name, int(n), n_exp))
        if got is None:
            return
        if got.shape != exp.shape or not np.array_equal(got, exp):
            probs.append("%s: labels %s differ from specification %s%s" % (
                name, got.ravel().tolist(), exp.ravel().tolist(), " (threshold %r)" % thr if say_thr else ""))

    verbose = int(case.get("verbose", 0))
    if "dense" in routes:
        lab = np.full((ns, nf), POISON, np.int32)
        n, how = call_dense(cImageD11, data, lab, thr, verbose, con8, idx)
        cmp("connectedpixels(%s)" % how, lab, exp_dense, n)
    if "labelimage" in routes and con8 == 1:
        kind = LI_KINDS[(idx // len(THRS)) % len(LI_KINDS)]
        arr, t = li_input(kind, data, case["tern"], ns, nf, idx, thr)
        keep = {}
        blim, npk = run_labelpeaks(labelimage, arr, t, (ns, nf), reuse=keep, verbose=verbose)
        cmp("labelimage.labelpeaks(%s input%s)" % (kind, ", verbose = %d" % verbose if verbose else ""), blim, exp_dense, npk)
        # the same object again through peaksearch (the scripts' entry point), its buffer holding POISON once more
        li = keep[(ns, nf)]
        li.blim[:] = POISON
        li.npk = POISON
        li.peaksearch(arr, t, 0.0)
        cmp("labelimage.peaksearch(%s input%s)" % (kind, ", verbose = %d" % verbose if verbose else ""), li.blim, exp_dense, li.npk)
    if con8 == 1 and ("sparse" in routes or "splat" in routes or "sparseframe" in routes or "frame" in routes):
        listed = tern > 0
        ii, jj = np.nonzero(listed)
        ii = ii.astype(np.uint16)
        jj = jj.astype(np.uint16)
        v = data[listed].astype(np.float32)
        exp_sp = exp_dense[listed]
        nnz = len(v)
        if nnz == 0:
            routes = []     # the f2py wrappers reject zero-length lists; the library represents empty frames as None
        if "sparse" in routes:
            lab = np.full(nnz, POISON, np.int32)
            n = cImageD11.sparse_connectedpixels(v, ii, jj, thr, lab)
            cmp("sparse_connectedpixels", lab, exp_sp, n)
        if "splat" in routes:
            zpi, zpj = int(case.get("zpi", 0)), int(case.get("zpj", 0))
            lab, n = run_splat(cImageD11, v, ii, jj, thr, ns, nf, zpi, zpj)
            cmp("sparse_connectedpixels_splat(Z for %dx%d)" % (ns + zpi, nf + zpj), lab, exp_sp, n)
        if "sparseframe" in routes and nnz > 0:
            # a case of the kernels' enumeration: the wrapper's 26 argument classes rotate with the case index
            name, got, n = run_frame(sparseframe, case["tern"], ns, nf, COMBOS[(idx // len(THRS)) % len(COMBOS)], idx, probs)
            cmp(name, got, exp_sp, n, False)
        if "frame" in routes and nnz > 0:
            # a case of SparseCP.tla's wrapper enumeration: its own argument classes
            name, got, n = run_frame(sparseframe, case["tern"], ns, nf, (case["targ"], case["rec"], case["names"]), idx, probs)
            cmp(name, got, exp_sp, n, False)
    return probs


def load_mods():
    from ImageD11 import cImageD11, labelimage, sparseframe
    return cImageD11, labelimage, sparseframe


def main():
    cases_path, out_path = sys.argv[1], sys.argv[2]
    mods = load_mods()
    out = {"n": 0, "problems": []}
    with open(cases_path) as f, swallow_stdout():
        for idx, line in enumerate(f):
            case = json.loads(line)
            out["n"] += 1
            with open(out_path + ".cur", "w") as g:
                g.write(str(idx))
            try:
                p = run_series(case, mods, idx) if "calls" in case else run_case(case, mods, idx)
            except Exception as e:          # noqa
                p = ["exception %r" % (e,)]
            if p:
                out["problems"].append({"idx": idx, "case": case, "problems": p})
            # write progressively so that a sanitizer abort still tells how far we got
            if idx % 2000 == 0:
                with open(out_path, "w") as g:
                    json.dump(dict(out, partial=True, last=idx), g)
    out["notes"] = NOTES
    with open(out_path, "w") as g:
        json.dump(out, g)


if __name__ == "__main__":
    main()

"""X05 helpers: the real ImageD11.simplex.Simplex driven from the harness process (nothing in /repo is edited).

 * OBJ            the objectives of specs/Simplex.tla (operator F) written independently on Python floats; on the
                  dyadic points the model visits every operation is exact in binary64
 * run_real       one real run: testfunc wrapped to log every evaluation (point, value), the eight helper methods
                  wrapped on the instance to log the branch taken in each pass, and the `monitor` argument used as the
                  hook it is: an object whose truth value is taken once per pass (line 151), which snapshots
                  errors / simplex / guess / currenterror / highest / lowest / secondhighest and answers False
 * run_real_stdout the same call with monitor=1 and stdout captured (the progress lines are part of the interface)
 * expect         a TLC record (scaled integers) -> floats
 * judge          real run == model record, field by field; returns (failures, verdict on the returned pair)
 * trace_record   a real run with a float objective -> one ndjson record for specs/TraceSimplex.tla (values as dense
                  ranks, points as ids), plus the exact stopping decision computed with fractions
 * python-side definitions of the laws that TLC cannot evaluate on floats (non-degeneracy, geometry of the trial points)
"""
import io, math, contextlib, copy
from fractions import Fraction

CC = [3.0, -1.0, 2.0, -2.0, 1.0, -3.0]
WW = [1.0, 2.0, 3.0, 2.0, 1.0, 2.0]


def _sph(a):
    return sum((a[i] - CC[i]) * (a[i] - CC[i]) for i in range(len(a)))


def _ell(a):
    n = len(a)
    return sum(WW[i] * a[i] * a[i] for i in range(n)) + sum(a[i] * a[i + 1] for i in range(n - 1)) - 3 * a[0]


def _sad(a):
    return a[0] * a[0] - sum(a[i] * a[i] for i in range(1, len(a)))


def _abs(a):
    return sum(WW[i] * abs(a[i] - CC[i]) for i in range(len(a)))


def _cheb(a):
    return max(abs(a[i] - CC[i]) for i in range(len(a)))


def _flat(a):
    return 5.0


def _plat(a):
    return float(sum(1 for i in range(len(a)) if a[i] > CC[i]))


def _nabs(a):
    return -sum(abs(x) for x in a)


def _lin(a):
    return sum(WW[i] * a[i] for i in range(len(a)))


OBJ = {"sph": _sph, "ell": _ell, "sad": _sad, "abs": _abs, "cheb": _cheb, "flat": _flat, "plat": _plat, "nabs": _nabs,
       "lin": _lin}

METHODS = ["reflect_simplex", "expand_simplex", "contract_simplex", "multiple_contract_simplex",
           "accept_reflected_point", "accept_expanded_point", "accept_contracted_point", "calculate_errors_at_vertices"]

# the method calls each action of Simplex.tla stands for
ACT_CALLS = {"ReflectAccept": ["reflect_simplex", "accept_reflected_point"], "ReflectReject": ["reflect_simplex"],
             "Keep": [], "ExpandAccept": ["expand_simplex", "accept_expanded_point"], "ExpandReject": ["expand_simplex"],
             "ContractAccept": ["contract_simplex", "accept_contracted_point"],
             "MultiContract": ["contract_simplex", "multiple_contract_simplex", "calculate_errors_at_vertices"]}


class Monitor(object):
    """truth value taken once per pass by `if monitor:`; records what the pass sees; never prints"""

    def __init__(self):
        self.s = None
        self.snaps = []

    def __bool__(self):
        s = self.s
        self.snaps.append({"hi": s.highest, "lo": s.lowest, "sh": s.secondhighest, "E": list(s.errors),
                           "S": [list(v) for v in s.simplex], "G": list(s.guess), "cur": s.currenterror})
        self.on_pass()
        return False

    __nonzero__ = __bool__

    def on_pass(self):
        pass


def eps_float(e):
    if e["kind"] == "neg":
        return -1.0
    if e["kind"] == "zero":
        return 0.0
    return float(e["en"]) / float(2 ** e["ek"])


def run_real(simplex_mod, f, guess, inc, kk=None, eps=None, maxit=None, wrap=True):
    """kk = (kR, kE, kC) or None for the defaults (then the constructor is called as the callers do);
    eps / maxit None -> minimize() defaults."""
    evals, calls = [], []
    out = {"evals": evals, "calls": calls, "error": None}

    def tf(args):
        v = f(args)
        evals.append((list(args), v))
        return v
    g = list(guess)
    incs = list(inc)
    mon = Monitor()
    try:
        if kk is None:
            s = simplex_mod.Simplex(tf, g, incs)
        else:
            s = simplex_mod.Simplex(tf, g, incs, kR=kk[0], kE=kk[1], kC=kk[2])
        out["n_init_evals"] = len(evals)
        mon.s = s
        if wrap:
            cur = []
            calls.append(cur)       # calls made before the first pass (none expected)

            def newpass():
                calls.append([])
            mon.on_pass = newpass
            for name in METHODS:
                def mk(name, orig):
                    def w(*a, **k):
                        calls[-1].append(name)
                        return orig(*a, **k)
                    return w
                setattr(s, name, mk(name, getattr(s, name)))
        kw = {"monitor": mon}
        if eps is not None:
            kw["epsilon"] = eps
        if maxit is not None:
            kw["maxiters"] = maxit
        r = s.minimize(**kw)
        out["ret"] = (list(r[0]), r[1], r[2])
        out["ret_is_guess"] = r[0] is g
    except Exception as e:        # noqa
        import traceback
        out["error"] = "%r %s" % (e, traceback.format_exc()[-600:])
        return out
    out["snaps"] = mon.snaps
    out["final"] = {"S": [list(v) for v in s.simplex], "E": list(s.errors), "G": list(s.guess), "cur": s.currenterror,
                    "lo": s.lowest, "hi": s.highest, "sh": s.secondhighest}
    out["guess_obj"] = list(g)
    out["inc_after"] = list(incs)
    return out


def run_real_stdout(simplex_mod, f, guess, inc, kk, eps, maxit):
    evals = []

    def tf(args):
        v = f(args)
        evals.append((list(args), v))
        return v
    buf = io.StringIO()
    with contextlib.redirect_stdout(buf):
        if kk is None:
            s = simplex_mod.Simplex(tf, list(guess), list(inc))
        else:
            s = simplex_mod.Simplex(tf, list(guess), list(inc), kR=kk[0], kE=kk[1], kC=kk[2])
        r = s.minimize(eps, maxit, 1)           # positional, as a caller may
    return buf.getvalue(), (list(r[0]), r[1], r[2]), evals


def monitor_text(snaps):
    """what lines 152-154 print for the passes seen"""
    out = ""
    for k, sn in enumerate(snaps):
        out += "\r" + 72 * " " + " "
        out += ("\rIteration = %d   Best = %f   Worst = %f" % (k, sn["E"][sn["lo"]], sn["E"][sn["hi"]])) + " "
    return out


# ------------------------------------------------------------------------------------------------
# TLC record -> floats

def expect(rec):
    D = float(2 ** rec["K"])
    V = D * D

    def pt(p):
        return [x / D for x in p]
    e = {"n": rec["n"], "oos": rec["oos"], "exit": rec["exit"], "steps": rec["steps"],
         "evals": [(pt(p), v / V) for p, v in rec["evals"]],
         "snaps": [{"hi": s["hi"], "lo": s["lo"], "sh": s["sh"], "E": [v / V for v in s["E"]],
                    "S": [pt(p) for p in s["S"]], "G": pt(s["G"]), "cur": s["cur"] / V} for s in rec["snaps"]],
         "calls": [], "guess": [x / 4.0 for x in rec["x0"]], "inc": [x / 4.0 for x in rec["inc"]],
         "kk": None if list(rec["kk"]) == [-1, 2, 2] else (rec["kk"][0], rec["kk"][1], rec["kk"][2] / 4.0),
         "eps": eps_float(rec["eps"]), "maxit": rec["maxit"], "fn": rec["fn"]}
    cur = None
    for a in rec["acts"]:
        if a == "Rank":
            cur = []
            e["calls"].append(cur)
        elif a in ACT_CALLS:
            cur.extend(ACT_CALLS[a])
    if not rec["oos"]:
        e["final"] = {"S": [pt(p) for p in rec["S"]], "E": [v / V for v in rec["E"]], "hi": rec["hi"], "sh": rec["sh"]}
        e["ret_asis"] = (pt(rec["ret"]["x"]), rec["ret"]["err"] / V, rec["ret"]["it"])
        e["ret_best"] = (pt(rec["best"]["x"]), rec["best"]["err"] / V, rec["ret"]["it"])
    return e


def fake_real(e):
    """the run record a real run would give if it behaved exactly as the expectation e says (used by the self-test and
    to pass the exact model's behaviours through TraceSimplex: independent of the code under test)"""
    if e["oos"]:
        raise ValueError("no complete behaviour")
    n = e["n"]
    ret = e["ret_asis"]
    S = [list(p) for p in e["final"]["S"]]
    return {"evals": [(list(p), v) for p, v in e["evals"]], "calls": [[]] + [list(c) for c in e["calls"]], "error": None,
            "n_init_evals": n + 1, "snaps": [dict(s) for s in e["snaps"]],
            "ret": (list(ret[0]), ret[1], ret[2]), "ret_is_guess": True,
            "final": {"S": S, "E": list(e["final"]["E"]), "G": list(ret[0]), "cur": ret[1], "lo": None,
                      "hi": e["final"]["hi"], "sh": e["final"]["sh"]},
            "guess_obj": list(ret[0]), "inc_after": list(e["inc"])}


def model_return_is_best(rec):
    """ReturnIsBest evaluated on the record of the model of the code as it is"""
    n = rec["n"]
    x, err = rec["ret"]["x"], rec["ret"]["err"]
    return err == min(rec["E"]) and any(rec["S"][v] == x and rec["E"][v] == err for v in range(n + 1))


def case_key(rec):
    return (rec["K"], rec["fn"], rec["n"], tuple(rec["x0"]), tuple(rec["inc"]), rec["eps"]["kind"], rec["eps"]["en"],
            rec["eps"]["ek"], rec["maxit"], tuple(rec["kk"]))


def t2_exact(errors):
    """T^2 of lines 137-147 in exact arithmetic on the stored floats"""
    n1 = len(errors)
    es = [Fraction(e) for e in errors]
    mean = sum(es) / n1
    return sum((e - mean) ** 2 for e in es) / (n1 - 1)


def decision_margin_ok(errors, eps):
    """the float decision T <= eps cannot differ from the exact one"""
    if any(math.isinf(e) or math.isnan(e) for e in errors):
        return True, None
    t2 = t2_exact(errors)
    if eps < 0:
        return True, False
    e2 = Fraction(eps) ** 2
    exact = t2 <= e2
    if t2 == 0 or (e2 == 0 and t2 > 0):
        # all values equal: the float computation gives exactly 0; not all equal: strictly positive
        return True, exact
    if e2 == 0:
        return True, exact
    return abs(t2 - e2) > Fraction(1, 10 ** 8) * e2, exact


def det_nonzero(S, n):
    """edge determinant of the vertices 0..n, exactly"""
    m = [[Fraction(S[v][x]) - Fraction(S[0][x]) for x in range(n)] for v in range(1, n + 1)]
    det = Fraction(1)
    for col in range(n):
        piv = None
        for r in range(col, n):
            if m[r][col] != 0:
                piv = r
                break
        if piv is None:
            return False
        if piv != col:
            m[col], m[piv] = m[piv], m[col]
            det = -det
        det *= m[col][col]
        for r in range(col + 1, n):
            fct = m[r][col] / m[col][col]
            for cc in range(col, n):
                m[r][cc] -= fct * m[col][cc]
    return det != 0


def judge(rec, real, exp=None):
    """-> (fails [(where, message)], retverdict in {"best", "asis", "other", None})"""
    e = exp or expect(rec)
    fails = []
    n = e["n"]
    if real.get("error"):
        return [("run", "the real code raised: %s" % real["error"].splitlines()[0])], None
    # evaluation log: the trace
    want = e["evals"]
    got = real["evals"]
    m = len(want)
    if (not e["oos"] and len(got) != m) or len(got) < m:
        fails.append(("evals", "%d evaluations of testfunc, model predicts %d" % (len(got), m)))
    for k in range(min(m, len(got))):
        if got[k][0] != want[k][0] or got[k][1] != want[k][1]:
            fails.append(("evals", "evaluation %d at %r -> %r, model: %r -> %r" % (k, got[k][0], got[k][1], want[k][0], want[k][1])))
            break
    # per pass: what the monitor saw, and the branch taken
    ws, gs = e["snaps"], real["snaps"]
    if (not e["oos"] and len(gs) != len(ws)) or len(gs) < len(ws):
        fails.append(("passes", "%d passes started, model predicts %d" % (len(gs), len(ws))))
    for k in range(min(len(ws), len(gs))):
        for fld in ("hi", "lo", "E", "S", "G", "cur"):
            if gs[k][fld] != ws[k][fld]:
                fails.append(("pass %d" % k, "%s = %r at the monitor test, model: %r" % (fld, gs[k][fld], ws[k][fld])))
                break
        else:
            # of secondhighest only the value is used by the code: the index may differ among tied vertices
            sh = gs[k]["sh"]
            if not (isinstance(sh, int) and 0 <= sh <= n) or gs[k]["E"][sh] != ws[k]["E"][ws[k]["sh"]]:
                fails.append(("pass %d" % k, "secondhighest = %r at the monitor test, model: %r (values %r)" % (sh, ws[k]["sh"], ws[k]["E"])))
    gc = real["calls"][1:]
    if real["calls"] and real["calls"][0]:
        fails.append(("calls", "helper methods called before the first pass: %r" % (real["calls"][0],)))
    ncomplete = e["steps"]
    for k in range(min(len(gc), ncomplete)):
        if gc[k] != e["calls"][k]:
            fails.append(("pass %d" % k, "branch taken %r, model: %r" % (gc[k], e["calls"][k])))
            break
    if not e["oos"]:
        if len(gc) != len(e["calls"]):
            fails.append(("calls", "%d passes with helper calls, model %d" % (len(gc), len(e["calls"]))))
        elif gc and gc[-1] != e["calls"][-1]:
            fails.append(("pass %d" % (len(gc) - 1), "branch taken %r, model: %r" % (gc[-1], e["calls"][-1])))
    # laws evaluated on the real data (definitions, not the model): non-degeneracy, stopping decision margin
    nz = all(x != 0 for x in e["inc"])
    for k, sn in enumerate(gs[:len(ws)] + ([real["final"]] if not e["oos"] else [])):
        if det_nonzero(sn["S"], n) != nz:
            fails.append(("law NonDegenerate", "simplex %s although %s increment is zero (state %d)" % (
                "non-degenerate" if not nz else "degenerate", "an" if not nz else "no", k)))
            break
    verdict = None
    if not e["oos"]:
        f = real["final"]
        for fld in ("S", "E", "hi"):
            if f[fld] != e["final"][fld]:
                fails.append(("final", "%s = %r after minimize, model: %r" % (fld, f[fld], e["final"][fld])))
        r = real["ret"]
        if r[2] != e["ret_asis"][2]:
            fails.append(("return", "iteration count %r, model: %r (exit %s after %d passes)" % (r[2], e["ret_asis"][2], e["exit"], e["steps"])))
        if list(real["guess_obj"]) != list(r[0]) or f["G"] != r[0] or f["cur"] != r[1]:
            fails.append(("return", "returned pair %r is not what is left in guess / currenterror %r" % ((r[0], r[1]), (f["G"], f["cur"]))))
        if real["inc_after"] != e["inc"]:
            fails.append(("return", "the increments list was modified: %r" % (real["inc_after"],)))
        # ReturnIsBest by its definition (any vertex carrying the smallest stored value; among tied vertices the
        # code as it is and the patched code may pick different ones)
        fe = e["final"]
        law = r[1] == min(fe["E"]) and any(fe["S"][v] == r[0] and fe["E"][v] == r[1] for v in range(n + 1))
        if law:
            verdict = "best"
        elif (r[0], r[1]) == (e["ret_asis"][0], e["ret_asis"][1]):
            verdict = "asis"
        else:
            verdict = "other"
    return fails, verdict


# ------------------------------------------------------------------------------------------------
# float objectives for the trace direction (code -> spec)

def rosen(a):
    return sum(100.0 * (a[i + 1] - a[i] * a[i]) ** 2 + (1 - a[i]) ** 2 for i in range(len(a) - 1))


def himmelblau(a):
    return (a[0] * a[0] + a[1] - 11) ** 2 + (a[0] + a[1] * a[1] - 7) ** 2


def powell(a):
    return (a[0] + 10 * a[1]) ** 2 + 5 * (a[2] - a[3]) ** 2 + (a[1] - 2 * a[2]) ** 4 + 10 * (a[0] - a[3]) ** 4


def abs15(a):
    return sum(abs(a[i] - CC[i]) ** 1.5 for i in range(len(a)))


def quant(a):
    return math.floor(4 * sum((a[i] - CC[i]) ** 2 for i in range(len(a)))) / 4.0


def ripple(a):
    return sum((x - 0.3) ** 2 for x in a) + 0.3 * sum(math.cos(7 * x) for x in a)


FLOAT_OBJ = {"rosen": rosen, "himmelblau": himmelblau, "powell": powell, "abs15": abs15, "quant": quant, "ripple": ripple,
             "sph": _sph, "flat": _flat, "plat": _plat, "lin": _lin}


def geometry_fails(run, n, kk):
    """the trial points of every pass recomputed from the simplex the pass started with (the documented
    constructions: centroid of all but the highest, reflection / expansion / contraction along the line through it,
    halving towards the lowest).  Same operand order as the code, so the comparison is exact."""
    kR, kE, kC = kk if kk is not None else (-1, 2, 0.5)
    fails = []
    evals = run["evals"]
    k = run["n_init_evals"]
    calls = run["calls"][1:]
    for p, sn in enumerate(run["snaps"]):
        if p >= len(calls) or not calls[p]:
            continue
        S = sn["S"]
        hi, lo = sn["hi"], sn["lo"]
        cen = []
        for x in range(n):
            s = 0.0
            for v in range(n + 1):
                if v != hi:
                    s = s + S[v][x]
            cen.append(s / n)
        ref = [kR * S[hi][x] + (1 - kR) * cen[x] for x in range(n)]
        want = [ref]
        c = calls[p]
        worst = ref if "accept_reflected_point" in c else S[hi]
        if "expand_simplex" in c:
            want.append([kE * ref[x] + (1 - kE) * cen[x] for x in range(n)])
        if "contract_simplex" in c:
            want.append([kC * worst[x] + (1 - kC) * cen[x] for x in range(n)])
        if "multiple_contract_simplex" in c:
            base = [list(v) for v in S[:n + 1]]
            base[hi] = list(worst)
            for v in range(n + 1):
                if v != lo:
                    want.append([0.5 * (base[v][x] + base[lo][x]) for x in range(n)])
        for w in want:
            if k >= len(evals) or evals[k][0] != w:
                fails.append(("pass %d" % p, "evaluation %d at %r, the construction gives %r" % (
                    k, evals[k][0] if k < len(evals) else None, w)))
                return fails
            k += 1
    if k != len(evals):
        fails.append(("evals", "%d evaluations, the logged branches account for %d" % (len(evals), k)))
    return fails


def trace_record(rid, run, n, maxit, eps, x0):
    """one ndjson record for TraceSimplex.tla.  Values -> dense ranks (order and equality preserving), points -> ids."""
    vals = sorted(set(v for _, v in run["evals"]))
    if any(isinstance(v, float) and math.isnan(v) for v in vals):
        raise ValueError("NaN objective value")
    rank = {v: i + 1 for i, v in enumerate(vals)}
    pids = {}
    fval = {}

    def pid(p):
        key = tuple(p)
        if key not in pids:
            pids[key] = len(pids) + 1
        return pids[key]
    x0id = pid(x0)
    for p, v in run["evals"]:
        fval.setdefault(pid(p), rank[v])
    ni = run["n_init_evals"]
    rec = {"id": rid, "n": n, "maxit": maxit, "x0": x0id,
           "init": {"p": [pid(p) for p, _ in run["evals"][:ni]], "v": [rank[v] for _, v in run["evals"][:ni]]},
           "passes": [], "nev": len(run["evals"])}
    k = ni
    calls = run["calls"][1:]
    margin_bad = 0
    for i, sn in enumerate(run["snaps"]):
        c = calls[i] if i < len(calls) else []
        nev = 0
        if "reflect_simplex" in c:
            nev += 1
        if "expand_simplex" in c or "contract_simplex" in c:
            nev += 1
        if "calculate_errors_at_vertices" in c:
            nev += n
        ev = run["evals"][k:k + nev]
        k += nev
        ok, exact = decision_margin_ok(sn["E"], eps)
        conv = (len(c) == 0)
        if not ok:
            margin_bad += 1
            exact = conv
        if exact is None:
            exact = conv
        rec["passes"].append({"hi": sn["hi"], "lo": sn["lo"], "sh": sn["sh"], "E": [rank[v] for v in sn["E"]],
                              "P": [pid(p) for p in sn["S"][:n + 1]], "conv": conv, "convx": bool(exact),
                              "calls": c, "ev": [[pid(p), rank[v]] for p, v in ev]})
    f = run["final"]
    rec["fin"] = {"E": [rank[v] for v in f["E"]], "P": [pid(p) for p in f["S"][:n + 1]]}
    r = run["ret"]
    rp = pid(r[0])
    rec["ret"] = {"p": rp, "v": rank.get(r[1], 0), "it": r[2], "fv": fval.get(rp, 0)}
    rec["nev_used"] = k
    return rec, margin_bad

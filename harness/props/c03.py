"""C03 - reflection lists are complete, sound and correctly grouped into rings.

Specifications
  specs/HklWalk.tla     literal model of unitcell.gethkls (axis walk, HMAX = 200), the absence table
                        `outif`, peaks.sort(); the PROPERTY is stated separately (textbook centring
                        rules, brute force) - binding mode A, one JSON record per finished walk
  specs/TraceRings.tla  model of unitcell.makerings (+ the nearest-ring rule of
                        indexer.assigntorings); (a) exhaustive small-scope lemma "code rule => stated
                        partition property", (b) binding mode C: ndjson traces of the real ring tables

What is replayed into the real code, for every TLC record (form G, limit L, centring):
  unitcell.unitcell(cell, cen).gethkls(dsmax)      dsmax^2 = (L - 1/2)/scale  (half-integer margin)
        with uc.ds and uc.absent wrapped: the sequence of ds() calls and of absent() calls/results
        must be the walk model's (conformance), the returned list must be the brute-force set under
        the textbook rule, without duplicates, ascending, ds = sqrt(Q/scale) = |B.hkl| (property)
  second call (cache), uc.peaks / uc.limit state
  unitcell_from_parameters(pars).gethkls           (every 4th record)
  unitcell.makerings(dsmax - tol, tol)             tol below the smallest exact gap: rings = Q shells
  indexing.indexer(...).assigntorings()            ring table + ra / na   (every 8th record)
  cellfromstring("a b c al be ga cen").gethkls     (every 4th record)
  the same form realised as a LARGE cell           longest edge 30 A instead of shortest edge 4 A (every 4th record)
and, for seeded random float cells in the property's domain, makerings / assigntorings traces
validated by TLC against TraceRings (tolerances from 1e-6 to 2.5 x limit, the default tolerance,
several calls on one object).

NEAR-DEGENERATE float cells at every scale (c03_lib.near_cells): angles 1e-4 .. 0.05 degrees off 90 / 120 /
the rhombohedral angles, edges 1e-6 .. 1e-3 (relative) off each other, longest edge 20 .. 30 A (three in
five), 8 .. 15 A, 3 .. 6 A, exactly degenerate controls; every centring; routes unitcell /
unitcell_from_parameters / cellfromstring.  No integer form exists for them: the list (complete, sound,
no duplicates, ascending, ds = |B.hkl|) and the ring positions are judged against the harness' own
reciprocal metric (c03_lib.exact_gi: cell parameters -> direct metric -> adjugate / determinant) at a
tolerance of 1e-9 RELATIVE to d-star; membership outside a relative margin of 1e-9 around the limit.

OBJECT HISTORIES (specs/HklObject.tla, HklObject_q/_t.cfg): every history of three public calls
(gethkls / makerings, two or three limits) on ONE object, in which a call may be left by an EXCEPTION
(injected from the harness side at the first / middle / last call made by the body of gethkls or by the
grouping loop of makerings - sys.setprofile, no edit of the code; Exception, KeyboardInterrupt,
MemoryError in turn) or may be overlapped by a complete gethkls for another or the same limit (re-entrant
request = the loop still running in another thread).  Every call that COMPLETES must return the list /
ring table of its own arguments (exact brute force), the state unitcell.peaks / limit included.
HklObject_limitfirst.cfg (limit recorded before the list exists) is the documented non-theorem.

BIG instances (HklWalk SpecBig, HklWalk_big_q/_t.cfg; replayed by harness/c03_big.py in parallel
worker processes): forms and limits whose candidate box (2hmax+1)(2kmax+1)(2lmax+1) holds 1.2e5 .. 2.0e6
hkl - cubic, orthorhombic, long axis (an index reaches +-199 on each axis), hexagonal, monoclinic,
rhombohedral, triclinic; every centring; as a 30 A cell with a small limit or a 2-4 A cell with a large
limit.  TLC computes count / checksums / shell count of the brute-force set with exact integers; the
harness' vectorised numpy brute force must reproduce them and then judges the real list (complete,
sound, no duplicates, ascending, no (0,0,0), ds = sqrt(Q/scale) = |B.hkl|, peaks/limit state, second
call), the ring tables made from the cached list (tolerance below every gap: rings = Q shells; a
tolerance that merges shells: partition clauses + grouping rule; windows of whole rings validated by
TraceRings), smaller limits asked of the same object afterwards, and indexer.assigntorings.

Verdicts
  property failure explained by nothing        -> VIOLATION
  property failure explained by the walk model -> VIOLATION, or KNOWN-FINDING when
        known_findings.json lists  C03-gethkls-oblique-walk  (reflections the walk model never
        reaches on that form; real list == model list, trace included) /  C03-centring-A-rule
  a failure of a BIG worker process caused by the tree under test (exception inside ImageD11, unreadable
        list / ring table, crash by a signal while a case is replayed) -> VIOLATION with the case as replay object
  conformance-only differences where the property holds are reported in the evidence, never as a
  violation (a repaired tree follows the `box` model of HklWalk.tla instead of the walk).
"""
from __future__ import print_function
import os, sys, json, math, random, time
import numpy as np
import common
import c03_lib as L

PROP = "C03"
F_WALK = "C03-gethkls-oblique-walk"
F_TABLE = "C03-centring-A-rule"
WALK_ACTIONS = ["HEnter", "HExhaust", "KEnter", "KExhaust", "LHitPresent", "LHitAbsent", "LFlip", "LBreak",
                "LExhaust", "KNext", "KFlip", "KBreak", "HNext", "HFlip", "HBreak", "Sort", "Oracle"]
RING_ACTIONS = ["Begin", "First", "Join", "Open", "Close", "Assign", "End"]
OBJ_ACTIONS = ["CallHit", "CallMiss", "Nested", "Interrupt", "Finish", "Group"]
MAX_FILES_PER_CLASS = 2


# ----------------------------------------------------------------------------------------------
# TLC runs

def _cfg(name, table):
    """static cfg; for a tree whose table binds A to the A rule the same cfg with Outif <- OutifTextbook"""
    src = os.path.join(common.SPECS, "HklWalk_%s.cfg" % name)
    if table == "pinned":
        return src
    txt = open(src).read().replace("Outif <- OutifPinned", "Outif <- OutifTextbook")
    dst = os.path.join(common.scratch(), "HklWalk_%s_textbook.cfg" % name)
    with open(dst, "w") as f:
        f.write(txt)
    return dst


def _emit_run(chk, name, table, workers, coverage, cov_acc, timeout=1500, res=None):
    if res is None:
        res = common.run_tlc("HklWalk", _cfg(name, table), workers=workers, coverage=coverage, timeout=timeout)
    if res.violated:
        raise common.MachineryError("HklWalk_%s: model invariant %s violated (specification error)\n%s"
                                    % (name, res.violated, res.stdout[-1500:]))
    chk.add_tlc("HklWalk " + name, res)
    recs, bad = [], 0
    for s in res.printed:
        try:
            recs.append(json.loads(s))
        except ValueError:
            bad += 1
    if bad:
        res = common.run_tlc("HklWalk", _cfg(name, table), workers=1, coverage=False, timeout=timeout)
        recs = [json.loads(s) for s in res.printed]
    for a, (d, t) in res.coverage.items():
        cov_acc[a] = cov_acc.get(a, 0) + t
    return recs


def _first_state(res):
    """G, L, cen of a TLC counterexample"""
    if not res.trace:
        return None
    v = res.trace[0]["vars"]
    try:
        return {"g": list(common.parse_tla(v["G"])), "lim": int(v["L"]), "cen": common.parse_tla(v["cen"])}
    except Exception:
        return None


def detect_table(ucmod):
    """which rule does the tree bind to "A"?  (1,0,0) is absent under I, present under A)"""
    return "pinned" if ucmod.outif["A"](1, 0, 0) else "textbook"


# ----------------------------------------------------------------------------------------------
# one TLC record against the real code

class Tally(object):
    def __init__(self):
        self.classes = {}        # class label -> [count, [(size, what, caseobj)]]
        self.conf = {}           # conformance clause -> count (property held)
        self.algo = {}
        self.skipped = {}
        self.ring_traces = []    # dicts for TraceRings
        self.ring_params = {}    # tid -> parameters to re-run that trace
        self.ncases = 0

    def add(self, label, size, what, caseobj):
        c = self.classes.setdefault(label, [0, []])
        c[0] += 1
        c[1].append((size, what, caseobj))
        c[1].sort(key=lambda t: (t[0], json.dumps(t[2], sort_keys=True, default=str)))
        del c[1][MAX_FILES_PER_CLASS:]


class CodeRaised(Exception):
    """the code under test raised: a violation (never a machinery error)"""


def guarded(tally, label, caseobj, fn, *a, **kw):
    """run a piece of replay; an exception coming out of ImageD11 is recorded as a violation"""
    try:
        return fn(*a, **kw)
    except (common.MachineryError, AssertionError):
        raise
    except Exception as e:
        import traceback
        tb = traceback.extract_tb(sys.exc_info()[2])
        inside = [f for f in tb if "/ImageD11/" in f.filename]
        if not inside:
            raise
        tally.add("exception:" + label, 0, "%s raised %r at %s:%d" % (label, e, inside[-1].filename, inside[-1].lineno),
                  caseobj)
        raise CodeRaised(label)


def gethkls_case(chk, ucmod, rec, tally, via_parameters=False, via=None, mode="lo"):
    """observe + judge one record through gethkls; returns (verdict, observation, cell, scale, dsmax)"""
    tie, cap = bool(rec.get("tie")), bool(rec.get("cap"))
    cell, scale = L.cell_from_form(rec["g"], tie=tie, cap=cap, mode=mode)
    dsmax = L.dsmax_for(rec["lim"], scale, tie)
    if tie and not rec["tieaxial"]:
        return None, None, cell, scale, dsmax
    o = L.observe_gethkls(ucmod, cell, rec["cen"], dsmax, via_parameters=via_parameters, via=via)
    if tie and not L.tie_exact(rec, o, scale):
        return None, o, cell, scale, dsmax
    v = L.judge_gethkls(rec, o, scale)
    return v, o, cell, scale, dsmax


def account_gethkls(chk, rec, v, route, tally):
    """turn a verdict into tally entries / known findings"""
    tally.algo[v.algo] = tally.algo.get(v.algo, 0) + 1
    dom = rec.get("dom", False) or rec.get("tie", False)
    if not v.prop:
        for c in v.conf:
            tally.conf[c] = tally.conf.get(c, 0) + 1
        return "ok"
    if not dom:
        # outside the cells the property quantifies over (angles 55..125, edges 2..30): not judged
        tally.skipped["property failure outside the stated domain (conformance only)"] = \
            tally.skipped.get("property failure outside the stated domain (conformance only)", 0) + 1
        for c in v.conf:
            tally.conf[c] = tally.conf.get(c, 0) + 1
        return "outside"
    causes = set(v.cause) or {"unexplained"}
    covered = True
    for c in causes:
        fid = {"walk-loss": F_WALK, "centring-table": F_TABLE}.get(c)
        if fid is None or chk.finding(fid) is None:
            covered = False
    if covered and not v.conf and set(v.prop) <= {"incomplete", "unsound"}:
        for c in causes:
            if c == "walk-loss":
                chk.known_finding(F_WALK, "gethkls loses reflections the axis walk never reaches "
                                          "(real list = walk model's list)")
            else:
                chk.known_finding(F_TABLE, "centring A filtered with the I rule (real list = model's list)")
        return "known"
    label = "+".join(sorted(causes))
    what = ("gethkls[%s] cell=(%.4f %.4f %.4f %.3f %.3f %.3f) %s dsmax^2*scale=%s: %s; missing %s extra %s; "
            "cause=%s conformance_failed=%s"
            % (route, *L.cell_from_form(rec["g"], tie=bool(rec.get("tie")), mode=("hi" if route == "scale-hi" else "lo"))[0], rec["cen"], ("%d" if rec.get("tie") else "%d-1/2") % rec["lim"],
               ",".join(v.prop), v.missing[:6], v.extra[:6], label, v.conf))
    tally.add(label, len(rec["hits"]), what, {"kind": "gethkls", "route": route, "rec": rec})
    return "violation"


def rings_for_case(chk, ucmod, idxmod, rec, cell, scale, dsmax, tally, with_indexer, rng):
    """mode A ring check on a TLC record (tol below every exact gap) + trace for TraceRings"""
    tol = min(1e-3, L.exact_gap(rec["g"], scale, rec["lim"]) / 4.0)
    limit = dsmax - tol
    uc = ucmod.unitcell(cell, rec["cen"])
    uc.makerings(limit, tol)
    fails = L.judge_rings_exact(rec["g"], scale, uc, tol)
    params = {"kind": "rings", "cell": list(cell), "cen": rec["cen"], "limit": limit, "tol": tol,
              "route": "makerings", "g": rec["g"], "scale": [scale.numerator, scale.denominator]}
    if fails:
        tally.add("rings:" + fails[0], len(uc.peaks),
                  "makerings(limit=%r, tol=%r) on cell %s %s: %s" % (limit, tol, cell, rec["cen"], fails), params)
    tid = len(tally.ring_traces)
    try:
        tally.ring_traces.append(L.ring_trace(uc, tol, tid, "makerings"))
        tally.ring_params[tid] = params
    except L.Unmappable as e:
        tally.add("rings:unmappable", len(uc.peaks), "ring table cannot be mapped on the list: %s" % e, params)
    chk.traces += 1
    if with_indexer:
        indexer_route(chk, ucmod, idxmod, cell, rec["cen"], limit, tol, uc, tally, rng)


def indexer_route(chk, ucmod, idxmod, cell, cen, limit, tol, uc_ref, tally, rng):
    """indexer.assigntorings: ring table must be makerings' table; ra / na by TraceRings + numpy"""
    rds = list(uc_ref.ringds)
    gl = [limit]
    pick = rds if len(rds) <= 30 else rng.sample(rds, 30)
    for r in pick:
        for f in (0.0, 0.31, -0.27, 0.83, -0.77, 1.29, -1.41):
            x = r + f * tol
            if 0 < x < limit:
                gl.append(x)
    gl = np.array(gl)
    # keep only g-vectors whose ring decision is not within the quantisation margin
    keep = [i for i in range(len(gl)) if i == 0 or L.margins_ok([], tol, [gl[i]], rds)]
    if not L.margins_ok([], tol, [gl[0]], rds):
        gl[0] = limit            # kept anyway: it fixes the limit; judged below after the recomputation
    gl = gl[keep]
    dirs = np.array([[rng.gauss(0, 1) for _ in range(3)] for _ in gl])
    dirs /= np.sqrt((dirs ** 2).sum(axis=1))[:, None]
    gv = dirs * gl[:, None]
    uc = ucmod.unitcell(cell, cen)
    ind = idxmod.indexer(unitcell=uc, gv=gv, ds_tol=tol, wavelength=0.3)
    # the indexer recomputes |gv| (an ulp away from `limit`): the reference table is rebuilt with that value
    limit = float(np.amax(ind.ds))
    uc_ref = ucmod.unitcell(cell, cen)
    uc_ref.makerings(limit, tol)
    rds = list(uc_ref.ringds)
    params = {"kind": "rings", "cell": list(cell), "cen": cen, "limit": limit, "tol": tol,
              "route": "assigntorings", "gv": gv.tolist()}
    if not L.margins_ok([], tol, list(ind.ds), rds):
        tally.skipped["assigntorings: a g-vector within the quantisation margin of a decision"] = \
            tally.skipped.get("assigntorings: a g-vector within the quantisation margin of a decision", 0) + 1
        return
    ind.assigntorings()
    chk.traces += 1
    fails = []
    if [tuple(p[1]) for p in uc.peaks] != [tuple(p[1]) for p in uc_ref.peaks]:
        fails.append("list differs from makerings' list")
    if list(uc.ringds) != rds or any(uc.ringhkls[d] != uc_ref.ringhkls[d] for d in rds if d in uc.ringhkls):
        fails.append("ring table differs from makerings' table")
    ra = np.asarray(ind.ra)
    na = np.asarray(ind.na)
    if len(na) != len(uc.ringds) or any(int(na[j]) != int((ra == j).sum()) for j in range(len(na))):
        fails.append("na is not the count of ra")
    if fails:
        tally.add("assigntorings:" + fails[0], len(uc.peaks),
                  "indexer.assigntorings on cell %s %s ds_tol=%r: %s" % (cell, cen, tol, fails), params)
    tid = len(tally.ring_traces)
    try:
        tally.ring_traces.append(L.ring_trace(uc, tol, tid, "assigntorings", gds=list(ind.ds), ra=list(ra)))
        tally.ring_params[tid] = params
    except L.Unmappable as e:
        tally.add("rings:unmappable", len(uc.peaks), "ring table cannot be mapped on the list: %s" % e, params)


def history_route(chk, ucmod, recs, tally):
    """state anchor unitcell.peaks / limit: ONE unitcell object asked for several limits in turn
    (up, down, repeat) must answer each call like a fresh object does"""
    groups = {}
    for rec in recs:
        if rec.get("cap") or (rec.get("tie") and not rec["tieaxial"]):
            continue
        groups.setdefault((tuple(rec["g"]), rec["cen"], bool(rec.get("tie"))), []).append(rec)
    n = 0
    for (g, cen, tie), rs in sorted(groups.items()):
        if len(rs) < 2:
            continue
        n += 1
        if chk.tier != "thorough" and n % 3:
            continue
        cell, scale = L.cell_from_form(list(g), tie=tie)
        lims = sorted(r["lim"] for r in rs)
        seq = lims + lims[::-1][1:] + [lims[0]]
        fresh = {}
        for lim in lims:
            d = L.dsmax_for(lim, scale, tie)
            fresh[lim] = [tuple(p[1]) for p in ucmod.unitcell(cell, cen).gethkls(d)]
        uc = ucmod.unitcell(cell, cen)
        for lim in seq:
            d = L.dsmax_for(lim, scale, tie)
            got = [tuple(p[1]) for p in uc.gethkls(d)]
            chk.traces += 1
            if got != fresh[lim] or uc.limit != d or [tuple(p[1]) for p in uc.peaks] != got:
                tally.add("history:stale list", len(got),
                          "one unitcell(%s, %s) asked for limits %s in turn: the call with dsmax^2*scale=%s "
                          "returns %d entries, a fresh object %d" % (cell, cen, seq, lim, len(got), len(fresh[lim])),
                          {"kind": "history", "g": list(g), "cen": cen, "tie": tie, "lims": seq})
                break


# ----------------------------------------------------------------------------------------------
# near-degenerate float cells at every scale: d-star judged against the harness' own metric

def near_one(ucmod, cell, cen, dsmax, route, tol):
    """one near-degenerate case: list clauses (relative tolerance) + ring table; returns (fails, what, uc)"""
    via = {"unitcell": None, "parameters": "parameters", "string": "string"}[route]
    if via == "string":
        uc = ucmod.cellfromstring(" ".join(repr(float(x)) for x in cell) + " " + cen)
    elif via == "parameters":
        import c03_big as BG
        uc = BG.make_cell(ucmod, cell, cen, True)
    else:
        uc = ucmod.unitcell(cell, cen)
    peaks = uc.gethkls(dsmax)
    fails, det = L.judge_float_list(cell, cen, dsmax, peaks, uc.B)
    what = "%d listed, %d must be; %s missing %s extra %s" % (det.get("n_real", -1), det.get("n_must", -1),
                                                          det.get("ds", ""), det.get("missing", []), det.get("extra", []))
    if uc.limit != dsmax or (uc.peaks is not peaks and [list(p) for p in uc.peaks] != [list(p) for p in peaks]):
        fails.append("state(unitcell.peaks/limit)")
    if not fails and len(peaks):
        # rings on this list (the cached list when limit + tol == dsmax): partition clauses, grouping rule, and
        # every ring position is the d-star of its first member = |B.hkl| from the cell parameters
        import c03_big as BG
        limit = BG.split_limit(dsmax, tol)
        if limit is not None and limit > 0:
            uc.makerings(limit, tol)
            f2, det2 = L.judge_float_list(cell, cen, dsmax, uc.peaks, uc.B)
            rf, starts = L.judge_rings_np(uc, tol)
            if not rf and not f2:
                ex = det2["ex"][starts]
                rd = np.array(uc.ringds, float)
                if (np.abs(rd - ex) > 1e-9 * ex).any():
                    rf = ["ringds value"]
            if f2 or rf:
                fails += ["rings:" + x for x in (f2 + rf)]
                what += "; makerings(limit=%r, tol=%r): %s" % (limit, tol, f2 + rf)
    return fails, what, uc


def near_degenerate_cases(chk, ucmod, n, tally, rng):
    """instance family `near-degenerate cells at every scale` (value-dependent handling of ALMOST special
    metrics: thresholds on the metric that are absolute where they had to be relative)"""
    done = 0
    for i, (kind, cell) in enumerate(L.near_cells(rng, n)):
        cen = L.LETTERS[(i // 3 + i) % 7]
        if cen == "R" and kind not in ("hex-near", "rhomb-near"):
            cen = "P"
        a, b, c = cell[:3]
        ncand = rng.uniform(500, 2600)
        dsmax = (ncand / (8.0 * a * b * c)) ** (1.0 / 3.0) * rng.uniform(1.0, 1.6)
        route = ("unitcell", "unitcell", "parameters", "string")[i % 4]
        tol = (1e-3, dsmax * 10 ** rng.uniform(-4, -2), 10 ** rng.uniform(-5, -3))[i % 3]
        case = {"kind": "near", "cell": list(cell), "cen": cen, "dsmax": dsmax, "route": route, "tol": tol, "family": kind}
        fails, what, uc = near_one(ucmod, cell, cen, dsmax, route, tol)
        chk.traces += 1
        chk.case(("near", cell, cen, dsmax, route), nontrivial=len(uc.peaks) > 0)
        done += 1
        if fails:
            tally.add("near:" + fails[0], len(uc.peaks),
                      "gethkls[%s] on the %s cell (%r %r %r %r %r %r) %s dsmax=%r, judged against the reciprocal metric "
                      "computed from the cell parameters at a tolerance of 1e-9 relative to d*: %s; %s"
                      % ((route, kind) + tuple(cell) + (cen, dsmax, ",".join(fails), what)), case)
        elif len(uc.peaks) <= 160 and getattr(uc, "ringds", None) and L.margins_ok([p[0] for p in uc.peaks], tol):
            tid = len(tally.ring_traces)
            try:
                tally.ring_traces.append(L.ring_trace(uc, tol, tid, "makerings"))
                tally.ring_params[tid] = {"kind": "rings", "cell": list(cell), "cen": cen, "limit": uc.limit - tol, "tol": tol,
                                          "route": "makerings"}
                chk.traces += 1
            except L.Unmappable as e:
                tally.add("rings:unmappable", len(uc.peaks), "ring table cannot be mapped on the list: %s" % e, case)
    return done


# ----------------------------------------------------------------------------------------------
# object histories (specs/HklObject.tla): public calls that do not finish, re-entrant requests

HIST_INSTANCES = [   # (reciprocal form, centring, limits 1..3 as Q limits, realisation)
    ([1, 1, 1, 0, 0, 0], "I", [3, 5, 9], "lo"), ([2, 2, 1, 0, 0, 1], "P", [3, 6, 10], "hi"),
    ([3, 4, 5, 1, -1, 1], "F", [20, 28, 40], "lo"), ([2, 3, 4, 0, 1, 0], "C", [7, 11, 16], "hi"),
    ([2, 2, 2, 1, 1, 1], "R", [7, 10, 16], "lo"), ([1, 2, 3, 0, 0, 0], "B", [4, 7, 11], "hi"),
    ([4, 5, 6, -2, 1, -1], "P", [6, 9, 14], "lo")]


class HistInstance(object):
    def __init__(self, ucmod, k):
        import c03_big as BG
        self.k = k
        self.g, self.cen, self.lims, self.mode = HIST_INSTANCES[k]
        self.cell, self.scale = L.cell_from_form(self.g, mode=self.mode)
        self.brute = [None] + [L.brute_py(self.g, q, self.cen) for q in self.lims]
        self.tol = min(1e-3, L.exact_gap(self.g, self.scale, self.lims[-1]) / 4.0)
        self.d, self.limit = [None], [None]
        for q in self.lims:
            d0 = L.dsmax_for(q, self.scale, False)
            lim = BG.split_limit(d0, self.tol)
            self.limit.append(lim if lim is not None else d0 - self.tol)
            self.d.append(float(self.limit[-1] + self.tol))        # makerings(limit, tol) asks gethkls for exactly d
        self.ncalls = {}
        for x in (1, 2, 3):
            if not self.brute[x]:
                raise common.MachineryError("object histories: empty list for instance %d limit %d" % (k, x))
            _, n1, _ = L.profiled(lambda: ucmod.unitcell(self.cell, self.cen).gethkls(self.d[x]), "gethkls", -1, None)
            _, n2, _ = L.profiled(lambda: ucmod.unitcell(self.cell, self.cen).makerings(self.limit[x], self.tol), "makerings", -1, None)
            self.ncalls[("x1", x)] = self.ncalls[("n", x)] = n1
            self.ncalls[("x2", x)] = n2

    def judge_list(self, peaks, x):
        fails = []
        real = [tuple(int(v) for v in p[1]) for p in peaks]
        if set(real) != self.brute[x]:
            fails.append("%d reflections of the limit missing, %d listed that are not below it"
                         % (len(self.brute[x] - set(real)), len(set(real) - self.brute[x])))
        if len(set(real)) != len(real):
            fails.append("duplicates")
        qs = [L.Q(self.g, h) for h in real]
        if any(qs[i] > qs[i + 1] for i in range(len(qs) - 1)):
            fails.append("not ascending")
        if any(not L.close(p[0], math.sqrt(float(L.Fr(q) / self.scale))) for p, q in zip(peaks, qs)):
            fails.append("ds value")
        return fails


def history_one(ucmod, inst, hist, variant):
    """replay one history of HklObject.tla into ONE real unitcell object; returns a list of failures
    (every COMPLETED call must return the list / ring table of its own argument)"""
    uc = ucmod.unitcell(inst.cell, inst.cen)
    out = []
    for step, op in enumerate(hist):
        x, inj, y = op["x"], op["inj"], op["y"]
        nested = []
        n, action, body = -1, None, "gethkls"
        if inj in ("x1", "x2", "n"):
            body = "makerings" if inj == "x2" else "gethkls"
            N = inst.ncalls[(inj, x)]
            n = (1, (N + 1) // 2, N)[(variant + step) % 3]
            if inj == "n":
                def action(y=y):
                    nested.append(list(uc.gethkls(inst.d[y])))
            else:
                exc = (L.Injected, KeyboardInterrupt, MemoryError)[(variant // 3 + step) % 3]

                def action(exc=exc):
                    raise exc("injected by the harness")
        if op["op"] == "rings":
            fn = lambda: uc.makerings(inst.limit[x], inst.tol)
        else:
            fn = lambda: uc.gethkls(inst.d[x])
        what = "call %d: %s(%s)%s" % (step + 1, "makerings" if op["op"] == "rings" else "gethkls", "limit %d" % x,
                                      {"": "", "x1": " with an exception at call %d made by gethkls" % n,
                                       "x2": " with an exception at call %d made by makerings" % n,
                                       "n": " with a complete gethkls(limit %d) at call %d made by gethkls" % (y, n)}[inj])
        try:
            r, cnt, fired = L.profiled(fn, body, n, action)
        except (L.Injected, KeyboardInterrupt, MemoryError) as e:
            if "injected by the harness" not in str(e):
                raise
            continue                    # the call did not finish: nothing to judge, the object is used again
        for pk in nested:
            f = inst.judge_list(pk, y)
            if f:
                out.append("%s: the nested call returns a list that is not the list of limit %d: %s" % (what, y, f))
        if op["op"] == "rings":
            f = inst.judge_list(uc.peaks, x)
            if not f:
                f = L.judge_rings_exact(inst.g, inst.scale, uc, inst.tol)
            if f:
                out.append("%s: list / ring table is not that of its arguments: %s" % (what, f))
        else:
            f = inst.judge_list(r, x)
            if uc.limit != inst.d[x] or (uc.peaks is not r and [list(p) for p in uc.peaks] != [list(p) for p in r]):
                f.append("state(unitcell.peaks/limit) is not the returned list / the asked limit")
            if f:
                out.append("%s: returned list is not that of its argument: %s" % (what, f))
        if out:
            break
    return out


def object_histories(chk, ucmod, hists, tally, thorough):
    """every history emitted by HklObject.tla on real objects (instances and injection points rotate)"""
    insts = {}
    s = common.seed()
    nint = 0
    for i, h in enumerate(hists):
        # quick tier: injections the model calls vacuous (the call is a cache hit: gethkls makes no call at which
        # anything could be injected) are replayed for every 6th such history only
        if not thorough and (i + s) % 6 and any(o["done"] and (o["inj"] == "x1" or (o["inj"] == "n" and o["nret"] == 0))
                                                for o in h["hist"]):
            continue
        k = (i + s) % len(HIST_INSTANCES)
        if k not in insts:
            insts[k] = HistInstance(ucmod, k)
        variant = (i // len(HIST_INSTANCES) + s) % 9
        hist = h["hist"]
        fails = history_one(ucmod, insts[k], hist, variant)
        chk.traces += 1
        nint += any(not o["done"] or o["inj"] == "n" for o in hist)
        chk.case(("objhist", i, k, variant), nontrivial=any(not o["done"] or o["inj"] == "n" for o in hist))
        if fails:
            inst = insts[k]
            tally.add("object-history:" + ("after an interrupted call" if any(not o["done"] for o in hist) else
                                           "re-entrant call" if any(o["inj"] == "n" for o in hist) else "plain"),
                      # (a wrong list is the better witness than a wrong state: it is kept first)
                      (0 if "reflections of the limit" in fails[0] else 1) + sum(o["inj"] == "n" for o in hist),
                      "ONE unitcell(%s, %s) object, limits 1..3 = d* %s: %s   [history %s]"
                      % (inst.cell, inst.cen, inst.d[1:], fails[0],
                         " ; ".join("%s(%d)%s%s" % (o["op"], o["x"], "/" + o["inj"] if o["inj"] else "", "(%d)" % o["y"] if o["inj"] == "n" else "")
                                    for o in hist)),
                      {"kind": "objhist", "instance": k, "variant": variant, "hist": hist})
    return nint


# ----------------------------------------------------------------------------------------------
# BIG instances (HklWalk SpecBig): replayed by c03_big.py in parallel worker processes

def big_jobs(recs, thorough, table):
    """one job per (record, realisation); options rotate with the seed"""
    s = common.seed()
    jobs = []
    for i, rec in enumerate(sorted(recs, key=lambda r: (r["nbox"], r["g"], r["cen"]))):
        if table == "textbook":
            rec = dict(rec, rule=rec["cen"])
        # thorough: both realisations up to 5e5 candidates, alternating above; quick: alternating
        for mode in (("lo", "hi") if thorough and rec["nbox"] <= 500000 else (("hi", "lo")[(i + s) % 2],)):
            opts = {"mode": mode, "seed": s,
                    "history": (i + s + (mode == "hi")) % 3 == 0 and rec["nbox"] <= 1100000,
                    "indexer": rec["nbox"] < (300000 if thorough else 200000) and (mode == "lo" or not thorough),
                    "via_parameters": (i + s) % 4 == 1, "windows": 3 if not thorough else 2}
            jobs.append({"rec": rec, "opts": opts})
    return jobs


def big_start(jobs, nproc):
    """start the worker processes (longest job first onto the least loaded shard)"""
    import subprocess
    shards = [[0.0, []] for _ in range(max(1, min(nproc, len(jobs))))]
    for job in sorted(jobs, key=lambda j: -j["rec"]["nbox"] * (1.5 if j["opts"]["history"] else 1.0)):
        sh = min(shards, key=lambda x: x[0])
        sh[0] += job["rec"]["nbox"] * (1.5 if job["opts"]["history"] else 1.0)
        sh[1].append(job)
    procs = []
    for k, (w, js) in enumerate(shards):
        fin = os.path.join(common.scratch(), "big_in_%d.json" % k)
        fout = os.path.join(common.scratch(), "big_out_%d.json" % k)
        with open(fin, "w") as f:
            json.dump(js, f)
        env = dict(os.environ, OMP_NUM_THREADS="1", OPENBLAS_NUM_THREADS="1", MKL_NUM_THREADS="1")
        hdir = os.path.dirname(os.path.abspath(L.__file__))
        p = subprocess.Popen([sys.executable, os.path.join(hdir, "c03_big.py"), fin, fout],
                             cwd=hdir, env=env, stdout=subprocess.PIPE, stderr=subprocess.STDOUT, text=True)
        procs.append((p, fout, js))
    import atexit
    atexit.register(lambda: [q.kill() for q, _, _ in procs if q.poll() is None])    # (a machinery error on the way)
    return procs


def big_collect(chk, procs, tally, timeout=3600):
    """merge the workers' verdicts; returns the number of cases"""
    n, secs, machinery = 0, 0.0, []
    for p, fout, js in procs:
        try:
            outtxt, _ = p.communicate(timeout=timeout)
        except Exception:
            p.kill()
            raise common.MachineryError("BIG worker timed out")
        results = []
        if os.path.exists(fout):
            with open(fout) as f:
                results = json.load(f)          # (written after every job: the finished ones of a crashed worker count)
        if p.returncode != 0 or len(results) != len(js):
            # the worker died.  A death caused by the tree under test - killed by a signal (segmentation fault, abort,
            # floating point exception ...) or a traceback through ImageD11 while a case was being replayed - is a
            # VIOLATION with that case as replay object; the cases behind it were not replayed (noted as machinery,
            # which run.py reports after the violation).  Anything else is a machinery error.
            cur = None
            try:
                cur = int(open(fout + ".current").read())
            except (OSError, ValueError):
                pass
            tail = (outtxt or "")[-1500:]
            fatal = p.returncode is not None and p.returncode < 0 and -p.returncode in (4, 6, 7, 8, 11)
            if cur is not None and cur == len(results) and cur < len(js) and (fatal or "/ImageD11/" in tail):
                job = js[cur]
                cell, _ = L.cell_from_form(job["rec"]["g"], mode=job["opts"].get("mode", "lo"))
                r = {"fails": [{"label": "crash", "size": 0,
                                "what": "BIG case %s: the worker process replaying it died (%s): %s"
                                        % ([job["rec"]["g"], job["rec"]["lim"], job["rec"]["cen"]],
                                           "signal %d" % -p.returncode if p.returncode < 0 else "exit code %s" % p.returncode, tail[-600:]),
                                "case": {"kind": "big", "rec": job["rec"], "opts": job["opts"], "cell": list(cell), "cen": job["rec"]["cen"]}}],
                     "ring_traces": [], "lists": 0, "ringtables": 0, "skipped": {}}
                results.append(r)
                if len(results) < len(js):
                    machinery.append("BIG worker died on case %d of %d: the cases behind it were not replayed" % (cur + 1, len(js)))
            else:
                machinery.append("BIG worker failed (rc %s) outside the replay of a case: %s" % (p.returncode, tail))
        for job, r in zip(js, results):
            if r.get("machinery"):
                machinery.append(r["machinery"])
                continue
            n += 1
            secs += r.get("secs", 0.0)
            rec = job["rec"]
            chk.case(("big", tuple(rec["g"]), rec["lim"], rec["cen"], job["opts"]["mode"]), nontrivial=r.get("n", 0) > 0)
            chk.traces += r["lists"] + r["ringtables"]
            for k, v in r["skipped"].items():
                tally.skipped["BIG: " + k] = tally.skipped.get("BIG: " + k, 0) + v
            for f in r["fails"]:
                if f["label"] == "centring-table" and chk.finding(F_TABLE) is not None:
                    chk.known_finding(F_TABLE, "centring A filtered with the I rule (real list = the set under the I rule)")
                    continue
                tally.add("big:" + f["label"], f["size"], f["what"], f["case"])
            for t in r["ring_traces"]:
                tid = len(tally.ring_traces)
                tr = dict(t["trace"], tid=tid)
                tally.ring_traces.append(tr)
                tally.ring_params[tid] = dict(t["params"], route=t["params"]["route"] + " (rings %d..%d of the table)" % tuple(tr["window"]))
                chk.traces += 1
            if len(chk.samples) < 4 and not r["fails"]:
                chk.sample({"big": True, "form": rec["g"], "L": rec["lim"], "centring": rec["cen"], "candidates": rec["nbox"],
                            "box": rec["box"], "n_real": r.get("n"), "n_brute": rec["nb"], "shells": rec["nsh"],
                            "scale": job["opts"]["mode"], "lists_judged": r["lists"], "ring_tables_judged": r["ringtables"]})
    chk.notes["big_instances"] = {"cases": n, "cpu_seconds_in_workers": round(secs, 1)}
    return n, machinery


def random_ring_cases(chk, ucmod, idxmod, n, tally, rng):
    """mode C driver: seeded float cells in the property's domain, arbitrary tolerances"""
    done = 0
    prev = None
    for i in range(n):
        kind = ("pseudo", "ortho", "tri", "pseudo", "tri")[i % 5]
        cell, vol = L.random_cell(rng, kind)
        cen = rng.choice(L.LETTERS)
        if cen == "R":
            cell = (cell[0], cell[0], cell[2], 90.0, 90.0, 120.0)
            vol = cell[0] * cell[0] * cell[2] * math.sin(math.radians(120))
        nref = rng.uniform(15, 220)
        limit = (nref / (4.19 * vol)) ** (1.0 / 3.0)
        tol = 10 ** rng.uniform(-4, -1.6)
        if kind == "pseudo":
            tol = limit * 10 ** rng.uniform(-3.3, -1.7)    # around the pseudo-symmetric splitting
        # the far ends of the tolerance range (value-dependent handling of tol): every 10th case each
        if i % 10 == 7:
            tol = 10 ** rng.uniform(-6, -4.3)               # far below every splitting: one ring per d-star
        elif i % 10 in (8, 9):
            f = rng.uniform(0.08, 0.6) if i % 10 == 8 else rng.uniform(1.0, 2.5)    # a few rings / a single ring
            limit = limit / (1.0 + f)                       # (the list goes up to limit + tol: keep it short)
            tol = limit * f
        for attempt in range(8):
            uc = ucmod.unitcell(cell, cen)
            try:
                uc.makerings(limit, tol)
            except IndexError:
                uc = None        # empty list: makerings needs at least one reflection (outside the property)
                break
            ds = [p[0] for p in uc.peaks]
            if L.margins_ok(ds, tol) and min(abs(limit + tol - d) for d in ds) > L.MARGIN:
                break
            tol *= 1.0137
            uc = None
        if uc is None:
            tally.skipped["random ring case without margin / empty"] = \
                tally.skipped.get("random ring case without margin / empty", 0) + 1
            continue
        params = {"kind": "rings", "cell": list(cell), "cen": cen, "limit": limit, "tol": tol, "route": "makerings"}
        tid = len(tally.ring_traces)
        try:
            tally.ring_traces.append(L.ring_trace(uc, tol, tid, "makerings"))
            tally.ring_params[tid] = params
        except L.Unmappable as e:
            tally.add("rings:unmappable", len(uc.peaks), "ring table cannot be mapped on the list: %s" % e, params)
            continue
        chk.traces += 1
        chk.case(("ring", tuple(cell), cen, limit, tol), nontrivial=len(uc.ringds) < len(uc.peaks))
        done += 1
        # ring histories on the SAME object: same limit with another tolerance, the same pair again, another limit
        # (a cached ring table must never survive a change of tolerance or limit)
        # the default tolerance (makerings(limit) without tol = 0.001) is one of the calls when the list stays short
        seq = [(limit, tol * 0.137), (limit, tol * 0.137), (limit, tol * 2.9), (limit * 0.93, tol * 2.9), (limit, tol)]
        if (limit + 0.001) ** 3 * 4.19 * vol < 400:
            seq.insert(2 + i % 3, (limit, None))
        for (lim2, tol2) in seq:
            try:
                if tol2 is None:
                    uc.makerings(lim2)
                    tol2 = 0.001
                else:
                    uc.makerings(lim2, tol2)
            except IndexError:
                break
            ds2 = [p[0] for p in uc.peaks]
            if not (L.margins_ok(ds2, tol2) and min(abs(lim2 + tol2 - d) for d in ds2) > L.MARGIN):
                continue
            params2 = {"kind": "rings", "cell": list(cell), "cen": cen, "limit": lim2, "tol": tol2,
                       "route": "makerings (after other makerings calls on the same object)",
                       "history": [[limit, tol], [lim2, tol2]]}
            tid2 = len(tally.ring_traces)
            try:
                tally.ring_traces.append(L.ring_trace(uc, tol2, tid2, "makerings"))
                tally.ring_params[tid2] = params2
                chk.traces += 1
                chk.case(("ringhist", tuple(cell), cen, lim2, tol2, tid2))
            except L.Unmappable as e:
                tally.add("rings:unmappable", len(uc.peaks), "ring table cannot be mapped on the list: %s" % e, params2)
        uc.makerings(limit, tol)
        # two objects alive (multi-phase work): the ring table and the list of the PREVIOUS case's object must be
        # untouched by everything that was done to this one (no state shared between unitcell objects)
        if prev is not None:
            puc, ptol, pparams, psnap = prev
            params3 = dict(pparams, route="makerings (another unitcell object made its rings since; this object was not touched)")
            tid3 = len(tally.ring_traces)
            try:
                tally.ring_traces.append(L.ring_trace(puc, ptol, tid3, "makerings"))
                tally.ring_params[tid3] = params3
                chk.traces += 1
                chk.case(("ringother", tid3))
                now = (list(puc.ringds), sorted((k, [tuple(int(y) for y in h) for h in v]) for k, v in puc.ringhkls.items()),
                       [(p[0], tuple(int(y) for y in p[1])) for p in puc.peaks])
                if now != psnap:
                    tally.add("rings:shared-state", 1, "ring table / reflection list of a unitcell object changed while "
                              "only ANOTHER unitcell object was used", params3)
            except L.Unmappable as e:
                tally.add("rings:unmappable", len(puc.peaks), "ring table of an untouched object cannot be mapped on its list "
                          "after another object made its rings: %s" % e, params3)
        prev = (uc, tol, params, (list(uc.ringds), sorted((k, [tuple(int(y) for y in h) for h in v]) for k, v in uc.ringhkls.items()),
                                  [(p[0], tuple(int(y) for y in p[1])) for p in uc.peaks]))
        if i % 3 == 0:
            indexer_route(chk, ucmod, idxmod, cell, cen, limit, tol, uc, tally, rng)
    return done


def validate_ring_traces(chk, tally, workers=1, name="TraceRings traces"):
    """TLC validates every recorded ring table; returns {tid: why}"""
    if not tally.ring_traces:
        return {}
    path = os.path.join(common.scratch(), "rings_%d.ndjson" % len(tally.ring_traces))
    with open(path, "w") as f:
        for t in tally.ring_traces:
            f.write(json.dumps(t) + "\n")
    res = common.run_tlc("TraceRings", os.path.join(common.SPECS, "TraceRings_trace.cfg"), workers=1,
                         env_extra={"TRACE_FILE": path}, timeout=1500, coverage=True, heap="8g")
    chk.add_tlc(name, res)
    if res.violated:
        raise common.MachineryError("TraceRings: %s violated" % res.violated)
    out = {}
    for s in res.printed:
        d = json.loads(s)
        out[d["tid"]] = d["why"]
    if len(out) != len(tally.ring_traces):
        raise common.MachineryError("TraceRings: %d verdicts for %d traces" % (len(out), len(tally.ring_traces)))
    return out, res


# ----------------------------------------------------------------------------------------------

def run(tier, replay=None):
    chk = common.Check(PROP, tier)
    shadow = common.build_shadow("normal")
    common.use_shadow(shadow)
    import logging
    logging.disable(logging.CRITICAL)
    from ImageD11 import unitcell as ucmod, indexing as idxmod
    idxmod.loglevel = 3          # indexing.py prints its own "info:" lines to stdout
    if replay:
        return do_replay(chk, replay, ucmod, idxmod)
    # replay files of earlier runs of this property would be mistaken for this run's
    import glob
    for f in glob.glob(os.path.join(common.VERIF, "replay", PROP, "violation_*.json")):
        os.unlink(f)
    rng = random.Random(common.seed() * 7919 + 3)
    _T00 = time.time()

    def _mark(what):
        if os.environ.get("C03_TIMING"):
            sys.stderr.write("[c03 timing] %-28s %.1fs\n" % (what, time.time() - _T00))
    table = detect_table(ucmod)
    chk.notes["absence_table_model"] = "OutifPinned (A -> I rule)" if table == "pinned" else "OutifTextbook"
    thorough = tier == "thorough"
    cov = {}
    tally = Tally()

    # ---- TLC: walk model on every instance, one record per finished walk.  All TLC runs of this
    # check are started together (the big family gets most of the workers).
    names = (["thorough"] if thorough else ["quick"]) + ["named", "tie", "cap"]
    common.scratch()
    from concurrent.futures import ThreadPoolExecutor
    pool = ThreadPoolExecutor(max_workers=8)
    fut = {}
    bigname = "big_t" if thorough else "big_q"
    # (timeouts are generous: the box is shared and at times loaded ten times over)
    fut["big"] = pool.submit(common.run_tlc, "HklWalk", _cfg(bigname, table), workers=(6 if thorough else 4),
                             timeout=(3600 if thorough else 1500))
    for nm in names:
        fut[nm] = pool.submit(common.run_tlc, "HklWalk", _cfg(nm, table), workers=(10 if nm == names[0] else 2),
                              coverage=thorough, timeout=(3600 if thorough else 1500))
    fut["prop"] = pool.submit(common.run_tlc, "HklWalk", _cfg("prop", table), workers=2, timeout=600)
    fut["enum"] = pool.submit(common.run_tlc, "TraceRings", os.path.join(common.SPECS, "TraceRings_enum.cfg"),
                              workers=2, timeout=600, coverage=thorough)
    fut["obj"] = pool.submit(common.run_tlc, "HklObject", os.path.join(common.SPECS, "HklObject_%s.cfg" % ("t" if thorough else "q")),
                             workers=2, timeout=900, coverage=True)
    fut["objnon"] = pool.submit(common.run_tlc, "HklObject", os.path.join(common.SPECS, "HklObject_limitfirst.cfg"),
                                workers=1, timeout=600)
    if thorough:
        fut["orth"] = pool.submit(common.run_tlc, "HklWalk", os.path.join(common.SPECS, "HklWalk_orth.cfg"),
                                  workers=4, timeout=1200)
    # BIG instances: the worker processes start as soon as their TLC run is through and run beside everything else
    def _big_launch():
        res = fut["big"].result()
        recs_ = []
        for s_ in res.printed:
            try:
                recs_.append(json.loads(s_))
            except ValueError:
                return res, None, []
        if res.violated or res.error or not recs_ or any(not r.get("big") for r in recs_):
            return res, None, []
        _mark("BIG TLC run done")
        return res, recs_, big_start(big_jobs(recs_, thorough, table), 8 if thorough else 5)
    fut["biglaunch"] = pool.submit(_big_launch)
    recs = []
    for nm in names:
        r = _emit_run(chk, nm, table, workers=16, coverage=thorough, cov_acc=cov, res=fut[nm].result())
        for x in r:
            x["cfg"] = nm
        recs += r
    if thorough:
        for a in WALK_ACTIONS:
            if cov.get(a, 0) == 0:
                raise common.MachineryError("vacuity: HklWalk action %s never taken" % a)
        chk.notes["action_coverage"] = cov

    # ---- TLC: the PROPERTY on the model of the walk (design-level counterexample)
    res = fut["prop"].result()
    chk.add_tlc("HklWalk prop (PropertyHolds on the walk model)", res)
    cex = _first_state(res) if res.violated else None
    chk.notes["tlc_property_on_walk_model"] = {"violated": res.violated, "counterexample": cex}
    # ---- TLC: ring lemma (code rule => stated partition property), exhaustive small scope
    res2 = fut["enum"].result()
    if res2.violated:
        raise common.MachineryError("TraceRings lemma violated: %s\n%s" % (res2.violated, res2.stdout[-1500:]))
    chk.add_tlc("TraceRings enum (lemma)", res2)
    if thorough:
        res3 = fut["orth"].result()
        if res3.violated:
            raise common.MachineryError("HklWalk_orth theorem violated: %s" % res3.violated)
        chk.add_tlc("HklWalk orth (walk complete on right-angled cells a<=b)", res3)

    _mark("TLC runs collected")
    # ---- replay every record
    seen_brute = {}
    cex_status = None
    for n, rec in enumerate(recs):
        key = (tuple(rec["g"]), rec["lim"], rec["cen"], bool(rec.get("tie")))
        try:
            v, o, cell, scale, dsmax = guarded(tally, "gethkls", {"kind": "gethkls", "route": "gethkls", "rec": rec},
                                               gethkls_case, chk, ucmod, rec, tally)
        except CodeRaised:
            continue
        if v is None:
            why = "TIE case with off-axis points on the limit (float noise decides)" if o is None \
                else "TIE case: reciprocal metric not exact in this build"
            tally.skipped[why] = tally.skipped.get(why, 0) + 1
            continue
        chk.traces += 1
        chk.case(key, nontrivial=len(rec["hits"]) > 0)
        if not rec.get("cap"):
            # independent re-derivation of the brute-force set over a fixed larger cube
            if L.brute_py(rec["g"], rec["lim"], rec["cen"]) != v.brute or len(v.brute) != rec["nb"]:
                raise common.MachineryError("specification's brute-force set disagrees with the harness' for %s" % (key,))
        st = account_gethkls(chk, rec, v, "gethkls", tally)
        if cex and rec["g"] == cex["g"] and rec["lim"] == cex["lim"] and rec["cen"] == cex["cen"]:
            cex_status = st
        if len(chk.samples) < 3 and rec["cfg"] != "cap" and len(rec["hits"]) > 3:
            chk.sample({"form": rec["g"], "L": rec["lim"], "centring": rec["cen"], "cell": cell, "dsmax": dsmax,
                        "n_model": len(rec["srt"]), "n_real": len(o.peaks), "n_brute": rec["nb"],
                        "ds_calls": len(o.ds_calls), "algo": v.algo, "property_failed": v.prop,
                        "conformance_failed": v.conf})
        if rec.get("cap") or rec.get("tie"):
            continue
        # other entry points / another realisation of the same integer problem, every 4th record each:
        #   unitcell_from_parameters ; cellfromstring ; the same form as a LARGE cell (longest edge 30 A)
        alt = {0: ("unitcell_from_parameters", "parameters", dict(via="parameters")),
               1: ("scale hi (longest edge 30 A)", "scale-hi", dict(mode="hi")),
               2: ("cellfromstring", "string", dict(via="string"))}.get(n % 4)
        if alt is not None:
            label, route, kw = alt
            try:
                v2, o2, cell2, _, d2 = guarded(tally, label, {"kind": "gethkls", "route": route, "rec": rec},
                                               gethkls_case, chk, ucmod, rec, tally, **kw)
            except CodeRaised:
                continue
            chk.traces += 1
            same = [p[1] for p in o2.peaks] == [p[1] for p in o.peaks] if "mode" not in kw else \
                sorted(p[1] for p in o2.peaks) == sorted(p[1] for p in o.peaks)   # (equal-Q order is float noise)
            if "mode" in kw and v2.prop == v.prop and same and v2.conf != v.conf:
                # another realisation, property holds, only the model conformance differs: evidence, not a violation
                for c in v2.conf:
                    tally.conf["scale hi: " + c] = tally.conf.get("scale hi: " + c, 0) + 1
            elif v2.prop != v.prop or v2.conf != v.conf or not same:
                tally.add("route:" + label, len(rec["hits"]),
                          "route %s: cell %s %s dsmax=%r: gethkls fails %s / %s (%d entries), unitcell(...).gethkls "
                          "on the 4 A realisation %s / %s (%d entries), instance %s"
                          % (label, cell2, rec["cen"], d2, v2.prop, v2.conf, len(o2.peaks), v.prop, v.conf, len(o.peaks), key),
                          {"kind": "gethkls", "route": route, "rec": rec})
        if len(o.peaks) > 0 and (thorough or n % 2 == 0):
            try:
                guarded(tally, "makerings/assigntorings", {"kind": "gethkls", "route": "gethkls", "rec": rec},
                        rings_for_case, chk, ucmod, idxmod, rec, cell, scale, dsmax, tally,
                        with_indexer=(n % 8 == 0), rng=rng)
            except CodeRaised:
                pass
    try:
        guarded(tally, "gethkls history", {"kind": "none"}, history_route, chk, ucmod, recs, tally)
    except CodeRaised:
        pass
    _mark("records replayed")
    if cex:
        chk.notes["tlc_property_on_walk_model"]["replayed_on_real_code"] = cex_status or "instance not in this tier's families"

    # ---- mode C: random float cells
    nrand = 1500 if thorough else 250
    try:
        guarded(tally, "random makerings/assigntorings", {"kind": "none"}, random_ring_cases,
                chk, ucmod, idxmod, nrand, tally, rng)
    except CodeRaised:
        pass
    _mark("random ring cases")
    # ---- near-degenerate float cells at every scale (d-star against the harness' own metric, relative tolerance)
    try:
        guarded(tally, "gethkls / makerings on a near-degenerate cell", {"kind": "none"}, near_degenerate_cases,
                chk, ucmod, 640 if thorough else 128, tally, rng)
    except CodeRaised:
        pass
    _mark("near-degenerate cells")
    # ---- object histories of HklObject.tla: interrupted and re-entrant public calls on one object
    ores = fut["obj"].result()
    if ores.violated:
        raise common.MachineryError("HklObject: invariant %s violated on the model of the code at HEAD (specification error)\n%s"
                                    % (ores.violated, ores.stdout[-1500:]))
    chk.add_tlc("HklObject histories", ores)
    for a in OBJ_ACTIONS:
        if ores.coverage and ores.coverage.get(a, (0, 0))[1] == 0:
            raise common.MachineryError("vacuity: HklObject action %s never taken" % a)
    nres = fut["objnon"].result()
    if nres.error or not nres.violated:
        raise common.MachineryError("HklObject_limitfirst: the documented non-theorem is not refuted by TLC (%s)" % (nres.error,))
    chk.notes["tlc_object_model"] = {"write order list-first (HEAD)": "RetInv CacheInv RingInv hold",
                                     "write order limit-first": "violates %s" % ",".join(nres.violated)}
    hists = [json.loads(x) for x in ores.printed]
    if not hists:
        raise common.MachineryError("HklObject emitted no histories")
    try:
        nint = guarded(tally, "public calls on one object (interrupted / re-entrant)", {"kind": "none"}, object_histories,
                       chk, ucmod, hists, tally, thorough)
        chk.notes["object_histories"] = {"replayed": len(hists), "with an interrupted or re-entrant call": nint}
    except CodeRaised:
        pass
    _mark("object histories")
    bres, bigrecs, bigprocs = fut["biglaunch"].result()
    if bigrecs is None:
        if bres.violated:
            raise common.MachineryError("HklWalk_%s: model invariant %s violated (specification error)\n%s"
                                        % (bigname, bres.violated, bres.stdout[-1500:]))
        chk.add_tlc("HklWalk " + bigname, bres)          # raises on a TLC error
        raise common.MachineryError("HklWalk_%s emitted no usable BIG records" % bigname)
    chk.add_tlc("HklWalk " + bigname, bres)
    if bres.states != 2 * len(bigrecs):
        raise common.MachineryError("HklWalk_%s: %d records for %d states" % (bigname, len(bigrecs), bres.states))
    nbig, big_machinery = big_collect(chk, bigprocs, tally)
    _mark("BIG workers collected")
    verdicts, rres = validate_ring_traces(chk, tally)
    _mark("TraceRings validation")
    rejected = sum(1 for w in verdicts.values() if w)
    for a in RING_ACTIONS:
        # (when real tables are rejected at `Begin` the later actions are legitimately not reached:
        #  the vacuity guard is for runs in which everything was accepted)
        if rejected == 0 and rres.coverage and rres.coverage.get(a, (0, 0))[1] == 0:
            raise common.MachineryError("vacuity: TraceRings action %s never taken" % a)
    nrej = 0
    for tid, why in sorted(verdicts.items()):
        if why:
            nrej += 1
            p = tally.ring_params[tid]
            tally.add("ringtrace:" + why, len(tally.ring_traces[tid]["ds"]),
                      "TraceRings rejects the %s table of cell %s %s limit=%r tol=%r: clause %s"
                      % (p["route"], p["cell"], p["cen"], p["limit"], p["tol"], why), p)
    chk.notes["ring_traces"] = {"validated": len(verdicts), "rejected": nrej}

    # ---- report
    for label, (count, smallest) in sorted(tally.classes.items()):
        for size, what, caseobj in smallest:
            chk.violation("[%s, %d cases in this run] %s" % (label, count, what), caseobj)
    if big_machinery:
        # (violations recorded above come first: run.py turns a later machinery error into exit 1)
        if not tally.classes:
            raise common.MachineryError("; ".join(big_machinery)[:3000])
        chk.notes["big_machinery"] = big_machinery
    chk.notes["violation_classes"] = {k: v[0] for k, v in tally.classes.items()}
    chk.notes["conformance_only_differences"] = tally.conf
    chk.notes["algorithm_followed"] = tally.algo
    chk.notes["not_judged"] = tally.skipped
    chk.rule = ("every (form, limit, centring) record emitted by TLC is replayed, BIG records (candidate boxes of "
                "1.2e5 .. 2.0e6 hkl) included; non-trivial = at least one "
                "reflection in range; ring traces non-trivial = some ring has more than one member; seeded near-degenerate "
                "float cells; every object history emitted by HklObject (quick: model-vacuous injections every 6th), "
                "non-trivial = a call is interrupted or overlapped")
    chk.exhaustive = True
    chk.assumptions = ["|h|,|k|,|l| < 200 (gethkls docstring): the CAP instance is conformance only",
                       "property judged on forms whose direct cell has angles in [55,125] deg",
                       "ring tolerance > 0; no logged ring comparison within 5e-7 of the tolerance"]
    if thorough:
        selftest(ucmod=ucmod, idxmod=idxmod)
    return chk.finish()


# ----------------------------------------------------------------------------------------------

def do_replay(chk, path, ucmod, idxmod):
    with open(path) as f:
        obj = json.load(f)
    case = obj["case"]
    tally = Tally()
    rng = random.Random(1)
    if case["kind"] == "gethkls":
        rec = dict(case["rec"])
        if detect_table(ucmod) == "textbook":
            rec["rule"] = rec["cen"]         # the saved record carries the table model of the tree it came from
        kw = {"parameters": dict(via="parameters"), "string": dict(via="string"), "scale-hi": dict(mode="hi")}.get(case.get("route"), {})
        v, o, cell, scale, dsmax = gethkls_case(chk, ucmod, rec, tally, **kw)
        chk.traces += 1
        chk.case(("replay", path))
        print("replay %s: cell=%s centring=%s dsmax=%r" % (path, cell, rec["cen"], dsmax))
        print("  real list (%d): %s" % (len(o.peaks), [p[1] for p in o.peaks][:40]))
        print("  property clauses failed: %s   missing=%s extra=%s" % (v.prop, v.missing, v.extra))
        print("  walk-model conformance failed: %s   algorithm followed: %s" % (v.conf, v.algo))
        account_gethkls(chk, rec, v, case.get("route", "gethkls"), tally)
    elif case["kind"] == "big":
        import c03_big as BG
        rec = dict(case["rec"])
        if detect_table(ucmod) == "textbook":
            rec["rule"] = rec["cen"]
        r = BG.big_case(ucmod, idxmod, rec, case["opts"])
        if r.get("machinery"):
            raise common.MachineryError(r["machinery"])
        chk.traces += r["lists"] + r["ringtables"]
        chk.case(("replay", path))
        print("replay %s: BIG instance form=%s L=%s centring=%s options=%s: %d reflections listed, %d lists and %d ring tables judged"
              % (path, rec["g"], rec["lim"], rec["cen"], case["opts"], r.get("n", -1), r["lists"], r["ringtables"]))
        for f in r["fails"]:
            if f["label"] == "centring-table" and chk.finding(F_TABLE) is not None:
                chk.known_finding(F_TABLE, "centring A filtered with the I rule (real list = the set under the I rule)")
                continue
            tally.add("big:" + f["label"], f["size"], f["what"], f["case"])
        for t in r["ring_traces"]:
            tid = len(tally.ring_traces)
            tally.ring_traces.append(dict(t["trace"], tid=tid))
            tally.ring_params[tid] = t["params"]
        if tally.ring_traces:
            verdicts, _ = validate_ring_traces(chk, tally)
            for tid, why in sorted(verdicts.items()):
                if why:
                    tally.add("ringtrace:" + why, len(tally.ring_traces[tid]["ds"]),
                              "TraceRings rejects rings %s of the table: clause %s" % (tally.ring_params[tid].get("window"), why),
                              tally.ring_params[tid])
    elif case["kind"] == "near":
        fails, what, uc = near_one(ucmod, tuple(case["cell"]), case["cen"], case["dsmax"], case["route"], case["tol"])
        chk.traces += 1
        chk.case(("replay", path))
        print("replay %s: near-degenerate cell %s %s dsmax=%r route %s: %d listed; failed clauses %s"
              % (path, case["cell"], case["cen"], case["dsmax"], case["route"], len(uc.peaks), fails))
        if fails:
            tally.add("near:" + fails[0], len(uc.peaks), "%s; %s" % (",".join(fails), what), case)
    elif case["kind"] == "objhist":
        inst = HistInstance(ucmod, case["instance"])
        fails = history_one(ucmod, inst, case["hist"], case["variant"])
        chk.traces += 1
        chk.case(("replay", path))
        print("replay %s: one unitcell(%s, %s) object, history %s: %s" % (path, inst.cell, inst.cen, case["hist"], fails or "every completed call returns the list of its argument"))
        if fails:
            tally.add("object-history", len(case["hist"]), fails[0], case)
    elif case["kind"] == "history":
        recs = [{"g": case["g"], "cen": case["cen"], "tie": case["tie"], "tieaxial": True, "lim": l}
                for l in sorted(set(case["lims"]))]
        chk.tier = "thorough"
        history_route(chk, ucmod, recs, tally)
    else:
        cell, cen, limit, tol = tuple(case["cell"]), case["cen"], case["limit"], case["tol"]
        uc = ucmod.unitcell(cell, cen)
        if case["route"] == "assigntorings":
            gv = np.array(case["gv"], float)
            ind = idxmod.indexer(unitcell=uc, gv=gv, ds_tol=tol, wavelength=0.3)
            ind.assigntorings()
            tr = L.ring_trace(uc, tol, 0, "assigntorings", gds=list(ind.ds), ra=list(ind.ra))
        else:
            uc.makerings(limit, tol)
            tr = L.ring_trace(uc, tol, 0, "makerings")
            if "g" in case:
                from fractions import Fraction as Fr
                fails = L.judge_rings_exact(case["g"], Fr(*case["scale"]), uc, tol)
                if fails:
                    tally.add("rings:" + fails[0], len(uc.peaks), "makerings: %s" % fails, case)
        tally.ring_traces.append(tr)
        tally.ring_params[0] = case
        chk.traces += 1
        verdicts, _ = validate_ring_traces(chk, tally)
        print("replay %s: TraceRings verdict %r" % (path, verdicts[0]))
        if verdicts[0]:
            tally.add("ringtrace:" + verdicts[0], len(tr["ds"]), "TraceRings rejects: clause %s" % verdicts[0], case)
    # a replay re-judges one case: it writes neither evidence nor new replay files
    bad = 0
    for label, (count, smallest) in sorted(tally.classes.items()):
        for size, what, caseobj in smallest:
            print("  violation: [%s] %s" % (label, what))
            bad += 1
    for fid, (n, what) in sorted(chk.known.items()):
        print("KNOWN-FINDING: property=%s %s [%s]" % (PROP, what, fid))
    if bad:
        print("VIOLATION property=%s replay=%s" % (PROP, path))
    print("%s replay: violations=%d" % (PROP, bad))
    return 1 if bad else 0


# ----------------------------------------------------------------------------------------------

def selftest(ucmod=None, idxmod=None):
    """the binding must reject perturbed expectations"""
    if ucmod is None:
        common.use_shadow(common.build_shadow("normal"))
        from ImageD11 import unitcell as ucmod, indexing as idxmod
        idxmod.loglevel = 3
    import copy
    # a cubic P record produced by hand-running the model is not available here: take one from TLC
    res = common.run_tlc("HklWalk", os.path.join(common.SPECS, "HklWalk_named.cfg"), workers=4, timeout=600)
    recs = [json.loads(s) for s in res.printed]
    rec = [r for r in recs if r["g"] == [1, 2, 3, 0, 0, 0] and r["lim"] == 13 and r["cen"] == "P"][0]
    chk = common.Check(PROP, "selftest")
    tally = Tally()
    v, o, cell, scale, dsmax = gethkls_case(chk, ucmod, rec, tally)
    if v.prop or v.conf:
        raise common.MachineryError("selftest: baseline orthorhombic P case does not pass: %s %s" % (v.prop, v.conf))

    def expect(rec2, o2, what, prop=None, conf=None):
        vv = L.judge_gethkls(rec2, o2, scale)
        if prop and prop not in vv.prop:
            raise common.MachineryError("selftest: %s not rejected by property clause %s (%s)" % (what, prop, vv.prop))
        if conf and conf not in vv.conf:
            raise common.MachineryError("selftest: %s not rejected by conformance clause %s (%s)" % (what, conf, vv.conf))
    r2 = copy.deepcopy(rec); r2["miss"] = [[9, 9, 9]]
    expect(r2, o, "expected set + one reflection", prop="incomplete")
    r2 = copy.deepcopy(rec); r2["extra"] = [list(r2["srt"][0])]
    expect(r2, o, "expected set - one reflection", prop="unsound")
    if v.algo == "walk":
        r2 = copy.deepcopy(rec); r2["vh"] = (r2["vh"] + 1) % 1000003
        expect(r2, o, "visit checksum + 1", conf="trace")
        r2 = copy.deepcopy(rec); r2["hits"][0][3] = 0
        expect(r2, o, "absent flag flipped", conf="absent-calls")
        r2 = copy.deepcopy(rec); r2["srt"][0], r2["srt"][-1] = r2["srt"][-1], r2["srt"][0]
        expect(r2, o, "model order swapped", conf="list-order")
    elif v.algo == "box":
        # the tree enumerates the bounding box (model `box` of HklWalk.tla): perturb that model's expectations
        r2 = copy.deepcopy(rec); r2["box"][0] += 1; r2["boxtie"] = False
        expect(r2, o, "model box one wider", conf="trace")
        r2 = copy.deepcopy(rec); r2["rule"] = "I"
        expect(r2, o, "model absence rule exchanged", conf="box:absent-calls")
        o2 = copy.copy(o); o2.peaks = [list(p) for p in o.peaks]; o2.peaks[0], o2.peaks[-1] = o2.peaks[-1], o2.peaks[0]
        expect(rec, o2, "real list order swapped (box model)", conf="box:list-order")
    else:
        raise common.MachineryError("selftest: the tree follows neither the walk nor the box model on the baseline case")
    o2 = copy.copy(o); o2.peaks = [list(p) for p in o.peaks]; o2.peaks[3][0] *= 1 + 1e-7
    expect(rec, o2, "ds value perturbed by 1e-7", prop="ds-value")
    o2 = copy.copy(o); o2.peaks = [list(p) for p in o.peaks]; o2.peaks[0], o2.peaks[-1] = o2.peaks[-1], o2.peaks[0]
    expect(rec, o2, "real list order swapped", prop="not-ascending")
    o2 = copy.copy(o); o2.peaks = [list(p) for p in o.peaks] + [list(o.peaks[0])]
    expect(rec, o2, "duplicate entry", prop="duplicates")
    # BIG binding: the vectorised judgement must reject every kind of corruption of a real big list
    import c03_big as BG
    g, lim, cen = [2, 3, 4, 0, 1, 0], 400, "I"
    bcell, bscale = L.cell_from_form(g, mode="hi")
    brute = L.Brute(g, lim, cen)
    if brute.codes.tolist() != sorted(L.code_np(np.array(sorted(L.brute_py(g, lim, cen)), dtype=np.int64)).tolist()):
        raise common.MachineryError("selftest: vectorised brute force disagrees with the cube brute force")
    bd = L.dsmax_for(lim, bscale, False)
    buc = ucmod.unitcell(bcell, cen)
    bpk = [list(p) for p in buc.gethkls(bd)]
    f0, _ = L.judge_list_np(brute, bpk, buc.B, bscale)
    if f0:
        raise common.MachineryError("selftest: baseline big list does not pass: %s" % f0)

    def expect_big(pk, what, clause):
        ff, _ = L.judge_list_np(brute, pk, buc.B, bscale)
        if clause not in ff:
            raise common.MachineryError("selftest: %s not rejected by clause %s (%s)" % (what, clause, ff))
    expect_big([[0.0, (0, 0, 0)]] + bpk, "big list + (0,0,0)", "unsound")
    expect_big(bpk[:50] + bpk[51:], "big list - one reflection", "incomplete")
    expect_big(bpk + [bpk[7]], "big list with a duplicate", "duplicates")
    expect_big([bpk[-1]] + bpk[:-1], "big list with the last entry first", "not-ascending")
    expect_big(bpk[:9] + [[bpk[9][0] * (1 + 1e-7), bpk[9][1]]] + bpk[10:], "big list, one ds perturbed by 1e-7", "ds-value")
    btol = BG.exact_tol(lim, bscale)
    blimit = BG.split_limit(bd, btol)
    buc = ucmod.unitcell(bcell, cen)
    buc.makerings(blimit, btol)
    hk, _ = L.list_arrays(buc.peaks)
    bq = L.q_np(g, hk)
    f0, st = L.judge_rings_np(buc, btol, q=bq, scale=bscale)
    if f0:
        raise common.MachineryError("selftest: baseline big ring table does not pass: %s" % f0)
    d1, d2 = buc.ringds[1], buc.ringds[2]
    keep = (list(buc.ringds), dict(buc.ringhkls))
    buc.ringhkls = dict(keep[1]); buc.ringhkls[d1] = keep[1][d1] + keep[1][d2][:1]; buc.ringhkls[d2] = keep[1][d2][1:]
    if not L.judge_rings_np(buc, btol, q=bq, scale=bscale)[0]:
        raise common.MachineryError("selftest: a reflection moved to the neighbouring ring is not rejected")
    buc.ringhkls = dict(keep[1]); buc.ringhkls[d2] = keep[1][d2][:-1]
    if not L.judge_rings_np(buc, btol, q=bq, scale=bscale)[0]:
        raise common.MachineryError("selftest: a reflection in no ring is not rejected")
    buc.ringhkls = dict(keep[1]); buc.ringds = keep[0][:1] + keep[0][2:]; buc.ringhkls[keep[0][0]] = keep[1][keep[0][0]] + keep[1][d1]; del buc.ringhkls[d1]
    if not L.judge_rings_np(buc, btol, q=bq, scale=bscale)[0]:
        raise common.MachineryError("selftest: two shells merged into one ring are not rejected")
    buc.ringds, buc.ringhkls = keep
    r2 = {"g": g, "lim": lim, "cen": cen, "rule": cen, "box": [0, 0, 0], "nbox": 0, "nb": brute.summary()["nb"] + 1}
    if not BG.big_case(ucmod, idxmod, r2, {"mode": "hi"}).get("machinery"):
        raise common.MachineryError("selftest: a wrong brute-force count in the TLC record is not noticed")
    # near-degenerate binding: a d-star off by 1e-7 (relative), a dropped / an added reflection must be rejected
    ncell, ncen, nd = (30.0, 28.0, 25.0, 90.0, 90.0, 90.04), "P", 0.2
    nuc = ucmod.unitcell(ncell, ncen)
    npk = [list(p) for p in nuc.gethkls(nd)]
    f0, _ = L.judge_float_list(ncell, ncen, nd, npk, nuc.B)
    if f0:
        raise common.MachineryError("selftest: baseline near-degenerate list does not pass: %s" % f0)
    for pk, whatn, clause in ((npk[:5] + [[npk[5][0] * (1 + 1e-7), npk[5][1]]] + npk[6:], "one ds off by 1e-7", "ds-value"),
                             (npk[:5] + npk[6:], "one reflection dropped", "incomplete"),
                             (npk + [[0.3, (9, 9, 9)]], "one reflection beyond the limit", "unsound"),
                             ([[math.sqrt(p[0] ** 2 - 2 * p[1][0] * p[1][1] * L.exact_gi(ncell)[0, 1]), p[1]] for p in npk],
                              "cross term of the metric dropped", "ds-value")):
        ff, _ = L.judge_float_list(ncell, ncen, nd, pk, nuc.B)
        if clause not in ff:
            raise common.MachineryError("selftest: near-degenerate list with %s not rejected by clause %s (%s)" % (whatn, clause, ff))
    # object histories: the list of another limit must be rejected; an injected exception must come out of the call
    hi = HistInstance(ucmod, 0)
    huc = ucmod.unitcell(hi.cell, hi.cen)
    if hi.judge_list(huc.gethkls(hi.d[2]), 2) or not hi.judge_list(huc.gethkls(hi.d[1]), 2) or not hi.judge_list(huc.gethkls(hi.d[3]), 2):
        raise common.MachineryError("selftest: object history judge does not tell the lists of different limits apart")

    hooked = []
    try:
        L.profiled(lambda: ucmod.unitcell(hi.cell, hi.cen).gethkls(hi.d[2]), "gethkls", 3,
                   lambda: (_ for _ in ()).throw(L.Injected("injected by the harness")))
    except L.Injected:
        hooked.append(1)
    if not hooked:
        raise common.MachineryError("selftest: the injected exception does not come out of gethkls")
    # ring trace: corrupt one recorded field -> TraceRings must reject it
    uc = ucmod.unitcell(cell, "P")
    uc.makerings(dsmax - 1e-4, 1e-4)
    good = L.ring_trace(uc, 1e-4, 0, "makerings")
    bad1 = copy.deepcopy(good); bad1["tid"] = 1; bad1["rm"][0] = bad1["rm"][0][:-1]; bad1["rm"][1] = [bad1["rm"][1][0] - 1] + bad1["rm"][1]
    bad2 = copy.deepcopy(good); bad2["tid"] = 2; bad2["rs"][1] += 5
    bad3 = copy.deepcopy(good); bad3["tid"] = 3; bad3["tol"] = good["ds"][-1]      # everything within tol of the start
    tally.ring_traces = [good, bad1, bad2, bad3]
    verdicts, _ = validate_ring_traces(chk, tally, name="selftest")
    if verdicts[0] != "" or not verdicts[1] or not verdicts[2] or not verdicts[3]:
        raise common.MachineryError("selftest: TraceRings verdicts %s" % verdicts)
    return True

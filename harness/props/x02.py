"""X02 - the parameter object (ImageD11/parameters.py: par, parameters) behaves as its callers assume.

Specification growth (not one of the listed properties).  Spec: specs/ParsObject.tla - state machine of two
`parameters` objects (dictionary of typed values, varylist, can_vary, variable_list, stepsizes, par_objs), the
"other" object of update_other / update_yourself (plain, or attribute-creating like the indexer), the user's
alias of the live dictionary, one par file and one json schema.  Mode B: every transition TLC explores
(representative path of each distinct state + one more operation) and every step of seeded random long
behaviours is replayed on real objects through four routes

    plain        parameters(...) built the way the start form says (kwds / addpar / kwds + injected stepsizes)
    transformer  transformer.transformer(): loadfileparameters / saveparameters / applyargs / setvars / pars
    refinegrains refinegrains.refinegrains(): loadparameters / saveparameters / applyargs
    indexer      indexing.indexer(): loadpars / savepars / updateparameters / pars, the indexer itself is `other`

and the full projection of the real state (both objects, the other object's attributes, the files on disk, the
return / exception of the operation, the observers get_variable_values / get_variable_stepsizes) is compared
with the specification after each step; parameters the model does not name (the 20+ other defaults of the
wrapped objects) must not change.  The laws TLC checks as invariants are also judged directly on the real objects.
"""
import os, sys, json, time, copy, io, contextlib
import common

PROP = "X02"
NAMES = ["cell__a", "t-x", "t_x"]
FINDING_BOOL = "X02-bool-save-load"
FINDING_FROMFILE = "X02-from-file-phase-name"
INVS = ["TypeOK", "VarIdentity", "SetGet", "Aligned", "UpdateRoundTrip", "RoundTripCore", "LoadIdempotent"]
ACTIONS = ["AddPar", "Set", "SetParameters", "SetVarylist", "AssignVarylist", "SetVariableValues", "UpdateOther",
           "UpdateYourself", "SetAttrO", "Save", "Load", "SaveJson", "LoadJson", "FromFile", "FromFileJson",
           "FromDict", "CopyConstruct", "TakeDict", "WriteU", "DelU", "IdxLoadPars", "IdxSavePars",
           "IdxUpdateParameters"]
ROUTES = {"kwds": ["plain"], "idx": ["indexer"], "addpar": ["plain", "transformer"], "rg": ["plain", "refinegrains"]}
ALLFORMS = ["kwds", "idx", "addpar", "rg"]


def cfg(name, depth, emit, bug_bool, bug_fromfile, readd=True, invs=INVS, frame=True, forms=ALLFORMS):
    consts = {"MaxDepth": depth, "BUG_BOOL": bool(bug_bool), "BUG_FROMFILE": bool(bug_fromfile),
              "AllowReAdd": readd, "EmitMode": emit, "WithFiles": True,
              "StartForms": set('"%s"' % f for f in forms)}
    inv = list(invs)
    if emit == 2:
        inv = inv + ["EmitFinal"]
    return common.write_cfg(os.path.join(common.scratch(), name + ".cfg"), constants=consts, invariants=inv,
                            properties=(["Frame"] if frame else []), view="View",
                            action_constraint=("EmitTransition" if emit == 1 else None))


# ----------------------------------------------------------------------------------------------
# alphabet <-> python values

class _Absent(object):
    pass


ABSENT = _Absent()


def val(tag):
    t, _, w = tag.partition(":")
    if t == "int":
        return int(w)
    if t == "float":
        return float(w)
    if t == "str":
        return w
    if t == "bool":
        return w == "True"
    if t == "none":
        return None
    raise common.MachineryError("unknown value tag %r" % (tag,))


def tag(x):
    if x is ABSENT:
        return "-"
    if x is None:
        return "none:None"
    if type(x) is bool:
        return "bool:" + str(x)
    if type(x) is int:
        return "int:%d" % x
    if type(x) is float:
        return "float:" + repr(x)
    if type(x) is str:
        return "str:" + x
    return "other:%s:%r" % (type(x).__name__, x)


def step(t):
    return None if t == "None" else float(t)


def steptag(x):
    if x is ABSENT:
        return "-"
    if x is None:
        return "None"
    if type(x) is float:
        return repr(x)
    return "other:%r" % (x,)


def flagtag(x):
    if x is ABSENT:
        return "-"
    if x is True:
        return "T"
    if x is False:
        return "F"
    return "other:%r" % (x,)


class Other(object):
    """the plain object handed to update_other / update_yourself"""
    pass


# ----------------------------------------------------------------------------------------------
# routes: the real objects

class Mods(object):
    def __init__(self):
        with contextlib.redirect_stdout(io.StringIO()), contextlib.redirect_stderr(io.StringIO()):
            from ImageD11 import parameters, transformer, refinegrains, indexing
        self.P = parameters
        self.transformer = transformer
        self.refinegrains = refinegrains
        self.indexing = indexing

        class RG(refinegrains.refinegrains):
            # the class dictionaries are the designed customisation point of refinegrains
            pars = dict(refinegrains.refinegrains.pars)
            stepsizes = dict(refinegrains.refinegrains.stepsizes)
        RG.pars.update({"cell__a": 1, "t_x": 2.5})
        RG.stepsizes.update({"t_x": 0.5})
        self.RG = RG


class Real(object):
    """one route: real objects + the files of one behaviour"""

    def __init__(self, M, route, form, workdir):
        P = M.P
        self.M, self.route, self.form = M, route, form
        self.fpath = os.path.join(workdir, "p.par")
        self.jpath = os.path.join(workdir, "pars.json")
        self.jgeom = os.path.join(workdir, "geometry.par")
        self.jph = os.path.join(workdir, "ph.par")
        # the hand-written files every behaviour starts with (FixFile / FixJson of the specification)
        for f, text in ((self.fpath, "cell__a 7\nt-x P\n"),
                        (self.jpath, '{"geometry": {"file": "geometry.par"}, "phases": {"ph": {"file": "ph.par"}}}'),
                        (self.jgeom, "cell__a 1\nt_x 7\n"), (self.jph, "cell__a 3.0\nt-x P\n")):
            with open(f, "w") as fh:
                fh.write(text)
        self.U = None
        self.owner = None
        self.skip = set()
        self.p2 = P.parameters()
        self.o = Other()
        self.o.cell__a = 7
        if route == "plain":
            if form == "kwds":
                self.p1 = P.parameters(cell__a=1, t_x=2.5)
            elif form == "addpar":
                self.p1 = P.parameters()
                self.p1.addpar(P.par("cell__a", 1, vary=False, can_vary=True, stepsize=0.1))
                self.p1.addpar(P.par("t_x", 2.5, vary=True, can_vary=True, stepsize=0.5))
            elif form == "rg":
                self.p1 = P.parameters(cell__a=1, t_x=2.5)
                self.p1.stepsizes["t_x"] = 0.5
            else:
                raise common.MachineryError("plain route has no start form %s" % form)
        elif route == "transformer":
            t = M.transformer.transformer()
            po = t.parameterobj
            po.set("cell__a", 1)
            po.set("t_x", 2.5)
            po.stepsizes["cell__a"] = 0.1          # the way refinegrains injects step sizes
            po.stepsizes["t_x"] = 0.5
            t.setvars(["t_x"])
            self.owner, self.p1 = t, po
            self.skip = {"pobj"}                   # PARAMETERS' own par objects (other default values)
        elif route == "refinegrains":
            r = M.RG()
            self.owner, self.p1 = r, r.parameterobj
        elif route == "indexer":
            ix = M.indexing.indexer()
            ix.parameterobj.set_parameters({"cell__a": 1, "t_x": 2.5})
            ix.loadpars()                          # the GUI / script pattern: every parameter becomes an attribute
            self.owner, self.p1, self.o = ix, ix.parameterobj, ix
        else:
            raise common.MachineryError("unknown route %s" % route)
        self.others0 = self.others()

    # -- operations ----------------------------------------------------------------------------
    def P(self, i):
        return self.p1 if i == 1 else self.p2

    def apply(self, op):
        try:
            self._apply(op)
            return "ok"
        except common.MachineryError:
            raise
        except Exception as e:
            return type(e).__name__

    def _apply(self, op):
        M, P, k = self.M, self.M.P, op[0]
        p1, own, route = self.p1, self.owner, self.route
        if k == "addpar":
            p1.addpar(P.par(op[1], val(op[2]), vary=op[3], can_vary=op[4], stepsize=step(op[5])))
        elif k == "set":
            self.P(op[1]).set(op[2], val(op[3]))
        elif k == "set_parameters":
            p1.set_parameters({op[1]: val(op[2])})
        elif k == "set_varylist":
            p1.set_varylist(list(op[1]))
        elif k == "assign_varylist":
            if route == "transformer":
                own.setvars(list(op[1]))
            else:
                p1.varylist = list(op[1])
        elif k == "set_variable_values":
            vals = [val(t) for t in op[1]]
            if route == "refinegrains" and len(vals) == len(p1.varylist) == 2:
                own.printresult(vals)              # "for item, value in zip(varylist, arg): parameters[item] = value"
            elif route in ("transformer", "refinegrains"):
                own.applyargs(vals)
            else:
                p1.set_variable_values(vals)
        elif k == "update_other":
            p1.update_other(self.o)
        elif k == "update_yourself":
            p1.update_yourself(self.o)
        elif k == "setattr_other":
            setattr(self.o, op[1], val(op[2]))
        elif k == "save":
            if op[1] == 1 and route in ("transformer", "refinegrains"):
                own.saveparameters(self.fpath)
            else:
                self.P(op[1]).saveparameters(self.fpath)
        elif k == "load":
            if op[1] == 1 and route == "transformer":
                own.loadfileparameters(self.fpath)
            elif op[1] == 1 and route == "refinegrains":
                own.loadparameters(self.fpath)
            else:
                self.P(op[1]).loadparameters(self.fpath)
        elif k == "save_json":
            P.AnalysisSchema.from_old_pars_object(p1, phase_name="ph").save(self.jpath)
        elif k == "load_json":
            ph = None if op[1] == "none" else op[1]
            if route == "transformer":
                own.loadfileparameters(self.jpath, phase_name=ph)
            else:
                p1.loadparameters(self.jpath, phase_name=ph)
        elif k == "from_file":
            self.p2 = P.parameters.from_file(self.fpath)
            alt = P.read_par_file(self.fpath)
            if proj_P(alt) != proj_P(self.p2):
                raise RuntimeError("from_file and read_par_file disagree")
        elif k == "from_file_json":
            self.p2 = P.parameters.from_file(self.jpath, phase_name=(None if op[1] == "none" else op[1]))
        elif k == "from_dict":
            self.p2 = P.parameters.from_dict(p1.get_parameters())
        elif k == "copy_construct":
            self.p2 = P.parameters(**p1.parameters.copy())
        elif k == "take_dict":
            if route == "transformer":
                own.updateparameters()
                self.U = own.pars
            else:
                self.U = p1.get_parameters()
        elif k == "write_dict":
            self.U[op[1]] = val(op[2])
        elif k == "del_dict":
            del self.U[op[1]]
        elif k == "idx_loadpars":
            own.loadpars(self.fpath if op[1] else None)
        elif k == "idx_savepars":
            own.savepars(self.fpath if op[1] else None)
        elif k == "idx_updateparameters":
            own.updateparameters()
            self.U = own.pars
        else:
            raise common.MachineryError("unknown op %r" % (op,))

    # -- projection ----------------------------------------------------------------------------
    def oattr(self, n):
        return vars(self.o).get(n, ABSENT)        # vars(): never triggers the indexer's __getattr__

    def project(self):
        st = {"form": self.form, "p1": proj_P(self.p1), "p2": proj_P(self.p2),
              "o": [tag(self.oattr(n)) for n in NAMES], "auto": self.route == "indexer",
              "u": self.U is not None,
              "f": proj_file(self.fpath), "jg": proj_file(self.jgeom), "jp": proj_file(self.jph)}
        if not os.path.exists(self.jpath):
            st["jg"] = st["jp"] = ["nofile"]
        st["alias_ok"] = (self.U is None) or (self.U is self.p1.parameters)
        return st

    def others(self):
        """everything the model does not name: must never change"""
        p = self.p1
        out = {"d": {k: tag(v) for k, v in p.parameters.items() if k not in NAMES},
               "canv": {k: flagtag(v) for k, v in p.can_vary.items() if k not in NAMES},
               "steps": {k: steptag(v) for k, v in p.stepsizes.items() if k not in NAMES},
               "vlist": [k for k in p.variable_list if k not in NAMES],
               "vary": [k for k in p.varylist if k not in NAMES],
               "pobj": {k: id(v) for k, v in p.par_objs.items() if k not in NAMES}}
        if self.route == "indexer":
            out["oattrs"] = {k: tag(v) for k, v in vars(self.o).items()
                             if k in p.parameters and k not in NAMES}
        return out


def proj_P(P):
    d = P.parameters
    out = {"d": [tag(d.get(n, ABSENT)) for n in NAMES],
           "vary": [n for n in P.varylist],
           "canv": [flagtag(P.can_vary.get(n, ABSENT)) for n in NAMES],
           "vlist": [n for n in P.variable_list if n in NAMES],
           "steps": [steptag(P.stepsizes.get(n, ABSENT)) for n in NAMES],
           "pobj": []}
    for n in NAMES:
        po = P.par_objs.get(n)
        out["pobj"].append([] if po is None else [tag(po.value), po.vary, po.can_vary, steptag(po.stepsize)])
    try:
        out["gvv"] = [tag(v) for v in P.get_variable_values()]
    except KeyError:
        out["gvv"] = ["KeyError"]
    try:
        out["gvs"] = [steptag(v) for v in P.get_variable_stepsizes()]
    except KeyError:
        out["gvs"] = ["KeyError"]
    return out


def read_lines(path):
    out = []
    with open(path) as f:
        for line in f.read().split("\n"):
            if line == "":
                continue
            name, _, w = line.partition(" ")
            out.append([name, w])
    return out


def proj_file(path):
    if not os.path.exists(path):
        return ["nofile"]
    return [l for l in read_lines(path) if l[0] in NAMES]


PKEYS = ["d", "vary", "canv", "vlist", "steps", "pobj", "gvv", "gvs"]


def compare(model, real, skip=()):
    """list of differing fields of the projection"""
    diffs = []
    for pk in ("p1", "p2"):
        for k in PKEYS:
            if pk == "p1" and k in skip:
                continue
            if listify(model[pk][k]) != listify(real[pk][k]):
                diffs.append(pk + "." + k)
    for k in ("o", "u", "f", "jg", "jp"):
        if listify(model[k]) != listify(real[k]):
            diffs.append(k)
    if not real.get("alias_ok", True):
        diffs.append("alias")
    return diffs


def listify(x):
    if isinstance(x, (list, tuple)):
        return [listify(i) for i in x]
    return x


def coerce_py(x, bug_bool):
    """dumbtypecheck on one value, written independently of the code (float()/int() grammar)"""
    if type(x) is not str:
        return x
    w = x.strip()
    try:
        vf = float(w)
    except ValueError:
        if not bug_bool and w in ("True", "False"):
            return w == "True"
        return w
    try:
        return int(w)
    except ValueError:
        return vf


def others_diff(real, flags):
    """names outside the model that changed (dumbtypecheck re-typing of a string value is what the code does)"""
    now, was = real.others(), real.others0
    bad = []
    for k in ("canv", "steps", "vlist", "vary", "pobj", "oattrs"):
        if now.get(k) != was.get(k):
            bad.append(k)
    for name in set(now["d"]) | set(was["d"]):
        a, b = was["d"].get(name), now["d"].get(name)
        if a == b:
            continue
        if a is not None and b is not None and a.startswith("bool:") and b == "str:" + a[5:] and flags["bug_bool"]:
            continue                               # explained by the BUG_BOOL model, reported once by the probe
        bad.append("d[%s]: %s -> %s" % (name, a, b))
    return bad


# ----------------------------------------------------------------------------------------------
# the laws, judged on the real objects (independent of the model state)

def in_domain(name, v, flags, with_bool):
    if "-" in name or " " in name:
        return False
    if type(v) in (int, float):
        return v == v                              # nan != nan
    if type(v) is bool:
        return with_bool
    if type(v) is str:
        if v != v.strip() or " " in v or v == "":
            return False
        if coerce_py(v, flags["bug_bool"]) != v or type(coerce_py(v, flags["bug_bool"])) is not str:
            return False
        return True
    return False


def state_of(P):
    return (dict((k, tag(v)) for k, v in P.parameters.items()), list(P.varylist), dict(P.can_vary),
            list(P.variable_list), dict(P.stepsizes), dict((k, id(v)) for k, v in P.par_objs.items()))


def clone(P, p):
    """an independent parameters object in the same state (par objects shared: they are never mutated)"""
    q = P.parameters()
    q.parameters = dict(p.parameters)
    q.varylist = list(p.varylist)
    q.can_vary = dict(p.can_vary)
    q.variable_list = list(p.variable_list)
    q.stepsizes = dict(p.stepsizes)
    q.par_objs = dict(p.par_objs)
    return q


def text_of(path):
    if not os.path.exists(path):
        return None
    with open(path) as f:
        return f.read()


_memo = {}


def memo(key, fn):
    """the file laws are functions of the dictionary content and the file texts: judged once per distinct content"""
    if key not in _memo:
        if len(_memo) > 400000:
            _memo.clear()
        _memo[key] = fn()
    return _memo[key]


def law_roundtrip(P, p, i, flags, tmp):
    bad = []
    p.saveparameters(tmp)
    q = P.parameters()
    q.loadparameters(tmp)
    for n, v in p.parameters.items():
        if in_domain(n, v, flags, False) and not (n in q.parameters and tag(q.parameters[n]) == tag(v)):
            bad.append(("RoundTripCore", "p[%r] = %r is read back as %r" % (n, v, q.parameters.get(n, "<missing>"))))
        if type(v) is bool and in_domain(n, v, flags, True) and \
                not (n in q.parameters and tag(q.parameters[n]) == tag(v)):
            bad.append(("RoundTripBool", "p[%r] = %r is read back as %r" % (n, v, q.parameters.get(n, "<missing>"))))
    want = set(n.replace("-", "_") for n, v in p.parameters.items() if " " not in str(v) and " " not in n)
    if set(q.parameters) != want:
        bad.append(("RoundTripCore", "names read back %s, expected %s" % (sorted(q.parameters), sorted(want))))
    return bad


def law_loadtwice(P, p, path, ph):
    q = clone(P, p)
    q.loadparameters(path, phase_name=ph)
    s1 = state_of(q)[:5]
    q.loadparameters(path, phase_name=ph)
    if state_of(q)[:5] != s1:
        return [("LoadIdempotent", "loading %s (phase_name=%r) twice differs from loading it once" % (os.path.basename(path), ph))]
    return []


def law_fromfile(P, jpath):
    bad = []
    for ph in (None, "ph"):
        a = P.parameters.from_file(jpath, phase_name=ph)
        b = P.parameters()
        b.loadparameters(jpath, phase_name=ph)
        if state_of(a)[0] != state_of(b)[0]:
            bad.append(("FromFilePhase", "from_file(json, phase_name=%r) gives %s, loadparameters(json, phase_name=%r) gives %s"
                        % (ph, sorted(a.parameters), ph, sorted(b.parameters))))
    return bad


STATS = {"states_judged": 0, "varylist_nonempty": 0, "stepsizes_defined": 0, "par_file_present": 0,
         "json_present": 0, "names_in_round_trip_domain": 0, "bool_values": 0, "other_attrs_present": 0,
         "par_objects": 0}


def laws(real, flags, files=True):
    """list of (law, message) broken by the real objects in their current state"""
    P = real.M.P
    bad = []
    STATS["states_judged"] += 1
    STATS["par_file_present"] += os.path.exists(real.fpath)
    STATS["json_present"] += os.path.exists(real.jpath)
    STATS["other_attrs_present"] += any(real.oattr(n) is not ABSENT for n in NAMES)
    # class par: constructor fields, to/from string list
    for n in NAMES:
        po = real.p1.par_objs.get(n)
        if po is None:
            continue
        STATS["par_objects"] += 1
        sl = po.tostringlist()
        q = P.par("x", 0)
        q.fromstringlist(sl)
        if sl != [po.name, po.value, po.helpstring, po.vary, po.can_vary, po.stepsize] or q.tostringlist() != sl \
                or po.name != n:
            bad.append(("par", "par %r: tostringlist/fromstringlist do not round trip: %r" % (n, sl)))
    if real.route == "transformer":
        t = real.owner
        if t.getvars() is not real.p1.varylist or t.get_variable_list() is not real.p1.variable_list:
            bad.append(("get", "transformer.getvars()/get_variable_list() do not return the parameter object's lists"))
    for i, p in ((1, real.p1), (2, real.p2)):
        # observers
        for n in list(p.parameters):
            if p.get(n) is not p.parameters[n]:
                bad.append(("get", "p%d.get(%r) is not parameters[%r]" % (i, n, n)))
        if p.get_variable_list() is not p.variable_list or p.get_parameters() is not p.parameters:
            bad.append(("get", "p%d.get_variable_list()/get_parameters() do not return the live objects" % i))
        try:
            vals = p.get_variable_values()
        except KeyError:
            vals = None
        STATS["varylist_nonempty"] += len(p.varylist) > 0
        STATS["bool_values"] += sum(1 for v in p.parameters.values() if type(v) is bool)
        STATS["names_in_round_trip_domain"] += sum(1 for n, v in p.parameters.items() if in_domain(n, v, flags, False))
        if vals is not None:
            if len(vals) != len(p.varylist) or any(v is not p.parameters[n] for v, n in zip(vals, p.varylist)):
                bad.append(("Aligned", "p%d.get_variable_values() not aligned with varylist %s" % (i, p.varylist)))
            q = clone(P, p)
            q.set_variable_values(vals)
            if state_of(q)[:5] != state_of(p)[:5]:
                bad.append(("VarIdentity", "p%d: set_variable_values(get_variable_values()) changed the object" % i))
            new = [[7, "2.5", 3.0][k % 3] for k in range(len(p.varylist))]
            q.set_variable_values(new)
            if len(set(p.varylist)) == len(p.varylist):
                got = q.get_variable_values()
                if [tag(a) for a in got] != [tag(a) for a in new]:
                    bad.append(("SetGet", "p%d: get_variable_values() after set_variable_values(%r) gives %r" % (i, new, got)))
        try:
            st = p.get_variable_stepsizes()
        except KeyError:
            st = None
        STATS["stepsizes_defined"] += st is not None and len(st) > 0
        if st is not None and (len(st) != len(p.varylist) or
                               any(a is not p.stepsizes[n] for a, n in zip(st, p.varylist))):
            bad.append(("Aligned", "p%d.get_variable_stepsizes() not aligned with varylist" % i))
        if not files:
            continue
        dkey = tuple(sorted((k, tag(v)) for k, v in p.parameters.items()))
        fb = (flags["bug_bool"], flags["bug_fromfile"])
        tmp = os.path.join(os.path.dirname(real.fpath), "law.par")
        for law, msg in memo(("rt", dkey, fb), lambda: law_roundtrip(P, p, i, flags, tmp)):
            bad.append((law, "p%d: %s" % (i, msg)))
        ftext = text_of(real.fpath)
        if ftext is not None:
            for law, msg in memo(("l2", dkey, ftext), lambda: law_loadtwice(P, p, real.fpath, None)):
                bad.append((law, "p%d: %s" % (i, msg)))
        if os.path.exists(real.jpath):
            jt = (text_of(real.jgeom), text_of(real.jph))
            for ph in (None, "ph"):
                for law, msg in memo(("l2j", dkey, jt, ph), lambda: law_loadtwice(P, p, real.jpath, ph)):
                    bad.append((law, "p%d: %s" % (i, msg)))
    # update_yourself ; update_other leaves the other object's existing attributes unchanged (plain other only)
    if real.route != "indexer":
        o2 = copy.copy(real.o)
        q = clone(P, real.p1)
        before = dict(vars(o2))
        q.update_yourself(o2)
        q.update_other(o2)
        if dict(vars(o2)) != before:
            bad.append(("UpdateRoundTrip", "update_yourself(o); update_other(o) changed o: %r -> %r" % (before, vars(o2))))
        q = clone(P, real.p1)
        s0 = state_of(q)[:5]
        q.update_other(o2)
        q.update_yourself(o2)
        if state_of(q)[:5] != s0:
            bad.append(("UpdateRoundTrip", "update_other(o); update_yourself(o) changed the parameters"))
    # the classmethod honours its arguments
    if files and os.path.exists(real.jpath):
        jt = (text_of(real.jgeom), text_of(real.jph))
        bad += memo(("ff", jt, flags["bug_fromfile"]), lambda: law_fromfile(P, real.jpath))
    return bad


# ----------------------------------------------------------------------------------------------
# replaying a behaviour

class Judge(object):
    def __init__(self, chk, M, flags):
        self.chk, self.M, self.flags = chk, M, flags
        self.work = os.path.join(common.scratch(), "x02files")
        os.makedirs(self.work, exist_ok=True)
        self.classes = {}
        self.nlaws = 0

    def report(self, cls, what, case):
        """one violation per class of failure; the others are counted"""
        if cls in self.classes:
            self.classes[cls] += 1
            return
        self.classes[cls] = 1
        self.chk.violation(what, case)

    def replay(self, form, route, ops, model_states=None, model_final=None, rets=None, do_laws=True, files=True):
        """replay ops on one route; returns list of (class, message)"""
        probs = []
        with contextlib.redirect_stdout(io.StringIO()), contextlib.redirect_stderr(io.StringIO()):
            real = Real(self.M, route, form, self.work)
            n = len(ops)
            for k, op in enumerate(ops):
                ret = real.apply(op)
                want_ret = rets[k] if rets and rets[k] is not None else None
                if want_ret is not None and ret != want_ret:
                    probs.append(("ret:%s:%s" % (op[0], ret),
                                  "%s route, step %d %s: returned/raised %s, specification says %s" % (route, k + 1, op, ret, want_ret)))
                    break
                ms = None
                if model_states is not None and model_states[k] is not None:
                    ms = model_states[k]
                elif k == n - 1 and model_final is not None:
                    ms = model_final
                if ms is not None:
                    rs = real.project()
                    d = compare(ms, rs, real.skip)
                    if d:
                        probs.append(("conf:%s:%s" % (op[0], ",".join(d)),
                                      "%s route, step %d %s: real objects differ from the specification in %s (spec %s ; real %s)"
                                      % (route, k + 1, op, d, pick(ms, d), pick(rs, d))))
                        break
                    od = others_diff(real, self.flags)
                    if od:
                        probs.append(("frame:%s:%s" % (op[0], od[0].split(":")[0]),
                                      "%s route, step %d %s changed state it does not name: %s" % (route, k + 1, op, od)))
                        break
            if do_laws and not probs:
                self.nlaws += 1
                for law, msg in laws(real, self.flags, files=files):
                    if law == "RoundTripBool" and self.flags["bug_bool"]:
                        continue                   # reported once, from the TLC counterexample
                    if law == "FromFilePhase" and self.flags["bug_fromfile"]:
                        continue
                    probs.append(("law:" + law, "%s route after %s: %s" % (route, ops, msg)))
        return probs


def pick(st, keys):
    out = {}
    for k in keys:
        if "." in k:
            a, b = k.split(".")
            out[k] = st[a][b]
        elif k in st:
            out[k] = st[k]
    return out


def fix_state(st):
    """JSON from TLC -> same shape as Real.project"""
    return json.loads(json.dumps(st))


# ----------------------------------------------------------------------------------------------
# probes = the minimal reproducers of the two defect classes

def probe(M):
    P = M.P
    d = os.path.join(common.scratch(), "x02probe")
    os.makedirs(d, exist_ok=True)
    out = {}
    with contextlib.redirect_stdout(io.StringIO()), contextlib.redirect_stderr(io.StringIO()):
        p = P.parameters(flag=False, other=True)
        f = os.path.join(d, "b.par")
        p.saveparameters(f)
        q = P.read_par_file(f)
        out["bug_bool"] = not (q.get("flag") is False and q.get("other") is True)
        out["bool_detail"] = {"saved": {"flag": False, "other": True},
                              "loaded": {"flag": repr(q.get("flag")), "other": repr(q.get("other"))}}
        t = M.transformer.transformer()
        f2 = os.path.join(d, "t.par")
        t.saveparameters(f2)
        t2 = M.transformer.transformer()
        t2.loadfileparameters(f2)
        out["transformer_flag"] = [repr(t.parameterobj.get("weight_hist_intensities")),
                                   repr(t2.parameterobj.get("weight_hist_intensities"))]
        out["transformer_flag_flips"] = bool(t.parameterobj.get("weight_hist_intensities")) != \
            bool(t2.parameterobj.get("weight_hist_intensities"))
        j = os.path.join(d, "pars.json")
        P.AnalysisSchema.from_old_pars_dict({"cell__a": 4.0, "t_x": 1.5}, phase_name="ph").save(j)
        a = P.parameters.from_file(j, phase_name="ph")
        b = P.read_par_file(j, phase_name="ph")
        out["bug_fromfile"] = sorted(a.parameters) != sorted(b.parameters)
        out["fromfile_detail"] = {"from_file": sorted(a.parameters), "read_par_file": sorted(b.parameters)}
    return out


def _untuple(x):
    if isinstance(x, tuple):
        return [_untuple(i) for i in x]
    if isinstance(x, dict):
        return {k: _untuple(v) for k, v in x.items()}
    return x


def counterexample_ops(res):
    if not res.trace:
        # violated by an initial state: TLC prints the state without a numbered trace (no operation needed)
        import re
        m = re.search(r'form \|-> "(\w+)"', res.stdout)
        if "violated by the initial state" not in res.stdout or not m:
            raise common.MachineryError("no counterexample trace in TLC's output")
        return m.group(1), [], []
    h = common.parse_tla(res.trace[-1]["vars"]["hist"])
    form = common.parse_tla(res.trace[-1]["vars"]["s"])["form"]
    return form, [_untuple(e["op"]) for e in h], [_untuple(e["st"]) for e in h]


# ----------------------------------------------------------------------------------------------

def run(tier, replay=None):
    chk = common.Check(PROP, tier)
    shadow = common.build_shadow("normal")
    common.use_shadow(shadow)
    M = Mods()
    if not os.path.realpath(M.P.__file__).startswith(os.path.realpath(common.REPO)):
        raise common.MachineryError("ImageD11.parameters resolved to %s" % M.P.__file__)
    chk.rule = ("TLC explores ParsObject.tla breadth first from 4 start forms; every transition (representative path of "
                "each distinct state + one more operation) is replayed on real objects through every route of its start "
                "form (plain parameters / transformer / refinegrains / indexer) and the full projection + the return "
                "value is compared; random long behaviours are compared after every step; distinct = distinct "
                "(route, operation sequence); non-trivial = at least 2 operations")
    chk.assumptions = ["value alphabet: ints 1 7, floats 2.5 3.0, strings '7' '2.5' 'P' ' P ' 'a b', False, None; names "
                       "cell__a, t_x, t-x; step sizes None 0.1 0.5",
                       "dictionary iteration order is not observed (no caller depends on it: saveparameters sorts)",
                       "json schema limited to one geometry file and one phase ('ph')",
                       "the wrapped objects are brought to the start form with public calls (set, setvars, stepsizes[k] = s)"]
    flags = probe(M)
    chk.notes["tree_variant"] = {"bug_bool": flags["bug_bool"], "bug_fromfile": flags["bug_fromfile"]}
    judge = Judge(chk, M, flags)
    if replay:
        return run_replay(chk, judge, replay)

    bb, bf = flags["bug_bool"], flags["bug_fromfile"]
    # 1. exhaustive to depth D with the BUG_* constants of the tree under test, every transition emitted
    depth = 2
    defects = [("bug_bool", "RoundTripBool", "bug_bool", FINDING_BOOL),
               ("bug_fromfile", "FromFilePhase", "bug_fromfile", FINDING_FROMFILE)]
    # the two laws that separate pinned from repaired code are invariants of the model of a repaired tree
    invs3 = INVS + [inv for flag, inv, _, _ in defects if not flags[flag]]
    res = common.run_tlc("ParsObject", cfg("conf", depth, 1, bb, bf, invs=invs3), workers=16, timeout=1500,
                         coverage=(tier != "quick"))
    chk.add_tlc("ParsObject depth %d (all transitions; BUG_BOOL=%s BUG_FROMFILE=%s; %s)" % (depth, bb, bf, ",".join(invs3)), res,
                require_cover=ACTIONS)
    if res.violated:
        raise common.MachineryError("model violates %s (these hold for the pinned and the repaired code)" % res.violated)
    seen = set()
    nbad = 0
    t0 = time.time()
    for line in res.printed:
        try:
            h = json.loads(line)
        except ValueError:
            nbad += 1
            continue
        ops = [list(e["op"]) for e in h]
        st = fix_state(h[-1]["st"])
        form = st["form"]
        rets = [None] * (len(ops) - 1) + [h[-1]["ret"]]
        for route in ROUTES[form]:
            key = json.dumps([route, form, ops])
            if key in seen:
                continue
            seen.add(key)
            probs = judge.replay(form, route, ops, model_final=st, rets=rets)
            chk.case(key, nontrivial=len(ops) >= 2)
            chk.traces += 1
            if len(seen) in (11, 1111, 11111):
                chk.sample({"route": route, "form": form, "ops": ops, "ret": rets[-1], "expected_final": st})
            for cls, p in probs:
                judge.report(cls, p, {"route": route, "form": form, "ops": ops, "rets": rets, "model_final": st})
    if nbad:
        raise common.MachineryError("%d unparsable TLC output lines" % nbad)
    chk.notes["replay_s"] = round(time.time() - t0, 1)

    # 2. random long behaviours, compared after every step (batches bound the size of TLC's output)
    nsim = 1200 if tier == "quick" else 25000
    sdepth = 9 if tier == "quick" else 13
    batch = 5000
    k = 0
    for b0 in range(0, nsim, batch):
        nb = min(batch, nsim - b0)
        ress = common.run_tlc("ParsObject", cfg("sim", sdepth - 1, 2, bb, bf, frame=False), workers=1, simulate=nb,
                              depth=sdepth, timeout=1500, seed_=common.seed() + b0 // batch)
        chk.add_tlc("ParsObject simulate %d x depth %d (seed %d)" % (nb, sdepth, common.seed() + b0 // batch), ress)
        if ress.violated:
            raise common.MachineryError("model violates %s in simulation" % ress.violated)
        for line in ress.printed:
            try:
                h = json.loads(line)
            except ValueError:
                continue
            ops = [list(e["op"]) for e in h]
            mstates = [fix_state(e["st"]) for e in h]
            rets = [e["ret"] for e in h]
            form = mstates[-1]["form"]
            for route in ROUTES[form]:
                key = json.dumps([route, form, ops])
                if key in seen:
                    continue
                seen.add(key)
                k += 1
                probs = judge.replay(form, route, ops, model_states=mstates, rets=rets)
                chk.case(key)
                chk.traces += 1
                if k == 5:
                    chk.sample({"route": route, "form": form, "ops": ops, "rets": rets})
                for cls, p in probs:
                    judge.report(cls, p, {"route": route, "form": form, "ops": ops, "rets": rets, "model_states": mstates})
        del ress
    chk.notes["simulated_behaviours_replayed"] = k
    chk.exhaustive = False

    # 3. the laws that separate the pinned from the repaired code.  Tree shows the defect -> TLC (BUG_* = TRUE) must
    #    produce a counterexample, which is replayed; the law is judged on the real objects; confirmed -> violation
    #    (or known finding).  Tree repaired -> the law is an invariant of the conformance model (checked to depth 3).
    for flag, inv, cfgname, fid in defects:
        if flags[flag]:
            r = common.run_tlc("ParsObject", os.path.join(common.SPECS, "ParsObject_%s.cfg" % cfgname), workers=16, timeout=900)
            chk.add_tlc("ParsObject %s (expected: %s violated)" % (cfgname, inv), r)
            if inv not in r.violated:
                raise common.MachineryError("configuration %s does not violate %s (vacuity)" % (cfgname, inv))
            form, ops, mstates = counterexample_ops(r)
            route = ROUTES[form][0]
            fl = dict(flags)
            fl[flag] = False                       # judge the law itself
            with contextlib.redirect_stdout(io.StringIO()), contextlib.redirect_stderr(io.StringIO()):
                real = Real(M, route, form, judge.work)
                for op in ops:
                    real.apply(op)
                conforms = not ops or not compare(fix_state(mstates[-1]), real.project(), real.skip)
                broken = [m for (law, m) in laws(real, fl) if law == inv]
            chk.case(json.dumps(["cex", inv, ops]))
            chk.traces += 1
            chk.notes["counterexample_" + inv] = {"form": form, "ops": ops, "reproduced_on_real_code": bool(broken),
                                                  "real_state_is_the_BUG_model_state": conforms}
            if broken:
                what = defect_text(inv, flags, ops, broken)
                if chk.finding(fid) and conforms:
                    chk.known_finding(fid, what)
                else:
                    chk.violation(what, {"kind": "law", "law": inv, "route": route, "form": form, "ops": ops,
                                         "probe": {k: v for k, v in flags.items()}})
            else:
                raise common.MachineryError("probe shows %s but the TLC counterexample %s is not reproduced" % (flag, ops))
    if tier == "thorough":
        r3 = common.run_tlc("ParsObject", cfg("d3", 3, 0, bb, bf, invs=invs3), workers=16, timeout=3000, coverage=True)
        chk.add_tlc("ParsObject depth 3 (invariants %s)" % ",".join(invs3), r3, require_cover=ACTIONS)
        if r3.violated:
            raise common.MachineryError("model violates %s at depth 3" % r3.violated)
        ra = common.run_tlc("ParsObject", os.path.join(common.SPECS, "ParsObject_noreadd.cfg"), workers=16, timeout=900)
        chk.add_tlc("ParsObject no parameter added twice: AddparConsistent", ra)
        if ra.violated:
            raise common.MachineryError("AddparConsistent violated without re-adding")
        rb = common.run_tlc("ParsObject", os.path.join(common.SPECS, "ParsObject_readd.cfg"), workers=16, timeout=900)
        chk.add_tlc("ParsObject addpar twice (expected: AddparConsistent violated - observation, see notes)", rb)
        if "AddparConsistent" not in rb.violated:
            raise common.MachineryError("re-adding no longer violates AddparConsistent (vacuity)")
        selftest(M)
    chk.notes["violation_classes"] = dict(judge.classes)
    chk.notes["law_judgements"] = judge.nlaws
    chk.notes["law_antecedents"] = dict(STATS)
    for k, v in STATS.items():
        if v == 0:
            raise common.MachineryError("vacuity: no judged state had %s" % k)
    chk.notes["observations"] = [
        "load / set_parameters re-type EVERY string value of the object (dumbtypecheck), not only the ones they name",
        "update_yourself(indexer) turns a parameter the indexer has no attribute for into None (its __getattr__ creates the attribute)",
        "addpar of a name already in variable_list keeps the old step size and never removes it from variable_list / varylist",
        "get_variable_stepsizes raises KeyError for a varied name without step size (vary=True, can_vary=False; refinegrains cell__a)",
        "a value containing a blank (or padded) is written by saveparameters but its line is skipped (logged) by loadparameters",
        "'t-x' and 't_x' in one object: both are written, the underscore spelling wins on load"]
    return chk.finish()


def defect_text(inv, flags, ops, broken):
    if inv == "RoundTripBool":
        return ("bool parameters do not survive saveparameters/loadparameters: %s read back as %s (strings, so False "
                "becomes truthy); transformer default weight_hist_intensities %s -> %s after saveparameters + "
                "loadfileparameters%s; TLC counterexample %s reproduced: %s"
                % (flags["bool_detail"]["saved"], flags["bool_detail"]["loaded"], flags["transformer_flag"][0],
                   flags["transformer_flag"][1], " (truth value flips)" if flags["transformer_flag_flips"] else "",
                   ops, broken[0]))
    return ("parameters.from_file(filename, phase_name=...) ignores phase_name (parameters.py: read_par_file(filename, "
            "phase_name=None)): %s ; TLC counterexample %s reproduced: %s" % (flags["fromfile_detail"], ops, broken[0]))


def run_replay(chk, judge, path):
    obj = json.load(open(path))
    case = obj["case"]
    ops = case["ops"]
    chk.exhaustive = False
    chk.case(json.dumps(ops))
    chk.traces += 1
    chk.sample({"ops": ops})
    if case.get("kind") == "law":
        fl = dict(judge.flags)
        fl["bug_bool"] = fl["bug_fromfile"] = False
        with contextlib.redirect_stdout(io.StringIO()), contextlib.redirect_stderr(io.StringIO()):
            real = Real(judge.M, case["route"], case["form"], judge.work)
            for op in ops:
                real.apply(op)
            broken = [m for (law, m) in laws(real, fl) if law == case["law"]]
        for m in broken[:1]:
            chk.violation(defect_text(case["law"], judge.flags, ops, broken), case)
        return chk.finish()
    probs = judge.replay(case["form"], case["route"], ops, model_states=case.get("model_states"),
                         model_final=case.get("model_final"), rets=case.get("rets"))
    for cls, p in probs:
        chk.violation(p, case)
    return chk.finish()


def selftest(M=None):
    """a perturbed expectation must be rejected"""
    if M is None:
        M = Mods()
    work = os.path.join(common.scratch(), "x02self")
    os.makedirs(work, exist_ok=True)
    ops = [["set", 1, "t-x", "str:7"], ["save", 1], ["load", 2], ["set_variable_values", ["int:7"]]]
    with contextlib.redirect_stdout(io.StringIO()), contextlib.redirect_stderr(io.StringIO()):
        real = Real(M, "plain", "addpar", work)
        rets = [real.apply(op) for op in ops]
        st = real.project()
    if rets != ["ok"] * 4:
        raise common.MachineryError("selftest: operations failed %s" % rets)
    if compare(st, st):
        raise common.MachineryError("selftest: identical projections compare different")
    for path, newv in ((("p2", "d", 2), "str:7"), (("p1", "gvv", 0), "float:7.0"), (("p1", "steps", 0), "0.5"),
                       (("f", 1, 1), "8"), (("p2", "canv", 0), "F")):
        bad = json.loads(json.dumps(st))
        x = bad
        for k in path[:-1]:
            x = x[k]
        if x[path[-1]] == newv:
            raise common.MachineryError("selftest: perturbation %s is not a change" % (path,))
        x[path[-1]] = newv
        if not compare(bad, st):
            raise common.MachineryError("selftest: perturbed %s not rejected" % (path,))
    fl = {"bug_bool": False, "bug_fromfile": False}
    with contextlib.redirect_stdout(io.StringIO()), contextlib.redirect_stderr(io.StringIO()):
        real.p1.varylist = ["t_x", "cell__a"]
        real.p1.get_variable_values = lambda: [real.p1.parameters["cell__a"], real.p1.parameters["t_x"]]
        got = [l for l, m in laws(real, fl, files=False)]
    if "Aligned" not in got:
        raise common.MachineryError("selftest: misaligned get_variable_values not rejected by the law judge")

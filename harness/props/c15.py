"""C15 - N-D peak merging equals graph connected components on any schedule.

Specification: specs/LabelND.tla (model of numbalabelNd / find_ND_labels / get_clean_labels /
numbapkmerge at one shared-memory access per step) + specs/LabelND_Trace.tla (trace validation).

What this check does
 1. TLC: exhaustive runs of LabelND (configurations specs/LabelND_*.cfg): for every schedule the
    fixpoint is the component minimum, clean labels are 0..ncomp-1, merged sums are sums over
    components; every sweep is "legal" (SweepLegal); one-thread sweeps equal the operator SeqSweep.
 2. Mode A: every instance TLC emits is replayed into the real code
        properties.find_ND_labels, pks_table.find_uniq (numba and scipy routes),
        pks_table.pk2dmerge (with / without scale_factor), pks_table.pk2d, numbapkmerge called directly
    - individually and as disjoint unions (two edge layouts) - and judged by the property statement
    against the specification's values,
    at numba thread counts 1, 2, 3, 4, 5, 7, 8, 12, 16 (non powers of two give uneven prange chunks).
 3. Seeded large graphs (chains needing many sweeps, stars, duplicates, self loops, no edges, random,
    sinogram-like) against an independent union-find and scipy, merged table against exact integers.
    merge_race: >= 1e5 2D peaks in a few interleaved stars, merged repeatedly at every thread count
    (a merge loop split over threads loses updates only when many members of one merged peak sit in
    different threads' slices; LabelND Bug = "pmerge" is the model of that change).
 4. Mode C: per-sweep snapshots recorded from the real find_ND_labels (module-level numbalabelNd /
    get_clean_labels wrapped from the harness) validated by LabelND_Trace.
 5. Table histories (LabelND Hist = 2, configuration hist): every emitted (instance, history) is
    replayed on a table built the way process() / goforit() build it - pks_table(npk) in shared memory,
    filled through pks_table.fromSHM(export()) per scan, overlap weights != 1 - with the operations
    find_uniq() again, find_uniq(use_scipy=True) (int32 labels, scipy's numbering), save() +
    pks_table.load() or + dataset.DataSet.peaks_table / pk2d / pk4d (scale = monitor_ref / monitor; in turn
    ONE DataSet whose tables are read, then given the monitor + reset_peaks_cache(), then read again - 2D
    table first / merged table first - or new DataSets with the monitor given before any read),
    pk2dmerge again; after EVERY operation the labels the table holds and the merged / 2D tables
    computed from them are judged.  The seeded families run two such histories as well.
 5b. DataSet histories (LabelND DsHist > 0, configurations ds, dscore; thorough: ds4, dsdeep): the labelled
    table is saved by the user route, a dataset.DataSet (master file with two monitors) is opened on it and
    EVERY sequence of 3 operations out of ds.pk2d, ds.pk4d, get_cf_2d(), get_cf_4d(), ds.peaks_table,
    set_monitor (monitor 1 with the default np.mean, monitor 2 with a constant reference),
    reset_peaks_cache(), save() + dataset.load()  (every sequence of 4 of pk2d / pk4d / set_monitor x 2 /
    reset; thorough: 4 of all, 6 of these), closed by reading pk2d and pk4d, is replayed on a real DataSet
    (child process).  The law (invariant DsLaw): every table read is the table of the labels of the file
    with the scale factors monitor_ref / monitor of the monitor in force at that moment (none before the
    first set_monitor) - judged against exact integer sums and the specification's rows.
 6. Harness-only families where the model is covariant (said so in the LabelND header): table value
    classes (sI to 1e9, monitor-style non-dyadic scale factors, scale = 0, Fortran-ordered / float32 /
    strided omega, dty, scale) judged against exact integer arithmetic on the binary values of the
    inputs;
    SIGN classes of the weights w = sI * scale (the statement's "intensity-weighted means ... with
    per-frame scale factors applied when given" is sum(w x) / sum(w) for ANY non-zero total): LabelND
    Neg = TRUE (configurations seq, hist, q2, ds; thorough tree5, e4, ds4) has a negative intensity, a
    negative direct scale factor and monitors that read below zero on a frame - merged peaks of
    negative total, of positive total with negative members, of total exactly 0 (mean undefined: only
    the sums are judged); the random tables of EVERY seeded family / history / child job carry ~10 %
    negative sI and ~12 % negative scale factors; value classes neg (negative scale factors and
    negative sI, >= 1000-member merged peaks of either sign, components that cancel exactly with and
    without the scale factors) and negmon (DataSet route: monitor dips below zero -> pk4d / pk2d with
    negative monitor_ref / monitor); on every merge route: pk2dmerge, pk2d, numbapkmerge directly,
    scipy-labelled table, save + load, DataSet.pk4d / pk2d; thread counts above NUMBA_NUM_THREADS (17, 24, 32) and the workqueue threading layer in
    child processes (tbb when importable).
 7. The literal user route in a child process: properties.main(dsfile) on small synthetic sinograms
    (sparse-pixel file + dataset file written with h5py / DataSet.save): goforit() -> worker processes
    running process() -> pks_table(npk) in shared memory -> find_uniq() -> save(); single-scan branch
    pks_table_from_scan; then dataset.load(dsfile).pk2d / .pk4d with and without monitor.  The overlap
    list is taken as the code produced it (captured when save() is entered; producing it is C13 / C14).
 8. Peaks without any overlap through pks_table(npk): finding C15-shm-empty-overlap-list (reported as a
    violation unless that entry is in known_findings.json; matcher in probe_empty).
 Not in the DataSet histories (said in the LabelND header): ds.load() INTO a DataSet that already holds
 tables, a pksfile rewritten under an open DataSet, get_cf_*() answered from a column file on disk
 (the code warns that it is out of date), assigning ds.monitor without reset_peaks_cache().
 Outside the quantifier, recorded under notes["observations"] only: n = 0 (a graph has nodes; the
 shared-memory constructor cannot build an empty table at all), load() of a table saved before labelling.
"""
from __future__ import print_function
import os, sys, io, json, time, contextlib, copy, subprocess, warnings, gc
import numpy as np
import common
import c15_lib as L

PROP = "C15"
WORKERS = int(os.environ.get("C15_TLC_WORKERS", "16"))
THREADS = (1, 2, 3, 4, 5, 7, 8, 12, 16)
F_SHM = "C15-shm-empty-overlap-list"
ACTIONS = ("Grab", "Read1", "Read2", "Write1", "Write2", "EndSweep", "CountStep", "CountEnd",
           "FixGrab", "FixRead", "FixRead2", "FixWrite", "FixEnd", "Merge")
HIST_ACTIONS = ("RelabelNumba", "RelabelScipy", "SaveLoad", "Remerge")
DS_CORE = ("DsOpen", "DsRead2", "DsRead4", "DsSetMonitor", "DsReset", "DsClose")
DS_ALL = DS_CORE + ("DsTable", "DsSaveLoad")
# configuration -> (records = 3 graphs x histories, actions that must be taken)
DS_CONFIGS = {"ds": (3 * 9 ** 3, DS_ALL), "dscore": (3 * 5 ** 4, DS_CORE),
              "ds4": (3 * 9 ** 4, DS_ALL), "dsdeep": (3 * 5 ** 6, DS_CORE)}
SAFETY_INV = ("TypeOK", "InComp", "MinFixed", "LocalsOK", "ZeroAgree", "Fixpoint", "FixReadsRoot",
              "CleanOK", "MergeOK", "SweepLegal", "SeqExact")

_real = {}


def load_real():
    """build + import the code under test (once per process)"""
    if not _real:
        shadow = common.build_shadow("normal")
        common.use_shadow(shadow)
        import numba
        import ImageD11.sinograms.properties as P
        import ImageD11.sinograms.dataset as D
        _real["numba"] = numba
        _real["P"] = P
        _real["D"] = D
        install_watchdog(P)
        _real["threads"] = [t for t in THREADS if t <= numba.config.NUMBA_NUM_THREADS]
    return _real["numba"], _real["P"], _real["threads"]


class SweepLimit(Exception):
    pass


WD = {"count": 0, "limit": None, "n": 0}


def sweep_limit(n):
    """LabelND's variant (invariant SweepLegal: every sweep that reports nbad > 0 lowers the sum of the
    labels by >= 1, the sum starts at n(n-1)/2) bounds the number of sweeps of ANY schedule by
    n(n-1)/2 + 1; sequentially it is <= n + 1 (the minimum advances one edge per sweep).  For large n
    the watchdog stops at min(10 n + 1000, 400000), far above anything the instances used here need."""
    return min(n * (n - 1) // 2 + 1, 10 * n + 1000, 400000)


def install_watchdog(P):
    """find_ND_labels loops until a sweep returns 0: a broken sweep makes it loop for ever (the model's
    Termination counterexample).  The harness wraps the module-level callables (no source edit) so that
    such a run ends with an exception that is judged as an output."""
    o_sweep, o_find = P.numbalabelNd, P.find_ND_labels

    def guarded_sweep(i, j, pkid, flip=0):
        WD["count"] += 1
        if WD["limit"] is not None and WD["count"] > WD["limit"]:
            raise SweepLimit("no fixpoint after %d sweeps on %d peaks (bound from the specification's variant: %d)"
                             % (WD["limit"], WD["n"], WD["n"] * (WD["n"] - 1) // 2 + 1))
        return o_sweep(i, j, pkid, flip=flip)

    def guarded_find(i, j, npks, *a, **k):
        WD["count"] = 0
        WD["n"] = int(npks)
        WD["limit"] = sweep_limit(int(npks))
        try:
            return o_find(i, j, npks, *a, **k)
        finally:
            WD["limit"] = None

    P.numbalabelNd = guarded_sweep
    P.find_ND_labels = guarded_find


@contextlib.contextmanager
def numba_threads(numba, t):
    old = numba.get_num_threads()
    numba.set_num_threads(int(t))
    try:
        yield
    finally:
        numba.set_num_threads(old)


@contextlib.contextmanager
def quiet():
    with contextlib.redirect_stdout(io.StringIO()):
        yield


# --------------------------------------------------------------------------------------
# TLC

def cfgpath(name):
    return os.path.join(common.SPECS, "LabelND_%s.cfg" % name)


def tlc(chk, name, timeout, coverage=False, expect=None, workers=None, cover=None):
    """run one static configuration.  expect = None: no violation allowed;
    expect = tuple of names: one of them must be reported violated (self-test / witness runs)."""
    res = common.run_tlc("LabelND", cfgpath(name), workers=workers or WORKERS, coverage=coverage,
                         timeout=timeout)
    if chk is not None:
        chk.add_tlc("LabelND_" + name, res, require_cover=(cover or ACTIONS) if coverage else ())
    elif res.error and not res.violated:
        raise common.MachineryError("TLC run %s failed: %s\n%s" % (name, res.error, res.stdout[-2000:]))
    if expect is None:
        if not res.finished and not res.violated:
            raise common.MachineryError("TLC run %s did not finish" % name)
    else:
        if not (set(res.violated) & set(expect)):
            raise common.MachineryError("selftest: TLC configuration %s was expected to violate one of %s, got %s"
                                        % (name, expect, res.violated))
    return res


def parse_records(res, name):
    recs, bad = [], 0
    seen = set()
    for s in res.printed:
        try:
            r = json.loads(s)
            key = (r["n"], tuple(r["ei"]), tuple(r["ej"]))
        except Exception:
            bad += 1
            continue
        if key not in seen:
            seen.add(key)
            recs.append(r)
    if bad:
        raise common.MachineryError("%d unparsable Emit lines in TLC run %s" % (bad, name))
    recs.sort(key=lambda r: (r["n"], r["ne"], r["ei"], r["ej"]))
    return recs


def model_counterexample(chk, name, res):
    """A violated invariant of the unmodified model is a design-level counterexample; it must be
    confirmed against the real code before it is reported.  The instance is stressed on the real code."""
    numba, P, threads = load_real()
    g = None
    for st in res.trace:
        if "g" in st.get("vars", {}):
            try:
                g = common.parse_tla(st["vars"]["g"])
            except Exception:
                g = None
            break
    if g is None:
        raise common.MachineryError("TLC %s violated %s and the instance could not be parsed" % (name, res.violated))
    n, ne = g["n"], g["ne"]
    ei = [g["ei"][k] for k in range(ne)] if isinstance(g["ei"], dict) else list(g["ei"])
    ej = [g["ej"][k] for k in range(ne)] if isinstance(g["ej"], dict) else list(g["ej"])
    case = {"kind": "graph", "n": n, "ei": ei, "ej": ej, "threads": threads, "reps": 300,
            "origin": "TLC %s violated %s" % (name, res.violated)}
    probs = run_case(case)
    if probs:
        chk.violation("model counterexample (%s) confirmed on the real code: %s" % (res.violated, probs[0]), case)
    else:
        raise common.MachineryError("TLC %s reports %s violated but the real code behaves on that instance: "
                                    "the model needs review" % (name, res.violated))


# --------------------------------------------------------------------------------------
# the real code, all routes, one instance

def make_pks_table(P, n, ei, ej, table):
    rc = np.ascontiguousarray(np.array([ei, ej, np.ones(len(ei), np.int64)], dtype=np.int64).reshape(3, len(ei)))
    return P.pks_table(ipk=np.array([0, n], dtype=np.int64), pk_props=table.props.copy(), rc=rc)


def observe(P, n, ei, ej, table, direct=True, scipy_route=True, merge=True, merge_reps=1):
    """call the real API; returns dict of raw outputs (exceptions are outputs too).
    merge_reps > 1: pk2dmerge is called again that many times (keys merge_u#k / merge_s#k)"""
    obs = {}
    ei = np.ascontiguousarray(ei, np.int64)
    ej = np.ascontiguousarray(ej, np.int64)
    if direct:
        try:
            nl, lab = P.find_ND_labels(ei, ej, n, verbose=0)
            obs["direct"] = (int(nl), np.array(lab))
        except Exception as e:
            obs["direct_exc"] = repr(e)
    try:
        t = make_pks_table(P, n, ei, ej, table)
        with quiet():
            cc = t.find_uniq()
        obs["find_uniq"] = (int(cc[0]), np.array(cc[1]))
        obs["attrs"] = (int(t.nlabel), np.array(t.glabel))
        if merge:
            om, dy, sc = table.omega(), table.dty(), table.scale()
            with np.errstate(all="ignore"):
                obs["merge_u"] = t.pk2dmerge(om, dy)
                obs["merge_s"] = t.pk2dmerge(om, dy, scale_factor=sc)
                obs["pk2d_u"] = t.pk2d(om, dy)
                obs["pk2d_s"] = t.pk2d(om, dy, scale_factor=sc)
                for k in range(1, merge_reps):
                    obs["merge_u#%d" % k] = t.pk2dmerge(om, dy)
                    obs["merge_s#%d" % k] = t.pk2dmerge(om, dy, scale_factor=sc)
                # the kernel itself, called directly by the caller on a zeroed buffer (what pk2dmerge wraps)
                try:
                    for key, sf in (("kernel_u", None), ("kernel_s", sc)):
                        out = np.zeros((7, int(t.nlabel)), float)
                        P.numbapkmerge(t.glabel, t.pk_props, om, dy, out, scale_factor=sf)
                        obs[key] = out
                except Exception as e:
                    obs["kernel_exc"] = repr(e)
    except Exception as e:
        obs["table_exc"] = repr(e)
    if scipy_route:
        try:
            t2 = make_pks_table(P, n, ei, ej, table)
            with quiet():
                cc = t2.find_uniq(use_scipy=True)
            obs["scipy"] = (int(cc[0]), np.array(cc[1]))
            if merge:
                # a table labelled ONLY by the scipy route (int32 labels) is merged as well
                obs["attrs@scipy"] = (int(t2.nlabel), np.array(t2.glabel))
                om, dy, sc = table.omega(), table.dty(), table.scale()
                with np.errstate(all="ignore"):
                    obs["merge_s@scipy"] = t2.pk2dmerge(om, dy, scale_factor=sc)
                    obs["pk2d_s@scipy"] = t2.pk2d(om, dy, scale_factor=sc)
        except Exception as e:
            obs["scipy_exc"] = repr(e)
    return obs


def judge(n, root, table, obs, stats=None, spec=None):
    """judge one observation against the property statement.  root = component minimum per node
    (oracle or specification).  spec = TLC record (optional): its nlabel / labels / merged rows are
    compared as THE value; a valid renumbering is counted, not reported."""
    problems = []
    for k in ("direct_exc", "table_exc", "scipy_exc", "kernel_exc"):
        if k in obs:
            problems.append("%s raised %s" % ({"kernel_exc": "numbapkmerge called directly (out = zeros((7, nlabel)))"}
                                             .get(k, k[:-4]), obs[k]))
    valid = None
    for route in ("direct", "find_uniq", "attrs", "scipy"):
        if route not in obs:
            continue
        nl, lab = obs[route]
        pr, renum = L.judge_labels(n, root, nl, lab)
        problems += ["%s: %s" % (route, p) for p in pr]
        if route != "scipy" and not pr:
            if renum and stats is not None:
                stats["renumbered"] = stats.get("renumbered", 0) + 1
            if spec is not None and not renum:
                if nl != spec["nlabel"] or list(map(int, lab)) != spec["labels"]:
                    raise common.MachineryError("oracle numbering and specification labels disagree on %r" % (spec,))
        if route == "attrs" and not pr:
            valid = (nl, np.asarray(lab, np.int64))
    if valid is not None:
        nl, lab = valid
        for key in sorted(obs):
            if key.startswith("merge_") and "@" not in key and len(problems) < 5:
                problems += L.judge_merge(table, lab, nl, key.startswith("merge_s"), obs[key],
                                          stats if key in ("merge_u", "merge_s") else None)
            if key.startswith("kernel_") and len(problems) < 5:
                problems += L.judge_kernel(table, lab, nl, key == "kernel_s", obs[key])
                if stats is not None:
                    stats["numbapkmerge_called_directly"] = stats.get("numbapkmerge_called_directly", 0) + 1
        for key, scaled in (("pk2d_u", False), ("pk2d_s", True)):
            if key in obs:
                problems += L.judge_pk2d(table, lab, scaled, obs[key])
        if spec is not None and "merge_u" in obs and not problems:
            problems += judge_spec_rows(spec, lab, obs)
    if "attrs@scipy" in obs:
        nl, lab = obs["attrs@scipy"]
        pr, _ = L.judge_labels(n, root, nl, lab)
        if not pr and (nl != obs["scipy"][0] or not np.array_equal(lab, obs["scipy"][1])):
            pr = ["the table does not hold the labels find_uniq(use_scipy=True) returned"]
        if not pr:
            pr = L.judge_merge(table, np.asarray(lab, np.int64), nl, True, obs["merge_s@scipy"])
            pr += L.judge_pk2d(table, lab, True, obs["pk2d_s@scipy"])
            if stats is not None:
                stats["merged_after_scipy_only"] = stats.get("merged_after_scipy_only", 0) + 1
        problems += ["after find_uniq(use_scipy=True) alone: %s" % x for x in pr]
    return problems


def judge_spec_rows(spec, lab, obs):
    """the specification's own merged rows (outu / outs, per label in order of component minima)
    against the code, mapped through the code's (valid) numbering"""
    from fractions import Fraction
    out = []
    cmin = spec["cmin"]
    roots = sorted(set(cmin))
    code_label = [int(lab[r]) for r in roots]         # spec label k -> code label
    for key, rows, den in (("merge_u", spec["outu"], 1), ("merge_s", spec["outs"], spec["scaleden"])):
        m = obs[key]
        for k, cl in enumerate(code_label):
            want = {"Number_of_pixels": Fraction(rows[0][k]), "sum_intensity": Fraction(rows[1][k], den),
                    "npk2d": Fraction(rows[6][k])}
            if rows[1][k] != 0:          # weights of any sign; total weight 0: the mean is undefined
                want.update({"s_raw": Fraction(rows[2][k], rows[1][k]), "f_raw": Fraction(rows[3][k], rows[1][k]),
                             "omega": Fraction(rows[4][k], rows[1][k]), "dty": Fraction(rows[5][k], rows[1][k])})
            for name, e in want.items():
                x = float(m[name][cl])
                if not L.close(x, e, max(1.0, abs(float(e)))):
                    out.append("%s[%s][%d] = %r, specification value %s" % (key, name, cl, x, e))
    return out



# --------------------------------------------------------------------------------------
# the user route and table histories

_tmpcount = [0]


def tmp_h5():
    _tmpcount[0] += 1
    return os.path.join(common.scratch(), "c15_tbl_%d_%d.h5" % (os.getpid(), _tmpcount[0]))


@contextlib.contextmanager
def hush():
    """stdout of tictoc / find_ND_labels, numpy 0/0 warnings, 'Exception ignored in __del__' lines"""
    old = sys.unraisablehook
    sys.unraisablehook = lambda *a: None
    try:
        with contextlib.redirect_stdout(io.StringIO()), np.errstate(all="ignore"), warnings.catch_warnings():
            warnings.simplefilter("ignore")
            try:
                yield
            finally:
                if sys.exc_info()[0] is not None:
                    gc.collect()          # half-built tables die here, not later on the terminal
    finally:
        sys.unraisablehook = old


def overlap_weights(ne, sd):
    """rc[2] = number of shared pixels of each overlapping pair (any positive number: labels do not depend on it)"""
    return np.random.default_rng([int(sd), int(ne), 77]).integers(1, 10, ne).astype(np.int64)


def make_npk_table(P, n, ei, ej, table, sd, stats=None):
    """the table the way goforit() / process() build it: pks_table(npk) allocates ipk, rpk, pk_props, rc
    in shared memory; a worker attaches with fromSHM(export()) and fills its scans' slices.
    Raises whatever the code raises."""
    ne = len(ei)
    npk = L.split_scans(n, ne, sd)
    mem = P.pks_table(npk=npk)
    w = P.pks_table.fromSHM(mem.export())
    for i in range(len(npk)):
        a, b = int(w.ipk[i]), int(w.ipk[i + 1])
        w.pk_props[:, a:b] = table.props[:, a:b]
        a, b = int(w.rpk[i]), int(w.rpk[i + 1])
        w.rc[0, a:b] = ei[a:b]
        w.rc[1, a:b] = ej[a:b]
        w.rc[2, a:b] = overlap_weights(ne, sd)[a:b]
    del w
    if stats is not None:
        stats["npk_route_tables"] = stats.get("npk_route_tables", 0) + 1
        stats["npk_route_scans_max"] = max(stats.get("npk_route_scans_max", 0), len(npk))
    return mem


def make_route_table(P, n, ei, ej, table, sd, stats=None):
    """npk route; when the overlap list is empty the shared-memory constructor cannot allocate it
    (reported once by probe_empty): fall back to the ipk constructor + the npk attribute save() needs"""
    ei = np.ascontiguousarray(ei, np.int64)
    ej = np.ascontiguousarray(ej, np.int64)
    if len(ei) > 0:
        return make_npk_table(P, n, ei, ej, table, sd, stats)
    with hush():
        try:
            return make_npk_table(P, n, ei, ej, table, sd, stats)
        except ValueError:
            pass
        gc.collect()
    if stats is not None:
        stats["npk_route_fallback_no_edges"] = stats.get("npk_route_fallback_no_edges", 0) + 1
    t = make_pks_table(P, n, ei, ej, table)
    t.npk = np.array([(n, 0, 0)], np.int64)
    return t


def copy_dict(d):
    return {k: np.array(v) for k, v in d.items()}       # pk2d returns views of the (shared) table


def monitor_of(table):
    """(monitor, monitor_ref) for the dataset route: scale_factor = monitor_ref / monitor"""
    if getattr(table, "monitor", None) is not None:
        return table.monitor
    with np.errstate(all="ignore"):
        return 1.0 / np.asarray(table.scale(), np.float64), 1.0


def stage_obs(t, table, name):
    om, dy, sc = table.omega(), table.dty(), table.scale()
    st = {"name": name, "attrs": (int(t.nlabel), np.array(t.glabel))}
    st["merge_u"] = copy_dict(t.pk2dmerge(om, dy))
    st["merge_s"] = copy_dict(t.pk2dmerge(om, dy, scale_factor=sc))
    st["pk2d_u"] = copy_dict(t.pk2d(om, dy))
    st["pk2d_s"] = copy_dict(t.pk2d(om, dy, scale_factor=sc))
    return st


_ds_stage_count = [0]


def dataset_stage(D, path, table, name):
    """dataset.py:818-846: peaks_table -> pks_table.load(pksfile); pk2d / pk4d with and without monitor.
    Three ways in turn: (0) ONE DataSet: both tables read without monitor, then the monitor is given
    (monitor, monitor_ref set; reset_peaks_cache() as its docstring asks) and both are read again;
    (1) the same with the merged table read first; (2) two new DataSets, the monitor given before any read"""
    def mk(scaled):
        ds = D.DataSet()
        ds.pksfile = path
        ds.omega_for_bins = table.omega()
        ds.dty = table.dty()
        if scaled:
            ds.monitor, ds.monitor_ref = monitor_of(table)
        return ds
    way = _ds_stage_count[0] % 3
    _ds_stage_count[0] += 1
    if way == 2:
        dsu, dss = mk(False), mk(True)
        t = dsu.peaks_table
        st = {"name": name, "attrs": (int(t.nlabel), np.array(t.glabel)),
              "merge_u": copy_dict(dsu.pk4d), "merge_s": copy_dict(dss.pk4d),
              "pk2d_u": copy_dict(dsu.pk2d), "pk2d_s": copy_dict(dss.pk2d)}
        return st, t
    ds = mk(False)
    t = ds.peaks_table
    st = {"name": name + (" [one DataSet: tables, monitor, tables]"), "attrs": (int(t.nlabel), np.array(t.glabel))}
    for suffix in ("_u", "_s"):
        for key in (("pk2d", "merge") if way == 0 else ("merge", "pk2d")):
            st[key + suffix] = copy_dict(ds.pk2d if key == "pk2d" else ds.pk4d)
        if suffix == "_u":
            ds.monitor, ds.monitor_ref = monitor_of(table)
            ds.reset_peaks_cache()
    return st, t


def observe_hist(n, ei, ej, table, hist, sd=0, via_dataset=False, stats=None):
    """build the table by the user route, label it (numba), then apply the operations of hist; the
    table is observed after the first labelling and after every operation.  Returns {"stages": [...]}
    (+ "exc" when something raised: what had been observed until then is still judged)"""
    numba, P, threads = load_real()
    D = _real["D"]
    stages = []
    out = {"stages": stages}
    done = []
    t = None
    try:
        with hush():
            t = make_route_table(P, n, ei, ej, table, sd, stats)
            cc = t.find_uniq()
            stages.append(stage_obs(t, table, "find_uniq"))
            stages[-1]["returned"] = (int(cc[0]), np.array(cc[1]))
            for op in hist:
                done.append(op)
                cc = None
                if op == "numba":
                    cc = t.find_uniq()
                elif op == "scipy":
                    cc = t.find_uniq(use_scipy=True)
                elif op == "saveload":
                    path = tmp_h5()
                    try:
                        t.save(path)
                        if via_dataset:
                            st, t = dataset_stage(D, path, table, "+".join(["find_uniq"] + done) + " (dataset)")
                            stages.append(st)
                            continue
                        t = P.pks_table.load(path)
                    finally:
                        if os.path.exists(path):
                            os.remove(path)
                elif op != "merge":
                    raise common.MachineryError("unknown table operation %r" % (op,))
                stages.append(stage_obs(t, table, "+".join(["find_uniq"] + done)))
                if cc is not None:
                    stages[-1]["returned"] = (int(cc[0]), np.array(cc[1]))
    except common.MachineryError:
        raise
    except Exception as e:
        out["exc"] = "%s raised %r" % ("+".join(done) or "find_uniq", e)
    finally:
        with hush():
            del t
    return out


def judge_stages(n, root, table, obs, stats=None, spec=None):
    """every stage: the labels the table holds are a valid labelling of the components; the merged and
    2D tables are the exact sums / means by THOSE labels; (TLC record) the rows of every component are
    the specification's"""
    problems = []
    if "exc" in obs:
        problems.append(obs["exc"])
    for st in obs["stages"]:
        nl, lab = st["attrs"]
        pr, renum = L.judge_labels(n, root, nl, lab)
        if not pr and "returned" in st:
            # what find_uniq returned is what the table holds (pk2d's spot3d_id, pk2dmerge's rows refer to it)
            rn, rl = st["returned"]
            if rn != nl or not np.array_equal(np.asarray(rl), np.asarray(lab)):
                pr = ["find_uniq returned a labelling (%d labels) that is not the one the table holds "
                      "(nlabel=%d): pk2d / pk2dmerge refer to other labels than the caller got" % (rn, nl)]
        if pr:
            problems += ["after %s: %s" % (st["name"], p) for p in pr]
            continue
        last = ([o for o in st["name"].split(" ")[0].split("+") if o in ("find_uniq", "numba", "scipy")]
                or ["find_uniq"])[-1]
        if stats is not None:
            stats["stages_judged"] = stats.get("stages_judged", 0) + 1
            if np.asarray(lab).dtype == np.int32:
                stats["stages_with_int32_labels"] = stats.get("stages_with_int32_labels", 0) + 1
            if renum:
                stats["stages_renumbered"] = stats.get("stages_renumbered", 0) + 1
                if last != "scipy":
                    stats["renumbered"] = stats.get("renumbered", 0) + 1
        lab = np.asarray(lab, np.int64)
        pr = []
        for key, scaled in (("merge_u", False), ("merge_s", True)):
            pr += L.judge_merge(table, lab, nl, scaled, st[key])
        for key, scaled in (("pk2d_u", False), ("pk2d_s", True)):
            pr += L.judge_pk2d(table, st["attrs"][1], scaled, st[key])
        if spec is not None and not pr:
            pr += judge_spec_rows(spec, lab, st)
        problems += ["after %s: %s" % (st["name"], p) for p in pr]
    return problems


# --------------------------------------------------------------------------------------
# DataSet histories (LabelND DsHist > 0): the caches of dataset.DataSet that feed the merge with
# scale factors.  THE LAW: every table read is the table of the CURRENT labels with the CURRENT
# scale factors (= monitor_ref / monitor of the monitor in force, none before the first set_monitor).

DS_READS = ("pk2d", "pk4d", "cf2d", "cf4d")


class DsEnv(object):
    """files of one instance: the labelled table saved by the user route (pks_table(npk) -> find_uniq ->
    save) and a master file holding the monitors; open() gives a new DataSet on them.
    Expectations: tabs[m] = (L.Table with the scale factors of monitor m, scaled?) - m = 0: no monitor"""

    def __init__(self, n, ei, ej, root, props, omega, dty, monitors, monrefs, monscale, monscaleden,
                 shape=(2, 2), sd=0, stats=None, rows=None):
        self.n, self.ei, self.ej, self.root = int(n), np.asarray(ei, np.int64), np.asarray(ej, np.int64), root
        self.sd, self.stats = sd, stats
        self.dir = None
        self.saved = None                    # (nlabel, labels) of the saved table, once the files exist
        self.shape = tuple(shape)
        self.rows = rows                     # specification rows per monitor (optional)
        self.monitors = [np.asarray(m, float).reshape(self.shape) for m in monitors]
        self.monrefs = [float(r) for r in monrefs]
        self.tabs = []
        for m in range(len(monscale)):
            self.tabs.append((L.Table(props, self.shape, omega, 1, dty, 1, monscale[m], int(monscaleden[m])), m > 0))

    def files(self):
        """the real code writes the table (once)"""
        if self.dir is not None:
            return
        numba, P, threads = load_real()
        import h5py
        t0 = self.tabs[0][0]
        _tmpcount[0] += 1
        self.dir = os.path.join(common.scratch(), "c15_ds_%d_%d" % (os.getpid(), _tmpcount[0]))
        os.makedirs(self.dir)
        self.scans = ["%d.1" % (k + 1) for k in range(self.shape[0])]
        self.master = os.path.join(self.dir, "master.h5")
        with h5py.File(self.master, "w") as h:
            for k, sc in enumerate(self.scans):
                g = h.require_group(sc).require_group("measurement")
                for m, mon in enumerate(self.monitors):
                    g["mon%d" % (m + 1)] = mon[k]
        self.pksfile = os.path.join(self.dir, "pks.h5")
        with hush():
            t = make_route_table(P, self.n, self.ei, self.ej, t0, self.sd, self.stats)
            cc = t.find_uniq()
            t.save(self.pksfile)
            self.saved = (int(t.nlabel), np.array(t.glabel))
            del t
        self.nsave = 0

    def open(self):
        self.files()
        D = _real["D"]
        ds = D.DataSet(dataroot=self.dir, analysisroot=self.dir, sample="s", dset="d")
        t0 = self.tabs[0][0]
        ds.scans = list(self.scans)
        ds.shape = self.shape
        ds.omega = t0.omega().copy()
        ds.dty = t0.dty().copy()
        ds.guessbins()
        ds.masterfile = self.master
        ds.pksfile = self.pksfile
        ds.splinefile = None           # no spatial correction
        return ds

    def saveload(self, ds):
        D = _real["D"]
        self.nsave += 1
        path = os.path.join(self.dir, "ds_%d.h5" % self.nsave)
        try:
            ds.save(path)
            ds2 = D.load(path)
        finally:
            if os.path.exists(path):
                os.remove(path)
        # splinefile = None is not written by save(): a dataset without spatial correction is told so again
        if not hasattr(ds2, "splinefile"):
            ds2.splinefile = None
        return ds2


def cf_dict(cf):
    return {t: np.array(cf.getcolumn(t)) for t in cf.titles}


def observe_ds(env, ops):
    """apply the operations (op, arg) to ONE new DataSet; returns one entry per operation:
    None (nothing to look at), a dict (the table read, copied at that moment), a (nlabel, labels) pair
    for ds.peaks_table, or {"exc": ...} (the history stops there)"""
    out = []
    with hush():
        try:
            ds = env.open()
        except common.MachineryError:
            raise
        except Exception as e:
            return [{"exc": "%r" % (e,)}], None
        for op, arg in ops:
            try:
                if op == "pk2d":
                    o = copy_dict(ds.pk2d)
                elif op == "pk4d":
                    o = copy_dict(ds.pk4d)
                elif op == "cf2d":
                    o = cf_dict(ds.get_cf_2d())
                elif op == "cf4d":
                    o = cf_dict(ds.get_cf_4d())
                elif op == "table":
                    t = ds.peaks_table
                    o = (int(t.nlabel), np.array(t.glabel))
                elif op == "setmon":
                    if int(arg) == 1:
                        ds.set_monitor(name="mon1")                  # monitor_ref = np.mean(monitor), the default
                    else:
                        ref = env.monrefs[int(arg) - 1]
                        ds.set_monitor(name="mon%d" % int(arg), ref_value_func=lambda x: ref)
                    o = None
                elif op == "reset":
                    ds.reset_peaks_cache()
                    o = None
                elif op == "saveload":
                    ds = env.saveload(ds)
                    o = None
                else:
                    raise common.MachineryError("unknown DataSet operation %r" % (op,))
            except common.MachineryError:
                raise
            except Exception as e:
                out.append({"exc": "%r" % (e,)})
                break
            out.append(o)
        tt = None
        try:
            tt = (int(ds.peaks_table.nlabel), np.array(ds.peaks_table.glabel))
        except Exception as e:
            tt = {"exc": "%r" % (e,)}
        del ds
    return out, tt


def rows_problems(what, rows, den, cmin, lab, m):
    """the specification's merged rows (per component in the order of the minima) against a merged table
    of the code, mapped through the code's (valid) numbering"""
    from fractions import Fraction
    out = []
    roots = sorted(set(cmin))
    for k, r in enumerate(roots):
        cl = int(lab[r])
        want = {"Number_of_pixels": Fraction(rows[0][k]), "sum_intensity": Fraction(rows[1][k], den),
                "npk2d": Fraction(rows[6][k])}
        if rows[1][k] != 0:              # weights of any sign; total weight 0: the mean is undefined
            want.update({"s_raw": Fraction(rows[2][k], rows[1][k]), "f_raw": Fraction(rows[3][k], rows[1][k]),
                         "omega": Fraction(rows[4][k], rows[1][k]), "dty": Fraction(rows[5][k], rows[1][k])})
        for name, e in want.items():
            x = float(m[name][cl])
            if not L.close(x, e, max(1.0, abs(float(e)))):
                out.append("%s[%s][%d] = %r, specification value %s" % (what, name, cl, x, e))
    return out


def judge_ds(env, dshist, obs, final, stats=None):
    """dshist: the specification's entries [op, arg, mon, ret]; the expectation of every read is the
    table of the labels of the file with the scale factors of entry.mon (the LAW - not entry.ret, which
    is what the model of the code returns and equals mon by invariant DsLaw)"""
    problems = []
    if env.saved is None:
        return ["building and saving the table / opening the DataSet raised %s"
                % (obs[0].get("exc") if obs and isinstance(obs[0], dict) else "?")]
    nl0, lab0 = env.saved
    pr, _ = L.judge_labels(env.n, env.root, nl0, lab0)
    if pr:
        return ["the table saved for the DataSet histories: %s" % pr[0]]
    done = []
    for k, e in enumerate(dshist):
        name = e["op"] + ("(%d)" % e["arg"] if e["op"] == "setmon" else "")
        done.append(name)
        where = "after " + ", ".join(done)
        if k >= len(obs):
            break
        o = obs[k]
        if isinstance(o, dict) and "exc" in o:
            problems.append("%s: %s raised %s" % (where, name, o["exc"]))
            break
        if e["op"] == "table":
            if o[0] != nl0 or not np.array_equal(o[1], lab0):
                problems.append("%s: ds.peaks_table does not hold the labels that were saved" % where)
            continue
        if e["op"] not in DS_READS:
            continue
        mon = int(e["mon"])
        table, scaled = env.tabs[mon]
        how = "monitor %d in force" % mon if mon else "no monitor set"
        if e["op"] in ("pk4d", "cf4d"):
            pr = L.judge_merge(table, np.asarray(lab0, np.int64), nl0, scaled, o)
            if not pr and env.rows is not None:
                pr = rows_problems("merged table", env.rows[mon], table.sc_den, [int(x) for x in env.root], lab0, o)
            if stats is not None:
                stats["ds_merged_reads_judged"] = stats.get("ds_merged_reads_judged", 0) + 1
                if mon:
                    stats["ds_merged_reads_with_monitor"] = stats.get("ds_merged_reads_with_monitor", 0) + 1
        else:
            pr = L.judge_pk2d(table, lab0, scaled, o)
            if stats is not None:
                stats["ds_2d_reads_judged"] = stats.get("ds_2d_reads_judged", 0) + 1
        problems += ["%s (%s): %s" % (where, how, p) for p in pr[:3]]
        if len(problems) >= 5:
            break
    if isinstance(final, dict):
        problems.append("ds.peaks_table at the end raised %s" % final["exc"])
    elif final is not None and (final[0] != nl0 or not np.array_equal(final[1], lab0)):
        problems.append("at the end ds.peaks_table does not hold the labels that were saved")
    return problems


def ds_stale_risk(r):
    """non-vacuity: reads that follow a set_monitor to ANOTHER monitor than the one a table of the same
    kind was last read under (the reads a surviving cache would get wrong)"""
    last = {"2": None, "4": None}
    cnt = 0
    for e in r["dshist"]:
        if e["op"] in DS_READS:
            k = e["op"][-2]
            if last[k] is not None and last[k] != e["mon"]:
                cnt += 1
            last[k] = e["mon"]
        elif e["op"] == "saveload":
            last = {"2": None, "4": None}
    return cnt


def ds_key(r):
    return tuple((e["op"], int(e["arg"])) for e in r["dshist"])


def parse_ds_records(res, name):
    recs, seen, bad = [], set(), 0
    for s_ in res.printed:
        try:
            r = json.loads(s_)
            if "dshist" not in r:
                continue
            key = (r["n"], tuple(r["ei"]), tuple(r["ej"]), tuple(r["hist"]), ds_key(r))
        except Exception:
            bad += 1
            continue
        if key not in seen:
            seen.add(key)
            recs.append(r)
    if bad:
        raise common.MachineryError("%d unparsable Emit lines in TLC run %s" % (bad, name))
    return recs


def ds_env_of(grp, sd=0, stats=None):
    """the disjoint union of the instances of one history (records grp, same dshist) as one DataSet"""
    r0 = grp[0]
    n, ei, ej, offs = L.union_of_records(grp, False)
    root = np.concatenate([np.array(r["cmin"], np.int64) + int(offs[k]) for k, r in enumerate(grp)])
    if not np.array_equal(root, L.roots_unionfind(n, ei, ej)):
        raise common.MachineryError("specification cmin != union-find oracle on a DataSet instance")
    props = np.concatenate([np.array(r["props"], np.int64).reshape(5, r["n"]) for r in grp], axis=1)
    nm = len(r0["monscale"])
    rows = [[sum((r["outm"][m][row] for r in grp), []) for row in range(7)] for m in range(nm)]
    for r in grp:
        for k in ("omega", "dty", "monitor", "monref", "monscale", "monscaleden"):
            if r[k] != r0[k]:
                raise common.MachineryError("DataSet records of one history disagree on %s" % k)
    # the specification's own arithmetic: scale numerator / SDen == monitor_ref / monitor
    for m in range(1, nm):
        for f in range(len(r0["omega"])):
            if r0["monscale"][m][f] * r0["monitor"][m - 1][f] != r0["monref"][m - 1] * r0["monscaleden"][m]:
                raise common.MachineryError("specification scale factors are not monitor_ref / monitor")
    return DsEnv(n, ei, ej, root, props, r0["omega"], r0["dty"], r0["monitor"], r0["monref"], r0["monscale"],
                 r0["monscaleden"], shape=(2, len(r0["omega"]) // 2), sd=sd, stats=stats, rows=rows)


def replay_ds(recs, stats, limit=5):
    """every DataSet history of the records on a real DataSet.  Returns [(what, case)] (at most limit)"""
    numba, P, threads = load_real()
    groups = {}
    for r in recs:
        groups.setdefault(ds_key(r), []).append(r)
    envs = {}
    out = []
    t0 = time.time()
    ops_seen = {}
    for gi, (key, grp) in enumerate(sorted(groups.items())):
        grp.sort(key=lambda r: (r["n"], r["ei"], r["ej"]))
        for r in grp[1:]:
            if r["dshist"] != grp[0]["dshist"]:
                raise common.MachineryError("the specification's DataSet history depends on the instance")
        ik = tuple((r["n"], tuple(r["ei"]), tuple(r["ej"]), tuple(r["labels"])) for r in grp)
        if ik not in envs:
            envs[ik] = ds_env_of(grp, sd=common.seed() + len(envs), stats=stats)
        env = envs[ik]
        dshist = grp[0]["dshist"]
        nt = 3 if (gi % 16 == 5 and 3 in threads) else 1     # the DataSet adds no parallel code of its own
        with numba_threads(numba, nt):
            obs, final = observe_ds(env, [(e["op"], e["arg"]) for e in dshist])
        pr = judge_ds(env, dshist, obs, final, stats)
        stats["ds_histories"] = stats.get("ds_histories", 0) + 1
        for e in dshist:
            ops_seen[e["op"]] = ops_seen.get(e["op"], 0) + 1
        if pr and len(out) < limit:
            what = "DataSet history %s on the union of %d TLC instances: %s" % (
                [k[0] + ("(%d)" % k[1] if k[0] == "setmon" else "") for k in key], len(grp), pr[0])
            out.append((what, {"kind": "ds", "recs": grp, "problems": pr[:5]}))
    stats["ds_operations"] = ops_seen
    stats["ds_instances"] = [len(k) for k in envs]
    stats["ds_wall_s"] = round(time.time() - t0, 1)
    return out

# --------------------------------------------------------------------------------------
# replayable cases

def run_case(case):
    """re-execute a case dict against the current tree; returns list of problems"""
    numba, P, threads = load_real()
    kind = case["kind"]
    if kind == "trace":
        return run_trace_case(case)
    if kind == "probe":
        return probe_empty(None, {}, replay=True)
    if kind == "child":
        res = run_child(case["job"])
        return list(res.get("problems", []))
    if kind == "ds":
        return [w for w, _ in replay_ds(case["recs"], {})]
    if kind == "graph":
        n = int(case["n"])
        ei = np.array(case["ei"], np.int64)
        ej = np.array(case["ej"], np.int64)
        table = L.table_from_record(case["record"]) if case.get("record") else L.make_table(n, case.get("tseed", 0))
        spec = case.get("record")
    elif kind == "seeded":
        n, ei, ej = L.make_instance(case["family"], case["n"], case["seed"])
        table = L.make_table(n, case["seed"])
        spec = None
    else:
        raise common.MachineryError("unknown case kind %r" % kind)
    root = L.roots_unionfind(n, ei, ej)
    if spec is not None and list(map(int, root)) != spec["cmin"]:
        return ["specification cmin differs from the union-find oracle (harness/spec error)"]
    if case.get("vtable"):
        table = L.make_vtable(case["vtable"][0], n, case["seed"], root, case["vtable"][1])
    probs = []
    for t in case.get("threads", threads):
        if t > numba.config.NUMBA_NUM_THREADS:
            continue
        with numba_threads(numba, t):
            for rep in range(int(case.get("reps", 1))):
                if case.get("hist") is not None:
                    obs = observe_hist(n, ei, ej, table, case["hist"], case.get("seed", 0),
                                       via_dataset=bool(case.get("via_dataset")))
                    pr = judge_stages(n, root, table, obs, spec=spec)
                else:
                    obs = observe(P, n, ei, ej, table, merge_reps=int(case.get("merge_reps", 1)))
                    pr = judge(n, root, table, obs, spec=spec)
                if pr:
                    probs += ["threads=%d: %s" % (t, p) for p in pr]
                    break
        if probs:
            break
    return probs


# --------------------------------------------------------------------------------------
# mode A: replay of TLC-emitted instances

def replay_records(chk, recs, tier, stats, budget_s):
    numba, P, threads = load_real()
    t_start = time.time()
    tables = {}
    roots = {}
    for r in recs:
        if r["n"] not in tables:
            tables[r["n"]] = L.table_from_record(r)
    nviol = 0
    # (1) every record individually at low thread counts (cheap launches); high thread counts on a
    #     deterministic subsample under a time budget (a parallel region costs ms on a loaded machine)
    low = [t for t in threads if t in (1, 2, 4)]
    high = [t for t in threads if t not in (1, 2, 4)]
    reps = 1 if tier == "quick" else 3
    for t in low:
        with numba_threads(numba, t):
            for r in recs:
                n = r["n"]
                key = (n, tuple(r["ei"]), tuple(r["ej"]))
                if key not in roots:
                    roots[key] = L.roots_unionfind(n, r["ei"], r["ej"])
                    if list(map(int, roots[key])) != r["cmin"]:
                        raise common.MachineryError("specification cmin != union-find oracle for %r" % (key,))
                for rep in range(reps if t > 1 else 1):
                    obs = observe(P, n, r["ei"], r["ej"], tables[n], scipy_route=(t == 1 and rep == 0))
                    pr = judge(n, roots[key], tables[n], obs, stats, spec=r)
                    chk.case((key, t), nontrivial=(r["ne"] > 0 and len(set(r["cmin"])) < n))
                    chk.traces += 1
                    stats["replayed"] += 1
                    if pr and nviol < 10:
                        nviol += 1
                        chk.violation("TLC instance n=%d ei=%s ej=%s threads=%d: %s" % (n, r["ei"], r["ej"], t, pr[0]),
                                      {"kind": "graph", "n": n, "ei": r["ei"], "ej": r["ej"], "record": r,
                                       "threads": [t], "reps": 50, "problems": pr[:5]})
                        break
    if recs:
        chk.sample({"tlc_record": {k: recs[len(recs) // 2][k] for k in ("n", "ei", "ej", "nlabel", "labels", "outu")},
                    "routes": ["find_ND_labels", "pks_table.find_uniq", "find_uniq(use_scipy=True)",
                               "pk2dmerge", "pk2dmerge(scale_factor)", "pk2d"]})
    if chk.violations:
        stats["replay_stopped_early"] = "violations at low thread counts: high thread counts and unions skipped"
        stats["replay_wall_s"] = round(time.time() - t_start, 1)
        return
    rng = np.random.default_rng([common.seed(), 15])
    for t in high:
        order = rng.permutation(len(recs))
        tend = time.time() + budget_s / max(1, len(high))
        cnt = 0
        with numba_threads(numba, t):
            for idx in order:
                if time.time() > tend and cnt >= 20:
                    break
                r = recs[idx]
                n = r["n"]
                key = (n, tuple(r["ei"]), tuple(r["ej"]))
                obs = observe(P, n, r["ei"], r["ej"], tables[n], scipy_route=False, merge=False)
                pr = judge(n, roots[key], tables[n], obs, stats, spec=r)
                chk.case((key, t), nontrivial=(r["ne"] > 0))
                chk.traces += 1
                cnt += 1
                if pr and nviol < 10:
                    nviol += 1
                    chk.violation("TLC instance n=%d ei=%s ej=%s threads=%d: %s" % (n, r["ei"], r["ej"], t, pr[0]),
                                  {"kind": "graph", "n": n, "ei": r["ei"], "ej": r["ej"], "record": r,
                                   "threads": [t], "reps": 50, "problems": pr[:5]})
        stats["individual_at_%d_threads" % t] = cnt
    # (2) every record at every thread count: disjoint unions (plain and interleaved edge layout)
    ureps = 2 if tier == "quick" else 6
    for interleave in (False, True):
        if not recs:
            continue
        n, ei, ej, offs, root, table = union_instance(recs, interleave)
        for t in threads:
            with numba_threads(numba, t):
                for rep in range(ureps if t > 1 else 1):
                    obs = observe(P, n, ei, ej, table, direct=(rep == 0), scipy_route=False, merge=(rep == 0))
                    pr = judge(n, root, table, obs, stats)
                    stats["union_runs"] += 1
                    chk.case(("union", interleave, t, rep, len(recs)))
                    if rep == 0:
                        chk.traces += len(recs)
                    if pr and nviol < 10:
                        nviol += 1
                        # reduce to the member instances that came out wrong
                        members = failing_members(recs, offs, root, obs)
                        chk.violation("union of %d TLC instances (interleave=%s) threads=%d: %s; members %s"
                                      % (len(recs), interleave, t, pr[0], [(m["n"], m["ei"], m["ej"]) for m in members[:3]]),
                                      {"kind": "graph", "n": members[0]["n"], "ei": members[0]["ei"],
                                       "ej": members[0]["ej"], "record": members[0], "threads": [t], "reps": 200,
                                       "problems": pr[:5], "found_in": "union of %d instances" % len(recs)}
                                      if members else
                                      {"kind": "graph", "n": n, "ei": ei.tolist(), "ej": ej.tolist(), "threads": [t],
                                       "reps": 20, "problems": pr[:5]})
    stats["replay_wall_s"] = round(time.time() - t_start, 1)


def union_instance(recs, interleave):
    """disjoint union of TLC records with the specification's property table"""
    n, ei, ej, offs = L.union_of_records(recs, interleave)
    root = np.concatenate([np.array(r["cmin"], np.int64) + int(offs[k]) for k, r in enumerate(recs)])
    props = np.concatenate([np.array(r["props"], np.int64).reshape(5, r["n"]) for r in recs], axis=1)
    t0 = L.table_from_record(recs[0])
    table = L.Table(props, t0.shape, t0.om_num, t0.om_den, t0.dty_num, t0.dty_den, t0.sc_num, t0.sc_den)
    return n, ei, ej, offs, root, table


def failing_members(recs, offs, root, obs):
    out = []
    for route in ("direct", "find_uniq"):
        if route in obs:
            lab = np.asarray(obs[route][1])
            if lab.shape != root.shape:
                continue
            bad = lab != lab[root]
            for v in np.nonzero(bad)[0][:5]:
                k = int(np.searchsorted(offs, v, side="right") - 1)
                if recs[k] not in out:
                    out.append(recs[k])
    return out



# --------------------------------------------------------------------------------------
# mode A, table histories: replay of the records of configuration hist

def parse_hist_records(res):
    recs, seen, bad = [], set(), 0
    for s_ in res.printed:
        try:
            r = json.loads(s_)
            key = (r["n"], tuple(r["ei"]), tuple(r["ej"]), tuple(r["hist"]))
        except Exception:
            bad += 1
            continue
        if key not in seen:
            seen.add(key)
            recs.append(r)
    if bad:
        raise common.MachineryError("%d unparsable Emit lines in TLC run hist" % bad)
    recs.sort(key=lambda r: (r["hist"], r["n"], r["ne"], r["ei"], r["ej"]))
    return recs


def union_spec(recs, offs):
    """the specification's merged rows of a disjoint union: the members' rows, member after member
    (= order of the component minima of the union)"""
    cmin, outu, outs = [], [[] for _ in range(7)], [[] for _ in range(7)]
    for k, r in enumerate(recs):
        cmin += [c + int(offs[k]) for c in r["cmin"]]
        for row in range(7):
            outu[row] += r["outu"][row]
            outs[row] += r["outs"][row]
    return {"cmin": cmin, "outu": outu, "outs": outs, "scaleden": recs[0]["scaleden"]}


def replay_hist(chk, recs, tier, stats, budget_s):
    numba, P, threads = load_real()
    t_start = time.time()
    recs = [r for r in recs if r["hist"]]
    rng = np.random.default_rng([common.seed(), 1519])
    order = rng.permutation(len(recs))
    tl = [t for t in (1, 3, max(threads)) if t in threads]
    per_hist = {}
    tables = {}
    nviol = 0
    # (1) every record: per history the disjoint union of all its instances is one table
    groups = {}
    for r in recs:
        groups.setdefault(tuple(r["hist"]), []).append(r)
    for gi, (hist, grp) in enumerate(sorted(groups.items())):
        n, ei, ej, offs, root, table = union_instance(grp, interleave=bool(gi % 2))
        if not np.array_equal(root, L.roots_unionfind(n, ei, ej)):
            raise common.MachineryError("specification cmin != union-find oracle on the union for %r" % (hist,))
        uspec = union_spec(grp, offs)
        for k, via in enumerate((False, True)):
            t = tl[(gi + k) % min(2, len(tl))]      # 1 and 3 threads: a history adds no parallel code of its own
            with numba_threads(numba, t):
                obs = observe_hist(n, ei, ej, table, hist, sd=common.seed() + gi, via_dataset=via, stats=stats)
            pr = judge_stages(n, root, table, obs, stats, spec=uspec)
            chk.case(("hist-union", hist, t, len(grp)))
            if k == 0:
                chk.traces += len(grp)
            stats["history_union_runs"] = stats.get("history_union_runs", 0) + 1
            if pr and nviol < 5:
                nviol += 1
                chk.violation("union of the %d TLC instances with history %s, threads=%d%s: %s"
                              % (len(grp), list(hist), t, " (dataset route)" if via else "", pr[0]),
                              {"kind": "graph", "n": n, "ei": ei.tolist(), "ej": ej.tolist(), "hist": list(hist),
                               "via_dataset": via, "seed": common.seed() + gi, "threads": [t], "reps": 2,
                               "tseed": 0, "problems": pr[:5], "note": "replayed with a seeded table"})
    if nviol:
        stats["histories_wall_s"] = round(time.time() - t_start, 1)
        return
    # (2) individually, in random order under a time budget
    for cnt, idx in enumerate(order):
        if tier == "quick" and time.time() - t_start > budget_s and cnt >= 150:
            break
        r = recs[idx]
        n = r["n"]
        if n not in tables:
            tables[n] = L.table_from_record(r)
        root = np.array(r["cmin"], np.int64)
        if not np.array_equal(root, L.roots_unionfind(n, r["ei"], r["ej"])):
            raise common.MachineryError("specification cmin != union-find oracle for %r" % (r,))
        t = tl[cnt % len(tl)]
        via = bool((cnt // len(tl)) % 2)
        with numba_threads(numba, t):
            obs = observe_hist(n, r["ei"], r["ej"], tables[n], r["hist"], sd=common.seed() + cnt,
                               via_dataset=via, stats=stats)
        pr = judge_stages(n, root, tables[n], obs, stats, spec=r)
        hk = "+".join(r["hist"])
        per_hist[hk] = per_hist.get(hk, 0) + 1
        if "saveload" in r["hist"]:
            stats["saveload_via_dataset" if via else "saveload_via_pks_table_load"] = \
                stats.get("saveload_via_dataset" if via else "saveload_via_pks_table_load", 0) + 1
        chk.case(("hist", n, tuple(r["ei"]), tuple(r["ej"]), tuple(r["hist"]), t),
                 nontrivial=(r["ne"] > 0 and len(set(r["cmin"])) < n))
        chk.traces += 1
        if pr and nviol < 5:
            nviol += 1
            chk.violation("TLC history n=%d ei=%s ej=%s hist=%s threads=%d%s: %s"
                          % (n, r["ei"], r["ej"], r["hist"], t, " (dataset route)" if via else "", pr[0]),
                          {"kind": "graph", "n": n, "ei": r["ei"], "ej": r["ej"], "record": r, "hist": r["hist"],
                           "via_dataset": via, "seed": common.seed() + cnt, "threads": [t], "reps": 3,
                           "problems": pr[:5]})
    stats["histories_replayed"] = per_hist
    stats["histories_wall_s"] = round(time.time() - t_start, 1)
    if recs:
        r = recs[int(order[0])]
        chk.sample({"tlc_history": {k: r[k] for k in ("n", "ei", "ej", "hist", "outu")},
                    "route": "pks_table(npk) in shared memory -> fromSHM(export()) fill -> find_uniq -> operations"},
                   limit=12)

# --------------------------------------------------------------------------------------
# seeded large instances

def seeded_plan(tier, threads):
    """(family, n, thread counts, options).  Many-sweep chains only at low thread counts: every sweep is a
    parallel region and on a shared machine one region costs milliseconds at 8-16 threads.
    options: merge_reps (pk2dmerge called that many times per thread count), vtable (value class, layout)"""
    lo = [t for t in threads if t <= 4]
    lo7 = [t for t in threads if t <= 7]
    few = sorted(set([threads[0], 5 if 5 in threads else threads[-1], threads[-1]]))
    if tier == "quick":
        big = 200000
        plan = [("chain_random", 60, threads, {}), ("chain_random", 4000, lo7, {}), ("chain_ordered", big, threads, {}),
                ("chain_forest", big, threads, {}), ("star", big, threads, {}),
                ("merge_race", 120000, threads, {"merge_reps": 3}),
                ("dups_loops", big, threads, {}), ("no_edges", 1000, threads, {}), ("no_edges", 1, threads, {}),
                ("random_sparse", big, threads, {}), ("sinogram", big, threads, {}),
                ("vclass", 24000, few, {"vtable": ("wide", "mixA")}),
                ("vclass", 24000, few, {"vtable": ("monitor", "C64")}),
                ("vclass", 24000, few, {"vtable": ("zero", "mixB")}),
                ("vclass", 24000, few, {"vtable": ("neg", "mixA")}),
                ("vclass", 24000, few[:2], {"vtable": ("negmon", "C64")})]
    else:
        big = 1000000
        plan = [("chain_random", 60, threads, {}), ("chain_random", 200, threads, {}), ("chain_random", 30000, lo, {}),
                ("chain_random", 100000, [1, 2], {}), ("chain_ordered", big, threads, {}),
                ("chain_ordered", 1001, threads, {}),
                ("chain_forest", big, threads, {}), ("chain_forest", 50000, threads, {}), ("star", big, threads, {}),
                ("star", 3000, threads, {}), ("merge_race", big, threads, {"merge_reps": 3}),
                ("merge_race", 120000, threads, {"merge_reps": 6}),
                ("dups_loops", big, threads, {}), ("dups_loops", 5000, threads, {}),
                ("no_edges", big, threads, {}), ("no_edges", 1, threads, {}), ("random_sparse", big, threads, {}),
                ("random_sparse", 20000, threads, {}), ("sinogram", big, threads, {}), ("sinogram", 30000, threads, {})]
        for kind in L.VKINDS:
            for lay in L.LAYOUTS:
                if kind in ("monitor", "negmon") and lay != "C64":
                    continue
                plan.append(("vclass", 24000, few, {"vtable": (kind, lay)}))
        plan.append(("vclass", 100000, few, {"vtable": ("wide", "C64")}))
    return plan


SEEDED_HISTS = (("scipy", "numba", "saveload"), ("scipy", "saveload", "merge"))


def seeded(chk, tier, stats):
    numba, P, threads = load_real()
    sd = common.seed()
    sweeps_seen = []
    walls = stats.setdefault("seeded_wall_s", {})
    vac = stats.setdefault("value_classes", {})
    for fam, n0, tl, opt in seeded_plan(tier, threads):
        t_fam = time.time()
        n, ei, ej = L.make_instance(fam, n0, sd)
        root = L.roots_unionfind(n, ei, ej)
        root2 = L.roots_scipy(n, ei, ej)
        if not np.array_equal(root, root2):
            raise common.MachineryError("oracles disagree (union-find vs scipy) on %s n=%d" % (fam, n))
        ncomp = int((root == np.arange(n)).sum())
        tag = fam
        if opt.get("vtable"):
            table = L.make_vtable(opt["vtable"][0], n, sd, root, opt["vtable"][1])
            tag = "%s[%s/%s]" % (fam, opt["vtable"][0], opt["vtable"][1])
            nl_e, lab_e = L.expected_labels(root)
            ex = L.merged_exact_f(table, lab_e, nl_e, True)
            sizes = np.bincount(lab_e, minlength=nl_e)
            v = vac.setdefault(table.kind, {"runs": 0})
            v.update({"merged_peaks": int(nl_e), "merged_peaks_with_1000_or_more_members": int((sizes >= 1000).sum()),
                      "merged_peaks_of_total_weight_0_means_not_judged": int(sum(1 for x in ex["num"][1] if x == 0)),
                      "merged_peaks_of_negative_total_weight": int(sum(1 for x in ex["num"][1] if x < 0)),
                      "merged_peaks_of_negative_total_weight_with_1000_or_more_members":
                          int(sum(1 for x, z in zip(ex["num"][1], sizes) if x < 0 and z >= 1000)),
                      "merged_peaks_of_positive_total_weight_with_negative_members":
                          int(sum(1 for j, x in enumerate(ex["num"][1]) if x > 0 and ex["absn"][1][j] != x)),
                      "2d_peaks_with_negative_sI": int((table.props[1] < 0).sum()),
                      "merged_peaks_with_zero_and_nonzero_scale_members": int(mixed_zero(table, lab_e, nl_e)),
                      "max_sI": int(table.props[1].max()),
                      "scale_min_max": [float(np.min(table.scale())), float(np.max(table.scale()))],
                      "omega": "%s %s" % (table.omega().dtype, layout_name(table.omega())),
                      "dty": "%s %s" % (table.dty().dtype, layout_name(table.dty())),
                      "scale": "%s %s" % (table.scale().dtype, layout_name(table.scale()))})
        else:
            table = L.make_table(n, sd)
        case0 = {"kind": "seeded", "family": fam, "n": n0, "seed": sd}
        if opt.get("vtable"):
            case0["vtable"] = list(opt["vtable"])
        first = None
        tl = [t for t in tl if t in threads]
        for t in tl:
            hist = None
            if t == tl[0]:
                hist = SEEDED_HISTS[0]
            elif t == tl[-1]:
                hist = SEEDED_HISTS[1]
            with numba_threads(numba, t):
                obs = observe(P, n, ei, ej, table, direct=(t == tl[0]), scipy_route=(t == tl[0]),
                              merge_reps=int(opt.get("merge_reps", 1)))
                cnt = [WD["count"]]
                pr = judge(n, root, table, obs, stats)
                case = dict(case0, threads=[t], reps=5, merge_reps=int(opt.get("merge_reps", 1)))
                if not pr and hist is not None:
                    via = (t == tl[0])
                    ho = observe_hist(n, ei, ej, table, hist, sd=sd, via_dataset=via, stats=stats)
                    pr = judge_stages(n, root, table, ho, stats)
                    stats["seeded_histories"] = stats.get("seeded_histories", 0) + 1
                    if pr:
                        case = dict(case0, threads=[t], reps=2, hist=list(hist), via_dataset=via)
            if "find_uniq" in obs and not pr:
                if first is None:
                    first = obs["find_uniq"]
                elif first[0] != obs["find_uniq"][0] or not np.array_equal(first[1], obs["find_uniq"][1]):
                    stats["differs_across_threads"] = stats.get("differs_across_threads", 0) + 1
            chk.case((tag, n, t), nontrivial=(len(ei) > 0 and ncomp < n))
            chk.traces += 1
            stats["seeded_runs"] += 1
            if opt.get("vtable"):
                vac[table.kind]["runs"] += 1
            if opt.get("merge_reps"):
                stats["merge_race_merges"] = stats.get("merge_race_merges", 0) + 2 * int(opt["merge_reps"])
            sweeps_seen.append(cnt[0])
            if pr:
                chk.violation("seeded %s n=%d seed=%d threads=%d: %s" % (tag, n, sd, t, pr[0]),
                              dict(case, problems=pr[:5]))
                break
        walls["%s/%d" % (tag, n0)] = round(time.time() - t_fam, 1)
        if len(chk.violations) >= 3:
            stats["seeded_stopped_early"] = True
            break
        chk.sample({"seeded": tag, "n": n, "edges": int(len(ei)), "components": ncomp, "threads": list(tl)}, limit=8)
    stats["max_sweeps_in_one_call"] = int(max(sweeps_seen)) if sweeps_seen else 0


def layout_name(a):
    return "C" if a.flags.c_contiguous else ("F" if a.flags.f_contiguous else "strided")


def mixed_zero(table, lab, nl):
    z = np.array([x == 0 for x in table.sc_i])[table.props[4]]
    nz = np.bincount(lab, weights=z.astype(float), minlength=nl)
    sz = np.bincount(lab, minlength=nl)
    return int(((nz > 0) & (nz < sz)).sum())


# --------------------------------------------------------------------------------------
# mode C: record the real sweeps, validate with LabelND_Trace

class Recorder(object):
    """wraps the module-level callables find_ND_labels uses (no source hook)"""

    def __init__(self, P):
        self.P = P
        self.events = []
        self.cleaned = None

    def __enter__(self):
        self.o_sweep, self.o_clean = self.P.numbalabelNd, self.P.get_clean_labels
        self.P.numbalabelNd, self.P.get_clean_labels = self.sweep, self.clean
        return self

    def __exit__(self, *a):
        self.P.numbalabelNd, self.P.get_clean_labels = self.o_sweep, self.o_clean

    def sweep(self, i, j, pkid, flip=0):
        b = self.o_sweep(i, j, pkid, flip=flip)
        self.events.append({"flip": int(flip), "nbad": int(b), "pk": [int(x) for x in pkid]})
        return b

    def clean(self, labels):
        n = self.o_clean(labels)
        self.cleaned = (int(n), [int(x) for x in labels])
        return n


def record_trace(P, numba, tid, n, ei, ej, t):
    ei = np.ascontiguousarray(ei, np.int64)
    ej = np.ascontiguousarray(ej, np.int64)
    exc = None
    nl, lab = -1, []
    with numba_threads(numba, t):
        with Recorder(P) as rec:
            try:
                nl, lab = P.find_ND_labels(ei, ej, n, verbose=0)
            except Exception as e:
                exc = repr(e)
    tr = {"tid": tid, "threads": int(t), "n": int(n), "ne": int(len(ei)), "ei": [int(x) for x in ei],
          "ej": [int(x) for x in ej], "sweeps": rec.events,
          "nlabel": int(nl), "labels": [int(x) for x in lab]}
    if exc is not None:
        tr["exception"] = exc
        return tr, True
    observable = rec.cleaned is not None and len(rec.events) > 0
    if observable and (rec.cleaned[0] != int(nl) or rec.cleaned[1] != tr["labels"]):
        tr["labels"] = rec.cleaned[1]       # what get_clean_labels produced is what the trace spec judges
        tr["nlabel"] = rec.cleaned[0]
        tr["returned_differs_from_clean"] = True
    return tr, observable


def validate_traces(traces, name="traces"):
    """returns {tid: verdict dict}; TLC batch, one JVM"""
    path = os.path.join(common.scratch(), "c15_%s_%d.ndjson" % (name, int(time.time() * 1000) % 10 ** 9))
    with open(path, "w") as f:
        for tr in traces:
            f.write(json.dumps({k: tr[k] for k in ("tid", "threads", "n", "ne", "ei", "ej", "sweeps", "nlabel", "labels")})
                    + "\n")
    res = common.run_tlc("LabelND_Trace", os.path.join(common.SPECS, "LabelND_Trace.cfg"), workers=1,
                         timeout=900, env_extra={"TRACE_FILE": path})
    verdicts = {}
    for s in res.printed:
        try:
            v = json.loads(s)
            verdicts[v["tid"]] = v
        except Exception:
            pass
    return res, verdicts


def trace_instances(tier, recs_seq, recs_tree):
    sd = common.seed()
    rng = np.random.default_rng([sd, 1515])
    inst = []
    sub = [r for r in recs_seq if r["ne"] >= 2]
    k = 150 if tier == "quick" else 1200
    if len(sub) > k:
        sub = [sub[i] for i in sorted(rng.choice(len(sub), k, replace=False))]
    for r in sub + list(recs_tree if tier != "quick" else recs_tree[:40]):
        inst.append((r["n"], r["ei"], r["ej"], "tlc"))
    fams = [("chain_random", 24), ("chain_random", 16), ("chain_random", 9), ("chain_ordered", 20), ("star", 14),
            ("dups_loops", 18), ("random_sparse", 24), ("no_edges", 5), ("chain_forest", 24), ("sinogram", 24)]
    nseeds = 3 if tier == "quick" else 25
    for s in range(nseeds):
        for fam, n in fams:
            if fam == "chain_forest":
                rr = np.random.default_rng([sd + s, n, 3])
                nn, ei, ej = L.fam_chain_forest(rr, n, length=6)
            else:
                nn, ei, ej = L.make_instance(fam, n, sd * 1000 + s)
            inst.append((nn, [int(x) for x in ei], [int(x) for x in ej], fam))
    return inst


REJECT_IS_VIOLATION = True


def mode_c(chk, tier, recs_seq, recs_tree, stats):
    numba, P, threads = load_real()
    inst = trace_instances(tier, recs_seq, recs_tree)
    tl = [t for t in (1, 4) if t in threads]
    if tier != "quick":
        tl = [t for t in (1, 2, 4) if t in threads]
    traces = []
    unobservable = 0
    for k, (n, ei, ej, origin) in enumerate(inst):
        for t in tl + ([3] if (origin != "tlc" and 3 in threads and 3 not in tl) else []):
            tr, ok = record_trace(P, numba, len(traces) + 1, n, ei, ej, t)
            tr["origin"] = origin
            if not ok:
                unobservable += 1
                continue
            traces.append(tr)
    # a few big-thread traces on the longest chains
    for (n, ei, ej, origin) in [i for i in inst if i[3] == "chain_random"][:3]:
        for t in [x for x in threads if x > 4]:
            tr, ok = record_trace(P, numba, len(traces) + 1, n, ei, ej, t)
            tr["origin"] = origin
            if ok:
                traces.append(tr)
    stats["traces_unobservable"] = unobservable
    raised = [tr for tr in traces if "exception" in tr]
    traces = [tr for tr in traces if "exception" not in tr]
    for tr in raised[:3]:
        chk.violation("find_ND_labels raised %s after %d sweeps (%s, n=%d, threads=%d)"
                      % (tr["exception"], len(tr["sweeps"]), tr["origin"], tr["n"], tr["threads"]),
                      {"kind": "trace", "trace": tr, "reps": 20})
    stats["traces_raised"] = len(raised)
    if not traces:
        stats["traces_recorded"] = 0
        return
    res, verdicts = validate_traces(traces)
    chk.add_tlc("LabelND_Trace (%d traces)" % len(traces), res)
    if res.violated:
        raise common.MachineryError("trace specification invariant %s violated: %s" % (res.violated, res.stdout[-1500:]))
    if len(verdicts) != len(traces):
        raise common.MachineryError("trace validation produced %d verdicts for %d traces\n%s"
                                    % (len(verdicts), len(traces), res.stdout[-1500:]))
    acc = rej = exact = legal_only = renum = multi = 0
    nsweeps = 0
    for tr in traces:
        v = verdicts[tr["tid"]]
        nsweeps += len(tr["sweeps"])
        if v["verdict"] == "accept" and not tr.get("returned_differs_from_clean"):
            acc += 1
            chk.traces += 1
            chk.case(("trace", tr["n"], tuple(tr["ei"]), tuple(tr["ej"]), tr["threads"]),
                     nontrivial=len(tr["sweeps"]) >= 2)
            if tr["threads"] == 1:
                exact += int(v["exact"] == len(tr["sweeps"]))
                legal_only += int(v["exact"] != len(tr["sweeps"]))
            else:
                multi += 1
            renum += int(v["clause"] == "ok-renumbered")
        else:
            rej += 1
            if rej <= 5:
                what = ("find_ND_labels returned something else than get_clean_labels produced"
                        if v["verdict"] == "accept" else
                        "recorded run is not a behaviour of LabelND: clause %s at event %d" % (v["clause"], v["at"]))
                chk.violation("trace (%s, n=%d, threads=%d): %s" % (tr["origin"], tr["n"], tr["threads"], what),
                              {"kind": "trace", "trace": tr, "verdict": v, "reps": 20})
    stats.update({"traces_recorded": len(traces), "traces_accepted": acc, "traces_rejected": rej,
                  "one_thread_traces_equal_to_SeqSweep": exact, "one_thread_traces_legal_only": legal_only,
                  "multi_thread_traces_accepted": multi, "traces_renumbered": renum,
                  "sweep_events_validated": nsweeps,
                  "longest_trace_sweeps": max(len(t["sweeps"]) for t in traces)})
    lt = max(traces, key=lambda t: len(t["sweeps"]))
    chk.sample({"trace": {"n": lt["n"], "threads": lt["threads"], "origin": lt["origin"],
                          "nbad_per_sweep": [s["nbad"] for s in lt["sweeps"]],
                          "verdict": verdicts[lt["tid"]]}})


def run_trace_case(case):
    """replay of a rejected trace: record again from the current tree (reps times) and re-validate;
    also re-validate the stored trace itself is NOT done (the stored trace describes the old tree)."""
    numba, P, threads = load_real()
    tr0 = case["trace"]
    t = min(tr0["threads"], numba.config.NUMBA_NUM_THREADS)
    traces = []
    for rep in range(int(case.get("reps", 20)) if t > 1 else 1):
        tr, ok = record_trace(P, numba, rep + 1, tr0["n"], tr0["ei"], tr0["ej"], t)
        if not ok:
            return []
        if "exception" in tr:
            return ["find_ND_labels raised %s after %d sweeps" % (tr["exception"], len(tr["sweeps"]))]
        traces.append(tr)
    res, verdicts = validate_traces(traces, "replay")
    if res.error and not res.violated:
        raise common.MachineryError("trace validation failed: %s" % res.error)
    probs = []
    for tr in traces:
        v = verdicts.get(tr["tid"])
        if v is None:
            raise common.MachineryError("no verdict for replayed trace")
        if v["verdict"] != "accept":
            probs.append("recorded run is not a behaviour of LabelND: clause %s at event %d" % (v["clause"], v["at"]))
        elif tr.get("returned_differs_from_clean"):
            probs.append("find_ND_labels returned something else than get_clean_labels produced")
    return probs



# --------------------------------------------------------------------------------------
# empty overlap list through the user route (finding) ; n = 0 (observation)

def probe_empty(chk, stats, replay=False):
    """Peaks without any overlap ("no edges" of the quantifier) through the constructor goforit() uses:
    pks_table(npk) must give a table that labels every peak on its own.  The same graph through the
    ipk constructor is the control.  Returns the list of problems (replay) / reports them (chk)."""
    numba, P, threads = load_real()
    out = []
    e = np.zeros(0, np.int64)
    for n in (1, 3):
        table = L.make_table(n, 5)
        root = np.arange(n)
        with hush():
            t = make_pks_table(P, n, e, e, table)
            cc = t.find_uniq()
        control_ok = not L.judge_labels(n, root, cc[0], cc[1])[0]
        what, structural, st = None, False, None
        with hush():
            try:
                t = make_npk_table(P, n, e, e, table, 0)
                t.find_uniq()
                st = stage_obs(t, table, "find_uniq")
            except Exception as ex:
                what = "pks_table(npk=[(%d, 0, 0)]) raised %r" % (n, ex)
                # structural class of the finding: empty overlap list, the exception is the refusal of a
                # zero-byte shared memory block at allocation, and the labelling kernels are right on the
                # very same graph (control)
                structural = isinstance(ex, ValueError) and "size" in str(ex) and control_ok
                del ex
            t = None
            gc.collect()
        if st is not None:
            pr = judge_stages(n, root, table, {"stages": [st]})
            if pr:
                what = pr[0]
        if stats is not None:
            stats["empty_overlap_list_probes"] = stats.get("empty_overlap_list_probes", 0) + 1
        if what is None:
            continue
        what = "%d peaks, no overlaps, table built as goforit() builds it: %s" % (n, what)
        out.append(what)
        if chk is not None:
            if structural and chk.finding(F_SHM) is not None:
                chk.known_finding(F_SHM, what)
            else:
                chk.violation(what, {"kind": "probe", "n": n})
    return out


def observe_outside(chk):
    """inputs outside the quantifier: what the code does is written down, nothing is judged"""
    numba, P, threads = load_real()
    e = np.zeros(0, np.int64)
    table = L.make_table(0, 1)
    o = {}

    def attempt(name, f):
        with hush():
            try:
                r = f()
                o[name] = "returned %s" % (repr(r)[:120],)
            except Exception as ex:
                o[name] = "raised %r" % (ex,)
                del ex
            r = None
            gc.collect()
    attempt("find_ND_labels(e, e, 0)", lambda: P.find_ND_labels(e, e, 0, verbose=0))
    attempt("pks_table(ipk=[0,0], ...).find_uniq()", lambda: make_pks_table(P, 0, e, e, table).find_uniq())
    attempt("pks_table(ipk=[0,0], ...).find_uniq(use_scipy=True)",
            lambda: make_pks_table(P, 0, e, e, table).find_uniq(use_scipy=True))

    def merge0():
        t = make_pks_table(P, 0, e, e, table)
        t.find_uniq(use_scipy=True)
        return t.pk2dmerge(table.omega(), table.dty())
    attempt("pk2dmerge on the empty table", merge0)
    attempt("pks_table(npk=[(0, 0, 0)])", lambda: P.pks_table(npk=np.array([(0, 0, 0)])) and "a table")

    def unlabelled():
        n, ei, ej = 3, np.array([0], np.int64), np.array([1], np.int64)
        t = make_npk_table(P, n, ei, ej, L.make_table(n, 1), 0)
        path = tmp_h5()
        try:
            t.save(path)
            return P.pks_table.load(path).nlabel
        finally:
            if os.path.exists(path):
                os.remove(path)
    attempt("save() before find_uniq, then pks_table.load()", unlabelled)
    chk.notes["observations"] = {
        "n = 0 (not judged: the quantifier ranges over graphs, a graph has nodes; the user route cannot even "
        "allocate an empty table; get_clean_labels reads labels[0] of the empty array)": o}


# --------------------------------------------------------------------------------------
# child processes: thread counts above NUMBA_NUM_THREADS, other threading layers

CHILD = os.path.join(common.VERIF, "harness", "c15_child.py")
CHILD_FAMILIES = [["merge_race", 120000, 3], ["star", 50000, 1], ["chain_forest", 50000, 1],
                  ["sinogram", 50000, 1], ["chain_random", 300, 1], ["dups_loops", 20000, 1]]


def child_jobs(recs):
    sd = common.seed()
    path = os.path.join(common.scratch(), "c15_child_records.json")
    rng = np.random.default_rng([sd, 1532])
    sub = [recs[i] for i in sorted(rng.choice(len(recs), min(250, len(recs)), replace=False))] if recs else []
    with open(path, "w") as f:
        json.dump(sub, f)
    base = {"records": path, "families": CHILD_FAMILIES, "seed": sd}
    return [dict(base, name="threads above the default pool (NUMBA_NUM_THREADS=32)",
                 env={"NUMBA_NUM_THREADS": "32"}, threads=[17, 24, 32]),
            dict(base, name="threading layer workqueue", env={"NUMBA_THREADING_LAYER": "workqueue"},
                 threads=[1, 3, 16]),
            dict(base, name="threading layer tbb", env={"NUMBA_THREADING_LAYER": "tbb"}, threads=[1, 3, 16],
                 needs="numba.np.ufunc.tbbpool"),
            {"name": "properties.main() with worker processes", "kind": "main", "env": {}, "seed": sd, "timeout": 900,
             "sinograms": [[4, 6, True, 2], [3, 7, False, 2], [5, 5, True, 3], [2, 8, True, 1], [1, 9, False, 1]]}]


def spawn_child(job):
    k = len(os.listdir(common.scratch()))
    jf = os.path.join(common.scratch(), "c15_job_%d.json" % k)
    with open(jf, "w") as f:
        json.dump(job, f)
    env = dict(os.environ)
    env.update(job["env"])
    env["VERIF_SEED"] = str(job["seed"])
    fo = open(jf + ".out", "w")
    fe = open(jf + ".err", "w")
    p = subprocess.Popen([common.PY, CHILD, jf], stdout=fo, stderr=fe, env=env)
    return {"job": job, "proc": p, "out": jf + ".out", "err": jf + ".err", "files": (fo, fe)}


def collect_child(h, timeout=2400):
    timeout = int(h["job"].get("timeout", timeout))
    try:
        h["proc"].wait(timeout=timeout)
    except subprocess.TimeoutExpired:
        subprocess.call(["pkill", "-P", str(h["proc"].pid)])
        h["proc"].kill()
        h["proc"].wait()
        with open(h["err"]) as f:
            err = f.read()
        if h["job"].get("kind") == "main" and "Traceback" in err:
            # main() waits for ever on its result queue when a worker process dies: that is an outcome
            last = [x for x in err.strip().splitlines() if x.strip()][-1]
            return {"name": h["job"]["name"], "runs": 0,
                    "problems": ["properties.main() did not return within %d s after a worker process raised: %s"
                                 % (timeout, last[:200])]}
        raise common.MachineryError("child %r did not finish in %d s" % (h["job"]["name"], timeout))
    finally:
        for f in h["files"]:
            f.close()
    res = None
    with open(h["out"]) as f:
        for line in f:
            if line.startswith("@@RESULT "):
                res = json.loads(line[9:])
    if res is None:
        with open(h["err"]) as f:
            err = f.read()[-2000:]
        raise common.MachineryError("child %r gave no result (exit %s)\n%s" % (h["job"]["name"], h["proc"].returncode, err))
    return res


def run_child(job):
    return collect_child(spawn_child(job))


def start_ds_child(name, coverage):
    """the DataSet histories of one TLC configuration: TLC and the replay of every emitted history on a
    real DataSet run in a child process (one numba thread mostly, no parallel code of their own) while the
    parent goes on; the TLC run is accounted by the parent (finish_children)"""
    return spawn_child({"name": "DataSet histories (%s)" % name, "kind": "ds", "config": name,
                        "coverage": bool(coverage), "workers": min(WORKERS, 4),
                        "env": {}, "seed": common.seed(), "timeout": 5400})


def child_ds(job, res):
    name = job["config"]
    r = common.run_tlc("LabelND", cfgpath(name), workers=int(job["workers"]), coverage=bool(job["coverage"]),
                       timeout=2400)
    res["tlc"] = {"name": "LabelND_" + name, "error": r.error, "violated": list(r.violated), "finished": bool(r.finished),
                  "states": r.states, "generated": r.generated, "init_states": getattr(r, "init_states", 1),
                  "wall": r.wall, "cmd": r.cmd, "coverage": r.coverage, "tail": r.stdout[-1500:]}
    if r.error or r.violated or not r.finished:
        return
    recs = parse_ds_records(r, name)
    res["tlc"]["records"] = len(recs)
    if len(recs) != DS_CONFIGS[name][0]:
        return
    st = {}
    res["cases"] = replay_ds(recs, st)
    res["runs"] = int(st.get("ds_histories", 0))
    st["tlc_records"] = {"records": len(recs), "histories": len(set(ds_key(x) for x in recs)),
                         "reads_with_a_monitor_in_force": sum(1 for x in recs for e in x["dshist"] if e["ret"] > 0),
                         "reads_after_a_change_of_monitor_with_tables_cached_before": sum(ds_stale_risk(x) for x in recs)}
    res["stats"] = st


class _Res(object):
    def __init__(self, d):
        self.__dict__.update(d)


def account_ds_tlc(chk, job, res):
    """the child's TLC run, accounted and checked like the parent's own"""
    t = res.get("tlc")
    name = job["config"]
    if t is None:
        raise common.MachineryError("child %r gave no TLC summary: %s" % (job["name"], res.get("error")))
    r = _Res(t)
    r.coverage = {k: tuple(v) for k, v in (t.get("coverage") or {}).items()}
    chk.add_tlc(t["name"], r, require_cover=(ACTIONS + DS_CONFIGS[name][1]) if job["coverage"] else ())
    if r.violated:
        # DsLaw / DsCacheOK refuted on the model of the code AS READ: the model or the reading is wrong
        raise common.MachineryError("TLC %s reports %s violated: the DataSet model needs review\n%s"
                                    % (name, r.violated, t.get("tail")))
    if not r.finished:
        raise common.MachineryError("TLC run %s did not finish\n%s" % (name, t.get("tail")))
    if t.get("records") != DS_CONFIGS[name][0]:
        raise common.MachineryError("TLC configuration %s emitted %s DataSet histories, expected %d"
                                    % (name, t.get("records"), DS_CONFIGS[name][0]))


def start_children(chk, recs):
    handles = []
    skipped = chk.notes.setdefault("children_skipped", {})
    for job in child_jobs(recs):
        if job.get("needs"):
            try:
                __import__(job["needs"])
            except Exception as e:
                skipped[job["name"]] = "not available here: %s" % (str(e)[:150],)
                continue
        handles.append(spawn_child(job))
    return handles


def finish_children(chk, handles, stats):
    out = stats.setdefault("children", {})
    for h in handles:
        res = collect_child(h)
        name = h["job"]["name"]
        if res.get("skipped"):
            chk.notes.setdefault("children_skipped", {})[name] = res["skipped"]
            continue
        if h["job"].get("kind") == "ds":
            account_ds_tlc(chk, h["job"], res)
            chk.notes.setdefault("tlc_dataset_histories", {})[h["job"]["config"]] = \
                (res.get("stats") or {}).pop("tlc_records", None)
        if res.get("error"):
            if res.get("problems") or res.get("cases"):
                pass                      # a broken tree: the problems are reported below
            else:
                raise common.MachineryError("child %r failed: %s" % (name, res["error"]))
        out[name] = {k: res.get(k) for k in ("threads", "numba_num_threads", "threading_layer", "runs", "wall_s",
                                             "tlc_records_in_unions", "merges", "sinograms") if res.get(k) is not None}
        chk.traces += int(res.get("runs", 0))
        for k in range(int(res.get("runs", 0))):
            chk.case(("child", name, k))
        if res.get("stats"):
            out[name].update(res["stats"])
        for what, case in res.get("cases", [])[:5]:
            chk.violation(what, case)           # replayable in-process (kind "ds")
        for pr in res.get("problems", [])[:3]:
            job = dict(h["job"])
            chk.violation("child process (%s): %s" % (name, pr), {"kind": "child", "job": job})


def build_sinogram(dirname, sd, ny, nf, zigzag):
    """a small sparse-pixel file + dataset file (h5py / DataSet.save only): 2x2 blobs on a 3x3 grid of
    positions, present at random per (row, omega); a blob at the same position in the next frame /
    the next row at the same omega shares pixels with it.  What overlaps what is decided by the real
    code (C13 / C14); here only the files are made."""
    import h5py
    D = _real["D"]
    rng = np.random.default_rng([int(sd), ny, nf, 1543])
    present = rng.random((ny, nf, 9)) < 0.55
    sparse = os.path.join(dirname, "sparse.h5")
    omega = np.zeros((ny, nf))
    dty = np.zeros((ny, nf))
    with h5py.File(sparse, "w") as h:
        for i in range(ny):
            g = h.create_group("%d.1" % (i + 1))
            oi = np.arange(nf) if (i % 2 == 0 or not zigzag) else np.arange(nf)[::-1]
            omega[i] = oi * 1.0
            dty[i] = i * 0.5
            rows, cols, vals, nnz = [], [], [], []
            for j in range(nf):
                k = 0
                for q in range(9):
                    if present[i, oi[j], q]:
                        r0, c0 = 1 + 5 * (q // 3), 1 + 5 * (q % 3)
                        for (dr, dc, v) in ((0, 0, 10), (0, 1, 20), (1, 0, 30), (1, 1, 90)):
                            rows.append(r0 + dr)
                            cols.append(c0 + dc)
                            vals.append(v + i + q + int(rng.integers(0, 5)))
                            k += 1
                nnz.append(k)
            g.attrs["nframes"] = nf
            g.attrs["shape0"] = 16
            g.attrs["shape1"] = 16
            g["row"] = np.array(rows, np.uint16)
            g["col"] = np.array(cols, np.uint16)
            g["intensity"] = np.array(vals, np.uint16)
            g["nnz"] = np.array(nnz, np.uint32)
            g["measurement/rot_center"] = omega[i]
    ds = D.DataSet(dataroot=dirname, analysisroot=dirname)
    ds.scans = ["%d.1" % (i + 1) for i in range(ny)]
    ds.shape = (ny, nf)
    ds.omega = omega
    ds.dty = dty
    ds.omega_for_bins = omega % 360
    ds.sparsefile = sparse
    ds.pksfile = os.path.join(dirname, "pks.h5")
    dsfile = os.path.join(dirname, "ds.h5")
    ds.save(dsfile)
    return dsfile, ds.pksfile, omega, dty


def child_real_main(job, res):
    """the literal user route: properties.main(dsfile) = goforit() -> worker processes running process()
    -> pks_table(npk) in shared memory -> find_uniq() -> save(pksfile); then dataset.load(dsfile).pk2d /
    .pk4d.  The overlap list is taken as process() wrote it (captured when save() is entered); judged:
    the saved labels are its connected components, the merged table the exact sums of the saved 2D table."""
    numba, P, _ = load_real()
    D = _real["D"]
    sd = int(job["seed"])
    captured = []
    o_save = P.pks_table.save

    def save(self, h5name, *a, **k):
        captured.append((h5name, None if self.rc is None else np.array(self.rc)))
        return o_save(self, h5name, *a, **k)
    P.pks_table.save = save
    try:
        for k, (ny, nf, zig, nproc) in enumerate(job["sinograms"]):
            d = os.path.join(common.scratch(), "sino_%d" % k)
            os.makedirs(d)
            with hush():
                dsfile, pksfile, omega, dty = build_sinogram(d, sd + k, ny, nf, zig)
            what = "properties.main on a %dx%d sinogram (seed %d, zigzag=%s, nproc=%d)" % (ny, nf, sd + k, zig, nproc)
            del captured[:]
            try:
                with hush():
                    P.main(dsfile, options={"nproc": nproc})
                    t = P.pks_table.load(pksfile)
                    rc = [c for c in captured if c[0] == pksfile][-1][1]
                    n = int(t.ipk[-1])
                    nl, lab, props = int(t.nlabel), np.array(t.glabel), np.array(t.pk_props)
            except Exception as e:
                res["problems"].append("%s raised %r" % (what, e))
                continue
            ei, ej = rc[0].astype(np.int64), rc[1].astype(np.int64)
            root = L.roots_unionfind(n, ei, ej)
            mon = 2.0 ** np.random.default_rng([sd, k, 7]).integers(-1, 3, omega.shape)
            table = L.Table(props, omega.shape, omega.astype(np.int64), 1, (2 * dty).astype(np.int64), 2,
                            (8 / mon).astype(np.int64), 8)
            pr, _ = L.judge_labels(n, root, nl, lab)
            pr = ["saved labels: %s" % x for x in pr]
            if not pr:
                with hush():
                    if k % 2:
                        dsu, dss = D.load(dsfile), D.load(dsfile)
                        dss.monitor, dss.monitor_ref = mon, 1.0
                        st = {"name": "main+dataset.load", "attrs": (int(dsu.peaks_table.nlabel), np.array(dsu.peaks_table.glabel)),
                              "merge_u": copy_dict(dsu.pk4d), "merge_s": copy_dict(dss.pk4d),
                              "pk2d_u": copy_dict(dsu.pk2d), "pk2d_s": copy_dict(dss.pk2d)}
                    else:
                        # ONE DataSet: both tables, then the monitor is given, then both tables again
                        ds1 = D.load(dsfile)
                        st = {"name": "main+dataset.load [tables, monitor, tables]",
                              "attrs": (int(ds1.peaks_table.nlabel), np.array(ds1.peaks_table.glabel)),
                              "pk2d_u": copy_dict(ds1.pk2d), "merge_u": copy_dict(ds1.pk4d)}
                        ds1.monitor, ds1.monitor_ref = mon, 1.0
                        ds1.reset_peaks_cache()
                        st["merge_s"] = copy_dict(ds1.pk4d)
                        st["pk2d_s"] = copy_dict(ds1.pk2d)
                pr = judge_stages(n, root, table, {"stages": [st]})
            res["runs"] += 1
            res.setdefault("sinograms", []).append({"scans": ny, "frames": nf, "nproc": nproc, "peaks_2d": n,
                                                    "overlap_pairs": int(len(ei)), "merged_peaks": nl,
                                                    "merged_peaks_with_2_or_more_members":
                                                    int((np.bincount(lab, minlength=max(nl, 1)) > 1).sum()) if n else 0})
            if pr:
                res["problems"].append("%s: %s" % (what, pr[0]))
    finally:
        P.pks_table.save = o_save


def child_main(jobfile):
    """runs inside the child (harness/c15_child.py): judged here, one JSON line back"""
    import traceback
    with open(jobfile) as f:
        job = json.load(f)
    res = {"name": job["name"], "problems": [], "runs": 0, "merges": 0}
    t0 = time.time()
    if job.get("kind") == "ds":
        try:
            child_ds(job, res)
        except Exception as e:
            res["error"] = "%r\n%s" % (e, traceback.format_exc()[-1500:])
        res["wall_s"] = round(time.time() - t0, 1)
        print("@@RESULT " + json.dumps(res, default=lambda o: o.tolist() if hasattr(o, "tolist") else str(o)))
        sys.stdout.flush()
        return
    if job.get("kind") == "main":
        try:
            child_real_main(job, res)
        except Exception as e:
            res["error"] = "%r\n%s" % (e, traceback.format_exc()[-1500:])
        res["wall_s"] = round(time.time() - t0, 1)
        print("@@RESULT " + json.dumps(res))
        sys.stdout.flush()
        return
    try:
        numba, P, _ = load_real()
        tl = [t for t in job["threads"] if t <= numba.config.NUMBA_NUM_THREADS]
        res["threads"] = tl
        res["numba_num_threads"] = int(numba.config.NUMBA_NUM_THREADS)
        recs = []
        if job.get("records"):
            with open(job["records"]) as f:
                recs = json.load(f)
        res["tlc_records_in_unions"] = len(recs)
        sd = int(job["seed"])
        work = []
        for interleave in (False, True):
            if recs:
                n, ei, ej, offs, root, table = union_instance(recs, interleave)
                work.append(("union of %d TLC instances (interleave=%s)" % (len(recs), interleave), n, ei, ej, root, table, 1))
        for fam, n0, mreps in job["families"]:
            n, ei, ej = L.make_instance(fam, n0, sd)
            work.append(("%s n=%d seed=%d" % (fam, n, sd), n, ei, ej, L.roots_unionfind(n, ei, ej),
                         L.make_table(n, sd), int(mreps)))
        for what, n, ei, ej, root, table, mreps in work:
            for t in tl:
                with numba_threads(numba, t):
                    obs = observe(P, n, ei, ej, table, scipy_route=False, merge_reps=mreps)
                    pr = judge(n, root, table, obs)
                    if not pr and t == tl[-1]:
                        ho = observe_hist(n, ei, ej, table, SEEDED_HISTS[0], sd=sd, via_dataset=True)
                        pr = judge_stages(n, root, table, ho)
                res["runs"] += 1
                res["merges"] += 2 * mreps
                if pr:
                    res["problems"].append("%s threads=%d: %s" % (what, t, pr[0]))
                    break
            if len(res["problems"]) >= 3:
                break
        res["threading_layer"] = numba.threading_layer()
    except Exception as e:
        msg = "%r" % (e,)
        if "threading layer" in msg.lower() or "threading_layer" in msg.lower():
            res["skipped"] = "threading layer not usable here: %s" % msg[:300]
        else:
            res["error"] = msg + "\n" + traceback.format_exc()[-1500:]
    res["wall_s"] = round(time.time() - t0, 1)
    print("@@RESULT " + json.dumps(res))
    sys.stdout.flush()

# --------------------------------------------------------------------------------------
# self-test of the binding

def py_sweep(ei, ej, pk, flip):
    """plain transcription of one sequential sweep (used only to synthesise self-test traces)"""
    pk = list(pk)
    nb = 0
    N = len(ei) - 1
    for k in range(len(ei)):
        p = k + flip * (N - 2 * k)
        a, b = pk[ei[p]], pk[ej[p]]
        if a != b:
            pk[ei[p]] = pk[ej[p]] = min(a, b)
            nb += 1
    return pk, nb


def synthetic_obs(n, root, table):
    """what a correct implementation returns (self-test input; independent of the tree under test)"""
    nl, lab = L.expected_labels(root)
    obs = {"direct": (nl, lab.copy()), "find_uniq": (nl, lab.copy()), "attrs": (nl, lab.copy()),
           "scipy": (nl, lab.astype(np.int32))}
    s1, sI, srI, scI, frm = [table.props[k] for k in range(5)]
    for key, scaled in (("merge_u", False), ("merge_s", True)):
        ex = L.merged_exact(table, lab, nl, scaled)
        f = [e[0].astype(float) / e[1] for e in ex]
        with np.errstate(all="ignore"):           # total weight 0: nan, as the code
            obs[key] = {"s_raw": f[2] / f[1], "f_raw": f[3] / f[1], "omega": f[4] / f[1], "dty": f[5] / f[1],
                        "Number_of_pixels": f[0], "sum_intensity": f[1], "spot3d_id": np.arange(nl), "npk2d": f[6]}
        obs["kernel_" + key[-1]] = np.array(f)
    for key, scaled in (("pk2d_u", False), ("pk2d_s", True)):
        obs[key] = {"s_raw": srI / sI.astype(float), "f_raw": scI / sI.astype(float),
                    "omega": table.omega().flat[frm], "dty": table.dty().flat[frm], "Number_of_pixels": s1,
                    "sum_intensity": sI * table.scale().flat[frm] if scaled else sI, "spot3d_id": lab.copy()}
    return obs


def synthetic_merge_f(ft, lab, nl, scaled):
    """what a correct pk2dmerge returns for a general value table (from the exact integers)"""
    from fractions import Fraction
    ex = L.merged_exact_f(ft, lab, nl, scaled)
    num, den = ex["num"], ex["den"]

    def mean(r, j):
        if num[1][j] == 0:
            return float("nan")
        return float(Fraction(num[r][j] * den[1], num[1][j] * den[r]))
    return {"Number_of_pixels": np.array([x / den[0] for x in num[0]]),
            "sum_intensity": np.array([x / den[1] for x in num[1]]),
            "npk2d": np.array([float(x) for x in num[6]]), "spot3d_id": np.arange(nl),
            "s_raw": np.array([mean(2, j) for j in range(nl)]), "f_raw": np.array([mean(3, j) for j in range(nl)]),
            "omega": np.array([mean(4, j) for j in range(nl)]), "dty": np.array([mean(5, j) for j in range(nl)])}


def synthetic_trace(tid, n, ei, ej, root):
    pk = list(range(n))
    flip = 0
    sweeps = []
    while True:
        pk, nb = py_sweep(ei, ej, pk, flip)
        sweeps.append({"flip": flip, "nbad": nb, "pk": list(pk)})
        if nb == 0:
            break
        flip = 1 - flip
    nl, lab = L.expected_labels(root)
    return {"tid": tid, "threads": 1, "n": n, "ne": len(ei), "ei": [int(x) for x in ei], "ej": [int(x) for x in ej],
            "sweeps": sweeps, "nlabel": nl, "labels": [int(x) for x in lab]}


def classify(recs):
    """non-vacuity of the emitted scope: how many instances exercise which feature"""
    c = {"total": len(recs), "no_edges": 0, "self_loop": 0, "duplicate_edge": 0, "reversed_duplicate": 0,
         "several_components": 0, "isolated_node": 0, "needs_3_or_more_sweeps_sequentially": 0,
         "some_merge": 0}
    for r in recs:
        e = list(zip(r["ei"], r["ej"]))
        c["no_edges"] += not e
        c["self_loop"] += any(a == b for a, b in e)
        c["duplicate_edge"] += len(set(e)) < len(e)
        c["reversed_duplicate"] += any((b, a) in e for a, b in e if a != b)
        c["several_components"] += len(set(r["cmin"])) > 1
        touched = set(r["ei"]) | set(r["ej"])
        c["isolated_node"] += len(touched) < r["n"]
        c["some_merge"] += len(set(r["cmin"])) < r["n"]
        c["needs_3_or_more_sweeps_sequentially"] += len(synthetic_trace(0, r["n"], r["ei"], r["ej"],
                                                                         np.array(r["cmin"]))["sweeps"]) >= 3
    return {k: int(v) for k, v in c.items()}


def selftest(full=True):
    """perturbed outputs / corrupted traces must be rejected by the judges; works on synthetic correct
    outputs so that it says something about the CHECK, whatever the state of the tree under test"""
    # (1) label judge: correct output accepted, perturbed outputs rejected
    n, ei, ej = 7, [0, 2, 5, 5], [1, 3, 6, 5]
    root = L.roots_unionfind(n, ei, ej)
    table = L.make_table(n, 3)
    obs = synthetic_obs(n, root, table)
    if judge(n, root, table, obs):
        raise common.MachineryError("selftest: a correct output was rejected: %s" % judge(n, root, table, obs))
    nl, lab = obs["find_uniq"]
    for what, (nl2, lab2) in {
        "two components merged": (nl - 1, np.where(lab == nl - 1, nl - 2, lab)),
        "component split": (nl + 1, np.concatenate([lab[:-1], [nl]])),
        "labels shifted to 1..n": (nl, lab + 1),
        "wrong count": (nl + 1, lab),
        "one member relabelled": (nl, np.concatenate([[lab[2]], lab[1:]])),
    }.items():
        pr, _ = L.judge_labels(n, root, nl2, np.asarray(lab2))
        if not pr:
            raise common.MachineryError("selftest: label judge accepted '%s'" % what)
    # a valid renumbering must NOT be rejected (the property does not fix the numbering)
    pr, renum = L.judge_labels(n, root, nl, (nl - 1) - lab)
    if pr or not renum:
        raise common.MachineryError("selftest: a valid renumbering was rejected / not noticed")
    # (2) merged table: perturb one observed value / one expected input
    for key in ("merge_u", "merge_s"):
        for name in ("Number_of_pixels", "sum_intensity", "s_raw", "f_raw", "omega", "dty", "npk2d"):
            o2 = dict(obs)
            m = {k: np.array(v, float) for k, v in obs[key].items()}
            j0 = int(np.argmax(np.isfinite(m["omega"])))          # a merged peak whose mean is defined
            m[name][j0] += 1e-7 * (1.0 + float(np.nanmax(np.abs(m[name]))))
            o2[key] = m
            if not judge(n, root, table, o2):
                raise common.MachineryError("selftest: perturbed %s[%s] accepted" % (key, name))
        o2 = dict(obs)
        o2["kernel_" + key[-1]] = obs["kernel_" + key[-1]] + np.eye(7, nl)[::-1] * 1e-6
        if not judge(n, root, table, o2):
            raise common.MachineryError("selftest: perturbed numbapkmerge rows accepted (%s)" % key)
    # (2a) SIGN classes: merged peaks of negative total weight get the weighted mean like any other -
    # a table that answers 0.0 for them (np.divide(..., where=total > 0)) must be rejected
    nsign = 0
    for sd_t in range(3, 40):
        ts = L.make_table(n, sd_t)
        os_ = synthetic_obs(n, root, ts)
        if judge(n, root, ts, os_):
            raise common.MachineryError("selftest: a correct output was rejected (table seed %d): %s"
                                        % (sd_t, judge(n, root, ts, os_)))
        for key in ("merge_u", "merge_s"):
            negw = np.asarray(os_[key]["sum_intensity"]) < 0
            if not negw.any():
                continue
            m = {k: np.array(v, float) for k, v in os_[key].items()}
            for name in ("s_raw", "f_raw", "omega", "dty"):
                m[name] = np.where(negw, 0.0, m[name])
            if not judge(n, root, ts, dict(os_, **{key: m})):
                raise common.MachineryError("selftest: means of merged peaks of negative total weight "
                                            "replaced by 0 accepted (%s)" % key)
            nsign += 1
    if nsign < 4:
        raise common.MachineryError("selftest: the random tables hold no merged peak of negative total weight")
    t2 = copy.deepcopy(table)
    t2.sc_num = t2.sc_num + 1
    if not judge(n, root, t2, obs):
        raise common.MachineryError("selftest: merged table accepted against a different scale factor")
    o2 = dict(obs)
    p = {k: np.array(v) for k, v in obs["pk2d_s"].items()}
    p["sum_intensity"] = obs["pk2d_u"]["sum_intensity"]
    o2["pk2d_s"] = p
    if not judge(n, root, table, o2):
        raise common.MachineryError("selftest: pk2d without the scale factor accepted as scaled")
    # (2b) histories: after a renumbering the merged table must follow the labels the table holds NOW
    perm = (nl - 1) - lab
    if nl < 2:
        raise common.MachineryError("selftest: instance with one component")

    def permuted(m):
        return {k: (np.asarray(v)[::-1].copy() if k != "spot3d_id" else np.asarray(v)) for k, v in m.items()}
    good = {"name": "find_uniq+scipy", "attrs": (nl, perm.astype(np.int32)),
            "merge_u": permuted(obs["merge_u"]), "merge_s": permuted(obs["merge_s"]),
            "pk2d_u": dict(obs["pk2d_u"], spot3d_id=perm), "pk2d_s": dict(obs["pk2d_s"], spot3d_id=perm)}
    if judge_stages(n, root, table, {"stages": [good]}):
        raise common.MachineryError("selftest: a correct renumbered stage was rejected: %s"
                                    % judge_stages(n, root, table, {"stages": [good]}))
    stale = dict(good, merge_u=obs["merge_u"], merge_s=obs["merge_s"])
    if not judge_stages(n, root, table, {"stages": [good, stale]}):
        raise common.MachineryError("selftest: a merged table computed from the previous labels was accepted")
    stale = dict(good, pk2d_s=obs["pk2d_s"])
    if not judge_stages(n, root, table, {"stages": [stale]}):
        raise common.MachineryError("selftest: pk2d with the previous labels was accepted")
    if not judge_stages(n, root, table, {"stages": [dict(good, returned=(nl, lab))]}):
        raise common.MachineryError("selftest: find_uniq returning other labels than the table holds was accepted")
    if not judge_stages(n, root, table, {"stages": [good], "exc": "saveload raised KeyError"}):
        raise common.MachineryError("selftest: an exception during a history was not reported")
    # (2b') DataSet histories: the law is judged against the monitor in force, whatever the caches did
    env = DsEnv(n, ei, ej, root, table.props, [-5, 5, 15, 25], [7, 4, -5, -20], [[1, 3, 12, 8], [12, 2, 24, 3]], [6, 6],
                [[1, 1, 1, 1], [24, 8, 2, 3], [2, 12, 1, 8]], [1, 4, 4])
    for tb, _ in env.tabs:
        tb.props = tb.props.copy()
        tb.props[4] = np.arange(n) % 4
    env.saved = (nl, lab.copy())
    so = [synthetic_obs(n, root, tb) for tb, _ in env.tabs]

    def rd(op, m):
        return {"pk2d": so[m]["pk2d_s" if m else "pk2d_u"], "pk4d": so[m]["merge_s" if m else "merge_u"]}[op]
    dsh = [{"op": "pk2d", "arg": 0, "mon": 0, "ret": 0}, {"op": "pk4d", "arg": 0, "mon": 0, "ret": 0},
           {"op": "setmon", "arg": 1, "mon": 1, "ret": -1}, {"op": "pk2d", "arg": 0, "mon": 1, "ret": 1},
           {"op": "pk4d", "arg": 0, "mon": 1, "ret": 1}, {"op": "table", "arg": 0, "mon": 1, "ret": -1},
           {"op": "setmon", "arg": 2, "mon": 2, "ret": -1}, {"op": "pk4d", "arg": 0, "mon": 2, "ret": 2}]
    good_obs = [rd("pk2d", 0), rd("pk4d", 0), None, rd("pk2d", 1), rd("pk4d", 1), (nl, lab.copy()), None, rd("pk4d", 2)]
    if judge_ds(env, dsh, good_obs, (nl, lab.copy())):
        raise common.MachineryError("selftest: a correct DataSet history was rejected: %s"
                                    % judge_ds(env, dsh, good_obs, (nl, lab.copy())))
    nds = 0
    for what, k, o in (("merged table without the scale factors after set_monitor", 4, rd("pk4d", 0)),
                       ("2D table without the scale factors after set_monitor", 3, rd("pk2d", 0)),
                       ("merged table of the previous monitor after the second set_monitor", 7, rd("pk4d", 1)),
                       ("merged table with scale factors before any monitor", 1, rd("pk4d", 1)),
                       ("other labels in ds.peaks_table", 5, (nl, (nl - 1) - lab)),
                       ("an exception", 4, {"exc": "TypeError()"})):
        bad_obs = list(good_obs)
        bad_obs[k] = o
        if not judge_ds(env, dsh, bad_obs, (nl, lab.copy())):
            raise common.MachineryError("selftest: DataSet history accepted with %s" % what)
        nds += 1
    if not judge_ds(env, dsh, good_obs, (nl, (nl - 1) - lab)):
        raise common.MachineryError("selftest: other labels in ds.peaks_table at the end of a history accepted")
    # (2c) general value tables (exact integer arithmetic on the binary values of the inputs)
    n2, ei2, ej2 = L.make_instance("vclass", 400, 7)
    root2 = L.roots_unionfind(n2, ei2, ej2)
    nl2, lab2 = L.expected_labels(root2)
    nvt = 0
    for kind, lay in (("wide", "mixA"), ("zero", "mixB"), ("monitor", "C64"), ("neg", "mixA"), ("negmon", "C64")):
        ft = L.make_vtable(kind, n2, 7, root2, lay)
        for scaled in (False, True):
            m = synthetic_merge_f(ft, lab2, nl2, scaled)
            pr = L.judge_merge(ft, lab2, nl2, scaled, m)
            if pr:
                raise common.MachineryError("selftest: exact merged table rejected (%s): %s" % (ft.kind, pr[0]))
            negw = m["sum_intensity"] < 0
            if kind in ("neg", "negmon") and scaled and not negw.any():
                raise common.MachineryError("selftest: value class %s has no merged peak of negative weight" % kind)
            if negw.any():
                m2 = dict(m)
                for name in ("s_raw", "f_raw", "omega", "dty"):
                    m2[name] = np.where(negw, 0.0, m[name])
                if not L.judge_merge(ft, lab2, nl2, scaled, m2):
                    raise common.MachineryError("selftest: means of merged peaks of negative total weight "
                                                "replaced by 0 accepted (%s)" % ft.kind)
            j = int(np.argmax(np.isfinite(m["omega"]) & (np.bincount(lab2, minlength=nl2) > 1)))
            for name in ("Number_of_pixels", "sum_intensity", "s_raw", "f_raw", "omega", "dty", "npk2d"):
                m2 = {k: np.array(v, float) for k, v in m.items()}
                m2[name][j] += 1e-6 * (1.0 + abs(m2[name][j]))
                if not L.judge_merge(ft, lab2, nl2, scaled, m2):
                    raise common.MachineryError("selftest: perturbed %s of a general value table accepted (%s)"
                                                % (name, ft.kind))
                nvt += 1
        pk = {"s_raw": ft.props[2] / ft.props[1].astype(float), "f_raw": ft.props[3] / ft.props[1].astype(float),
              "omega": ft.flat64("om")[ft.props[4]], "dty": ft.flat64("dty")[ft.props[4]],
              "Number_of_pixels": ft.props[0], "sum_intensity": ft.props[1] * ft.flat64("sc")[ft.props[4]],
              "spot3d_id": lab2}
        if L.judge_pk2d(ft, lab2, True, pk):
            raise common.MachineryError("selftest: correct pk2d of a general value table rejected: %s"
                                        % L.judge_pk2d(ft, lab2, True, pk))
        # the transposed (Fortran-order) reading of the frame index must be rejected
        wrong = dict(pk, omega=np.asarray(ft.omega(), float).ravel(order="F")[ft.props[4]])
        if not L.judge_pk2d(ft, lab2, True, wrong):
            raise common.MachineryError("selftest: omega read in Fortran order accepted")
    # (3) trace specification: the recorded trace is accepted, corrupted copies are rejected
    n, ei, ej = L.make_instance("chain_random", 12, 5)
    tr = synthetic_trace(1, n, ei, ej, L.roots_unionfind(n, ei, ej))
    if len(tr["sweeps"]) < 3:
        raise common.MachineryError("selftest: could not synthesise a multi-sweep trace")
    bad = []
    v = [k for k in range(n) if tr["sweeps"][0]["pk"][k] != k][0]
    inexact = copy.deepcopy(tr); inexact["tid"] = 7
    inexact["sweeps"][0]["pk"][v] = v                 # a lowering undone: still a legal sweep, but not SeqSweep
    c = copy.deepcopy(tr); c["tid"] = 2
    c["sweeps"][1]["pk"][v] = v                       # a label raised across a sweep boundary
    bad.append(c)
    c = copy.deepcopy(tr); c["tid"] = 3; c["sweeps"][1]["nbad"] = 0; bad.append(c)      # nbad field
    c = copy.deepcopy(tr); c["tid"] = 4; c["sweeps"] = c["sweeps"][:-2]; bad.append(c)  # stopped before fixpoint
    c = copy.deepcopy(tr); c["tid"] = 5; c["labels"][-1] = c["labels"][-1] + 1; bad.append(c)
    c = copy.deepcopy(tr); c["tid"] = 6
    c["sweeps"][0]["pk"] = list(range(n)); bad.append(c)   # first sweep reports nbad > 0 without progress
    res, verdicts = validate_traces([tr, inexact] + bad, "selftest")
    if res.error and not res.violated:
        raise common.MachineryError("selftest: trace TLC run failed: %s" % res.error)
    if verdicts.get(1, {}).get("verdict") != "accept" or verdicts[1]["exact"] != len(tr["sweeps"]):
        raise common.MachineryError("selftest: genuine trace not accepted exactly: %s" % verdicts.get(1))
    if verdicts.get(7, {}).get("exact", 99) >= len(tr["sweeps"]):
        raise common.MachineryError("selftest: deviation from SeqSweep not noticed: %s" % verdicts.get(7))
    for c in bad:
        if verdicts.get(c["tid"], {}).get("verdict") != "reject":
            raise common.MachineryError("selftest: corrupted trace %d accepted: %s" % (c["tid"], verdicts.get(c["tid"])))
    out = {"label_perturbations_rejected": 5, "merge_perturbations_rejected": 16,
           "stale_merge_after_renumbering_rejected": 3, "general_value_table_perturbations_rejected": nvt,
           "stale_dataset_reads_rejected": nds,
           "corrupted_traces_rejected": {c["tid"]: verdicts[c["tid"]]["clause"] for c in bad}}
    # (4) the invariants have teeth: wrong variants of the sweep are refuted by TLC; the race is in the model
    if full:
        r = tlc(None, "bugmax", 300, expect=("InComp", "MinFixed", "LocalsOK"))
        out["bugmax"] = r.violated
        r = tlc(None, "bugone", 300, expect=("SweepLegal",))
        out["bugone"] = r.violated
        r = tlc(None, "bugonelive", 300, expect=("Termination",))
        out["bugonelive"] = r.violated
        r = tlc(None, "lost", 300, expect=("NeverRaises",))
        out["lost_update_witness"] = r.violated
        r = tlc(None, "bugpmerge", 300, expect=("MergeOK",))
        out["bugpmerge"] = r.violated
        r = tlc(None, "bugds", 300, expect=("DsLaw",))
        out["bugds"] = r.violated
    return out


# --------------------------------------------------------------------------------------

def run(tier, replay=None):
    chk = common.Check(PROP, tier)
    if replay:
        with open(replay) as f:
            case = json.load(f)["case"]
        if case.get("kind") == "probe":
            probe_empty(chk, {})          # reports through the finding matcher itself
            probs = []
        else:
            probs = run_case(case)
        if probs:
            chk.violation("replay: %s" % probs[0], case)
        chk.rule = "replay of one saved case"
        chk.exhaustive = False
        chk.traces += 1
        return chk.finish()

    stats = {"replayed": 0, "union_runs": 0, "seeded_runs": 0}
    thorough = tier == "thorough"

    # ---- TLC -------------------------------------------------------------------------
    # the DataSet histories (TLC + replay on a real DataSet) run in children from the start
    children = [start_ds_child(name, thorough and name in ("ds", "dscore"))
                for name in (("ds", "dscore", "ds4", "dsdeep") if thorough else ("ds", "dscore"))]
    runs = [("seq", 600, thorough), ("hist", 600, thorough), ("q2", 900, thorough)]
    if thorough:
        runs += [("t3", 900, False), ("tree5", 1200, False), ("static", 900, False), ("ord", 1200, False),
                 ("e4", 1800, False), ("live", 1200, False)]
    recs = {"seq": [], "tree5": [], "hist": []}
    for name, to, cov in runs:
        res = tlc(chk, name, to, coverage=cov, cover=(ACTIONS + HIST_ACTIONS if name == "hist" else ACTIONS))
        if res.violated:
            model_counterexample(chk, name, res)
            continue
        if name == "hist":
            recs[name] = parse_hist_records(res)
        elif name in recs:
            recs[name] = parse_records(res, name)
        if name == "seq" and not chk.violations:
            # the children (other numba configurations) compile and run while TLC and the parent go on
            children += start_children(chk, recs["seq"])
    if thorough:
        res = tlc(chk, "lost", 300, expect=("NeverRaises",))
        chk.notes["lost_update_witness"] = "NeverRaises refuted by TLC in %d states (the race is in the model)" % res.states
    nexp = {"seq": 5278, "tree5": 125, "hist": 2185}
    for k, v in recs.items():
        if (k in ("seq", "hist") or thorough) and len(v) != nexp[k]:
            raise common.MachineryError("TLC configuration %s emitted %d instances, expected %d" % (k, len(v), nexp[k]))

    # ---- binding ---------------------------------------------------------------------
    numba, P, threads = load_real()
    chk.notes["numba_threads"] = threads
    chk.notes["threading_layer_priority"] = list(numba.config.THREADING_LAYER_PRIORITY)
    allrecs = recs["seq"] + recs["tree5"]
    chk.notes["tlc_instances"] = classify(allrecs)
    chk.notes["tlc_histories"] = {"records": len(recs["hist"]),
                                  "distinct_histories": len(set(tuple(r["hist"]) for r in recs["hist"])),
                                  "with_scipy_numbering_not_ranked": sum(1 for r in recs["hist"] if not r["ranked"])}
    replay_records(chk, allrecs, tier, stats, budget_s=(15 if tier == "quick" else 120))
    try:
        chk.notes["threading_layer"] = numba.threading_layer()
    except Exception:
        pass
    if not chk.violations:
        replay_hist(chk, recs["hist"], tier, stats, budget_s=12)
    probe_empty(chk, stats)
    observe_outside(chk)
    if [w for w, _ in chk.violations if "no overlaps" not in w]:
        stats["seeded_skipped"] = "small instances already violate the property"
    else:
        seeded(chk, tier, stats)
    mode_c(chk, tier, recs["seq"], recs["tree5"], stats)
    finish_children(chk, children, stats)
    if thorough:
        chk.notes["selftest"] = selftest(full=True)
    else:
        chk.notes["selftest"] = selftest(full=False)

    chk.notes["binding"] = stats
    chk.notes["tolerance"] = ("|x-e| <= 1e-9*max|e| + 1e-12 against exact integer / rational expectations (dyadic "
                              "tables); general value tables: sums |x-e| <= 1e-9*|e| + 1e-12, means |x-m| <= "
                              "1e-9*(sum|terms|/weight + |m|) + 1e-12 with e, m, sum|terms| from exact integer "
                              "arithmetic on the binary values of the inputs")
    chk.rule = ("every instance emitted by TLC (all edge lists <= 4 nodes / <= 3 positions%s) replayed through "
                "find_ND_labels, pks_table.find_uniq (numba, scipy), pk2dmerge (+scale_factor), pk2d at numba threads %s "
                "(individually and as disjoint unions); every (instance, history) of configuration hist (<= 3 nodes, "
                "<= 2 operations out of find_uniq again / scipy / save+load / merge again) on a table built by the "
                "shared-memory user route, judged after every operation; every DataSet history of configurations "
                "ds / dscore%s (all sequences of 3 of pk2d, pk4d, get_cf_2d, get_cf_4d, peaks_table, set_monitor x 2, "
                "reset_peaks_cache, save + load; of 4 of pk2d, pk4d, set_monitor x 2, reset; closed by pk2d, pk4d) on a "
                "real DataSet, every read judged against the monitor in force; seeded families up to %s nodes incl. two "
                "histories each, interleaved stars merged repeatedly, general value tables; child processes for "
                "17/24/32 threads and the workqueue layer; recorded sweeps validated by LabelND_Trace.  "
                "non-trivial = has edges and at least one merge"
                % (", all 5-node spanning trees" if thorough else "", threads,
                   " / ds4 / dsdeep (4 of all, 6 of the five)" if thorough else "", "1e6" if thorough else "2e5"))
    chk.assumptions = [
        "sequential consistency per aligned int64 load/store of the label array (no tearing, no store buffering effects)",
        "the prange barrier at the end of each sweep makes all stores visible before the next sweep",
        "real interleavings are unobservable: bound by outcomes at thread counts %s and by per-sweep snapshots" % threads,
        "the overlap list rc is taken as given (producing it from sparse pixels is C13 / C14); process() itself is "
        "emulated: the shared-memory table, the per-scan fill through fromSHM, find_uniq, save are the real code",
    ]
    chk.exhaustive = True
    return chk.finish()

"""C15 - N-D peak merging equals graph connected components on any schedule.

Specification: specs/LabelND.tla (model of numbalabelNd / find_ND_labels / get_clean_labels /
numbapkmerge at one shared-memory access per step) + specs/LabelND_Trace.tla (trace validation).

What this check does
 1. TLC: exhaustive runs of LabelND (configurations specs/LabelND_*.cfg): for every schedule the
    fixpoint is the component minimum, clean labels are 0..ncomp-1, merged sums are sums over
    components; every sweep is "legal" (SweepLegal); one-thread sweeps equal the operator SeqSweep.
 2. Mode A: every instance TLC emits is replayed into the real code
        properties.find_ND_labels, pks_table.find_uniq (numba and scipy routes),
        pks_table.pk2dmerge (with / without scale_factor), pks_table.pk2d
    at numba thread counts 1, 2, 4, 8, 16 - individually and as disjoint unions (two edge layouts) -
    and judged by the property statement against the specification's values.
 3. Seeded large graphs (chains needing many sweeps, stars, duplicates, self loops, no edges, random,
    sinogram-like) against an independent union-find and scipy, merged table against exact integers.
 4. Mode C: per-sweep snapshots recorded from the real find_ND_labels (module-level numbalabelNd /
    get_clean_labels wrapped from the harness) validated by LabelND_Trace.
"""
from __future__ import print_function
import os, sys, io, json, time, contextlib, copy
import numpy as np
import common
import c15_lib as L

PROP = "C15"
WORKERS = int(os.environ.get("C15_TLC_WORKERS", "16"))
THREADS = (1, 2, 4, 8, 16)
ACTIONS = ("Grab", "Read1", "Read2", "Write1", "Write2", "EndSweep", "CountStep", "CountEnd",
           "FixGrab", "FixRead", "FixRead2", "FixWrite", "FixEnd", "Merge")
SAFETY_INV = ("TypeOK", "InComp", "MinFixed", "LocalsOK", "ZeroAgree", "Fixpoint", "FixReadsRoot",
              "CleanOK", "MergeOK", "SweepLegal", "SeqExact")

_real = {}


def load_real():
    """build + import the code under test (once per process)"""
    if not _real:
        shadow = common.build_shadow("normal")
        common.use_shadow(shadow)
        import numba
        import ImageD11.sinograms.properties as P
        _real["numba"] = numba
        _real["P"] = P
        install_watchdog(P)
        _real["threads"] = [t for t in THREADS if t <= numba.config.NUMBA_NUM_THREADS]
    return _real["numba"], _real["P"], _real["threads"]


class SweepLimit(Exception):
    pass


WD = {"count": 0, "limit": None, "n": 0}


def sweep_limit(n):
    """LabelND's variant (invariant SweepLegal: every sweep that reports nbad > 0 lowers the sum of the
    labels by >= 1, the sum starts at n(n-1)/2) bounds the number of sweeps of ANY schedule by
    n(n-1)/2 + 1; sequentially it is <= n + 1 (the minimum advances one edge per sweep).  For large n
    the watchdog stops at min(10 n + 1000, 400000), far above anything the instances used here need."""
    return min(n * (n - 1) // 2 + 1, 10 * n + 1000, 400000)


def install_watchdog(P):
    """find_ND_labels loops until a sweep returns 0: a broken sweep makes it loop for ever (the model's
    Termination counterexample).  The harness wraps the module-level callables (no source edit) so that
    such a run ends with an exception that is judged as an output."""
    o_sweep, o_find = P.numbalabelNd, P.find_ND_labels

    def guarded_sweep(i, j, pkid, flip=0):
        WD["count"] += 1
        if WD["limit"] is not None and WD["count"] > WD["limit"]:
            raise SweepLimit("no fixpoint after %d sweeps on %d peaks (bound from the specification's variant: %d)"
                             % (WD["limit"], WD["n"], WD["n"] * (WD["n"] - 1) // 2 + 1))
        return o_sweep(i, j, pkid, flip=flip)

    def guarded_find(i, j, npks, *a, **k):
        WD["count"] = 0
        WD["n"] = int(npks)
        WD["limit"] = sweep_limit(int(npks))
        try:
            return o_find(i, j, npks, *a, **k)
        finally:
            WD["limit"] = None

    P.numbalabelNd = guarded_sweep
    P.find_ND_labels = guarded_find


@contextlib.contextmanager
def numba_threads(numba, t):
    old = numba.get_num_threads()
    numba.set_num_threads(int(t))
    try:
        yield
    finally:
        numba.set_num_threads(old)


@contextlib.contextmanager
def quiet():
    with contextlib.redirect_stdout(io.StringIO()):
        yield


# --------------------------------------------------------------------------------------
# TLC

def cfgpath(name):
    return os.path.join(common.SPECS, "LabelND_%s.cfg" % name)


def tlc(chk, name, timeout, coverage=False, expect=None, workers=None):
    """run one static configuration.  expect = None: no violation allowed;
    expect = tuple of names: one of them must be reported violated (self-test / witness runs)."""
    res = common.run_tlc("LabelND", cfgpath(name), workers=workers or WORKERS, coverage=coverage,
                         timeout=timeout)
    if chk is not None:
        chk.add_tlc("LabelND_" + name, res, require_cover=ACTIONS if coverage else ())
    elif res.error and not res.violated:
        raise common.MachineryError("TLC run %s failed: %s\n%s" % (name, res.error, res.stdout[-2000:]))
    if expect is None:
        if not res.finished and not res.violated:
            raise common.MachineryError("TLC run %s did not finish" % name)
    else:
        if not (set(res.violated) & set(expect)):
            raise common.MachineryError("selftest: TLC configuration %s was expected to violate one of %s, got %s"
                                        % (name, expect, res.violated))
    return res


def parse_records(res, name):
    recs, bad = [], 0
    seen = set()
    for s in res.printed:
        try:
            r = json.loads(s)
            key = (r["n"], tuple(r["ei"]), tuple(r["ej"]))
        except Exception:
            bad += 1
            continue
        if key not in seen:
            seen.add(key)
            recs.append(r)
    if bad:
        raise common.MachineryError("%d unparsable Emit lines in TLC run %s" % (bad, name))
    recs.sort(key=lambda r: (r["n"], r["ne"], r["ei"], r["ej"]))
    return recs


def model_counterexample(chk, name, res):
    """A violated invariant of the unmodified model is a design-level counterexample; it must be
    confirmed against the real code before it is reported.  The instance is stressed on the real code."""
    numba, P, threads = load_real()
    g = None
    for st in res.trace:
        if "g" in st.get("vars", {}):
            try:
                g = common.parse_tla(st["vars"]["g"])
            except Exception:
                g = None
            break
    if g is None:
        raise common.MachineryError("TLC %s violated %s and the instance could not be parsed" % (name, res.violated))
    n, ne = g["n"], g["ne"]
    ei = [g["ei"][k] for k in range(ne)] if isinstance(g["ei"], dict) else list(g["ei"])
    ej = [g["ej"][k] for k in range(ne)] if isinstance(g["ej"], dict) else list(g["ej"])
    case = {"kind": "graph", "n": n, "ei": ei, "ej": ej, "threads": threads, "reps": 300,
            "origin": "TLC %s violated %s" % (name, res.violated)}
    probs = run_case(case)
    if probs:
        chk.violation("model counterexample (%s) confirmed on the real code: %s" % (res.violated, probs[0]), case)
    else:
        raise common.MachineryError("TLC %s reports %s violated but the real code behaves on that instance: "
                                    "the model needs review" % (name, res.violated))


# --------------------------------------------------------------------------------------
# the real code, all routes, one instance

def make_pks_table(P, n, ei, ej, table):
    rc = np.ascontiguousarray(np.array([ei, ej, np.ones(len(ei), np.int64)], dtype=np.int64).reshape(3, len(ei)))
    return P.pks_table(ipk=np.array([0, n], dtype=np.int64), pk_props=table.props.copy(), rc=rc)


def observe(P, n, ei, ej, table, direct=True, scipy_route=True, merge=True):
    """call the real API; returns dict of raw outputs (exceptions are outputs too)"""
    obs = {}
    ei = np.ascontiguousarray(ei, np.int64)
    ej = np.ascontiguousarray(ej, np.int64)
    if direct:
        try:
            nl, lab = P.find_ND_labels(ei, ej, n, verbose=0)
            obs["direct"] = (int(nl), np.array(lab))
        except Exception as e:
            obs["direct_exc"] = repr(e)
    try:
        t = make_pks_table(P, n, ei, ej, table)
        with quiet():
            cc = t.find_uniq()
        obs["find_uniq"] = (int(cc[0]), np.array(cc[1]))
        obs["attrs"] = (int(t.nlabel), np.array(t.glabel))
        if merge:
            om, dy, sc = table.omega(), table.dty(), table.scale()
            obs["merge_u"] = t.pk2dmerge(om, dy)
            obs["merge_s"] = t.pk2dmerge(om, dy, scale_factor=sc)
            obs["pk2d_u"] = t.pk2d(om, dy)
            obs["pk2d_s"] = t.pk2d(om, dy, scale_factor=sc)
    except Exception as e:
        obs["table_exc"] = repr(e)
    if scipy_route:
        try:
            t2 = make_pks_table(P, n, ei, ej, table)
            with quiet():
                cc = t2.find_uniq(use_scipy=True)
            obs["scipy"] = (int(cc[0]), np.array(cc[1]))
        except Exception as e:
            obs["scipy_exc"] = repr(e)
    return obs


def judge(n, root, table, obs, stats=None, spec=None):
    """judge one observation against the property statement.  root = component minimum per node
    (oracle or specification).  spec = TLC record (optional): its nlabel / labels / merged rows are
    compared as THE value; a valid renumbering is counted, not reported."""
    problems = []
    for k in ("direct_exc", "table_exc", "scipy_exc"):
        if k in obs:
            problems.append("%s raised %s" % (k[:-4], obs[k]))
    valid = None
    for route in ("direct", "find_uniq", "attrs", "scipy"):
        if route not in obs:
            continue
        nl, lab = obs[route]
        pr, renum = L.judge_labels(n, root, nl, lab)
        problems += ["%s: %s" % (route, p) for p in pr]
        if route != "scipy" and not pr:
            if renum and stats is not None:
                stats["renumbered"] = stats.get("renumbered", 0) + 1
            if spec is not None and not renum:
                if nl != spec["nlabel"] or list(map(int, lab)) != spec["labels"]:
                    raise common.MachineryError("oracle numbering and specification labels disagree on %r" % (spec,))
        if route == "attrs" and not pr:
            valid = (nl, np.asarray(lab, np.int64))
    if valid is not None:
        nl, lab = valid
        for key, scaled in (("merge_u", False), ("merge_s", True)):
            if key in obs:
                problems += L.judge_merge(table, lab, nl, scaled, obs[key])
        for key, scaled in (("pk2d_u", False), ("pk2d_s", True)):
            if key in obs:
                problems += L.judge_pk2d(table, lab, scaled, obs[key])
        if spec is not None and "merge_u" in obs and not problems:
            problems += judge_spec_rows(spec, lab, obs)
    return problems


def judge_spec_rows(spec, lab, obs):
    """the specification's own merged rows (outu / outs, per label in order of component minima)
    against the code, mapped through the code's (valid) numbering"""
    from fractions import Fraction
    out = []
    cmin = spec["cmin"]
    roots = sorted(set(cmin))
    code_label = [int(lab[r]) for r in roots]         # spec label k -> code label
    for key, rows, den in (("merge_u", spec["outu"], 1), ("merge_s", spec["outs"], spec["scaleden"])):
        m = obs[key]
        for k, cl in enumerate(code_label):
            want = {"Number_of_pixels": Fraction(rows[0][k]), "sum_intensity": Fraction(rows[1][k], den),
                    "s_raw": Fraction(rows[2][k], rows[1][k]), "f_raw": Fraction(rows[3][k], rows[1][k]),
                    "omega": Fraction(rows[4][k], rows[1][k]), "dty": Fraction(rows[5][k], rows[1][k]),
                    "npk2d": Fraction(rows[6][k])}
            for name, e in want.items():
                x = float(m[name][cl])
                if not L.close(x, e, max(1.0, abs(float(e)))):
                    out.append("%s[%s][%d] = %r, specification value %s" % (key, name, cl, x, e))
    return out


# --------------------------------------------------------------------------------------
# replayable cases

def run_case(case):
    """re-execute a case dict against the current tree; returns list of problems"""
    numba, P, threads = load_real()
    kind = case["kind"]
    if kind == "trace":
        return run_trace_case(case)
    if kind == "graph":
        n = int(case["n"])
        ei = np.array(case["ei"], np.int64)
        ej = np.array(case["ej"], np.int64)
        table = L.table_from_record(case["record"]) if case.get("record") else L.make_table(n, case.get("tseed", 0))
        spec = case.get("record")
    elif kind == "seeded":
        n, ei, ej = L.make_instance(case["family"], case["n"], case["seed"])
        table = L.make_table(n, case["seed"])
        spec = None
    else:
        raise common.MachineryError("unknown case kind %r" % kind)
    root = L.roots_unionfind(n, ei, ej)
    if spec is not None and list(map(int, root)) != spec["cmin"]:
        return ["specification cmin differs from the union-find oracle (harness/spec error)"]
    probs = []
    for t in case.get("threads", threads):
        if t > numba.config.NUMBA_NUM_THREADS:
            continue
        with numba_threads(numba, t):
            for rep in range(int(case.get("reps", 1))):
                obs = observe(P, n, ei, ej, table)
                pr = judge(n, root, table, obs, spec=spec)
                if pr:
                    probs += ["threads=%d: %s" % (t, p) for p in pr]
                    break
        if probs:
            break
    return probs


# --------------------------------------------------------------------------------------
# mode A: replay of TLC-emitted instances

def replay_records(chk, recs, tier, stats, budget_s):
    numba, P, threads = load_real()
    t_start = time.time()
    tables = {}
    roots = {}
    for r in recs:
        if r["n"] not in tables:
            tables[r["n"]] = L.table_from_record(r)
    nviol = 0
    # (1) every record individually at low thread counts (cheap launches); high thread counts on a
    #     deterministic subsample under a time budget (a parallel region costs ms on a loaded machine)
    low = [t for t in threads if t <= 4]
    high = [t for t in threads if t > 4]
    reps = 1 if tier == "quick" else 3
    for t in low:
        with numba_threads(numba, t):
            for r in recs:
                n = r["n"]
                key = (n, tuple(r["ei"]), tuple(r["ej"]))
                if key not in roots:
                    roots[key] = L.roots_unionfind(n, r["ei"], r["ej"])
                    if list(map(int, roots[key])) != r["cmin"]:
                        raise common.MachineryError("specification cmin != union-find oracle for %r" % (key,))
                for rep in range(reps if t > 1 else 1):
                    obs = observe(P, n, r["ei"], r["ej"], tables[n], scipy_route=(t == 1 and rep == 0))
                    pr = judge(n, roots[key], tables[n], obs, stats, spec=r)
                    chk.case((key, t), nontrivial=(r["ne"] > 0 and len(set(r["cmin"])) < n))
                    chk.traces += 1
                    stats["replayed"] += 1
                    if pr and nviol < 10:
                        nviol += 1
                        chk.violation("TLC instance n=%d ei=%s ej=%s threads=%d: %s" % (n, r["ei"], r["ej"], t, pr[0]),
                                      {"kind": "graph", "n": n, "ei": r["ei"], "ej": r["ej"], "record": r,
                                       "threads": [t], "reps": 50, "problems": pr[:5]})
                        break
    if recs:
        chk.sample({"tlc_record": {k: recs[len(recs) // 2][k] for k in ("n", "ei", "ej", "nlabel", "labels", "outu")},
                    "routes": ["find_ND_labels", "pks_table.find_uniq", "find_uniq(use_scipy=True)",
                               "pk2dmerge", "pk2dmerge(scale_factor)", "pk2d"]})
    if chk.violations:
        stats["replay_stopped_early"] = "violations at low thread counts: high thread counts and unions skipped"
        stats["replay_wall_s"] = round(time.time() - t_start, 1)
        return
    rng = np.random.default_rng([common.seed(), 15])
    for t in high:
        order = rng.permutation(len(recs))
        tend = time.time() + budget_s / max(1, len(high))
        cnt = 0
        with numba_threads(numba, t):
            for idx in order:
                if time.time() > tend and cnt >= 20:
                    break
                r = recs[idx]
                n = r["n"]
                key = (n, tuple(r["ei"]), tuple(r["ej"]))
                obs = observe(P, n, r["ei"], r["ej"], tables[n], scipy_route=False, merge=False)
                pr = judge(n, roots[key], tables[n], obs, stats, spec=r)
                chk.case((key, t), nontrivial=(r["ne"] > 0))
                chk.traces += 1
                cnt += 1
                if pr and nviol < 10:
                    nviol += 1
                    chk.violation("TLC instance n=%d ei=%s ej=%s threads=%d: %s" % (n, r["ei"], r["ej"], t, pr[0]),
                                  {"kind": "graph", "n": n, "ei": r["ei"], "ej": r["ej"], "record": r,
                                   "threads": [t], "reps": 50, "problems": pr[:5]})
        stats["individual_at_%d_threads" % t] = cnt
    # (2) every record at every thread count: disjoint unions (plain and interleaved edge layout)
    ureps = 2 if tier == "quick" else 6
    for interleave in (False, True):
        n, ei, ej, offs = L.union_of_records(recs, interleave)
        if n == 0:
            continue
        root = np.concatenate([np.array(r["cmin"], np.int64) + int(offs[k]) for k, r in enumerate(recs)])
        nl_exp, lab_exp = L.expected_labels(root)
        props = np.concatenate([np.array(r["props"], np.int64).reshape(5, r["n"]) for r in recs], axis=1)
        t0 = tables[recs[0]["n"]]
        table = L.Table(props, t0.shape, t0.om_num, t0.om_den, t0.dty_num, t0.dty_den, t0.sc_num, t0.sc_den)
        for t in threads:
            with numba_threads(numba, t):
                for rep in range(ureps if t > 1 else 1):
                    obs = observe(P, n, ei, ej, table, direct=(rep == 0), scipy_route=False, merge=(rep == 0))
                    pr = judge(n, root, table, obs, stats)
                    stats["union_runs"] += 1
                    chk.case(("union", interleave, t, rep, len(recs)))
                    if rep == 0:
                        chk.traces += len(recs)
                    if pr and nviol < 10:
                        nviol += 1
                        # reduce to the member instances that came out wrong
                        members = failing_members(recs, offs, root, obs)
                        chk.violation("union of %d TLC instances (interleave=%s) threads=%d: %s; members %s"
                                      % (len(recs), interleave, t, pr[0], [(m["n"], m["ei"], m["ej"]) for m in members[:3]]),
                                      {"kind": "graph", "n": members[0]["n"], "ei": members[0]["ei"],
                                       "ej": members[0]["ej"], "record": members[0], "threads": [t], "reps": 200,
                                       "problems": pr[:5], "found_in": "union of %d instances" % len(recs)}
                                      if members else
                                      {"kind": "graph", "n": n, "ei": ei.tolist(), "ej": ej.tolist(), "threads": [t],
                                       "reps": 20, "problems": pr[:5]})
    stats["replay_wall_s"] = round(time.time() - t_start, 1)


def failing_members(recs, offs, root, obs):
    out = []
    for route in ("direct", "find_uniq"):
        if route in obs:
            lab = np.asarray(obs[route][1])
            if lab.shape != root.shape:
                continue
            bad = lab != lab[root]
            for v in np.nonzero(bad)[0][:5]:
                k = int(np.searchsorted(offs, v, side="right") - 1)
                if recs[k] not in out:
                    out.append(recs[k])
    return out


# --------------------------------------------------------------------------------------
# seeded large instances

def seeded_plan(tier, threads):
    """(family, n, thread counts).  Many-sweep chains only at low thread counts: every sweep is a
    parallel region and on a shared machine one region costs milliseconds at 8-16 threads."""
    lo = [t for t in threads if t <= 4]
    if tier == "quick":
        big = 200000
        plan = [("chain_random", 60, threads), ("chain_random", 4000, lo), ("chain_ordered", big, threads),
                ("chain_forest", big, threads), ("star", big, threads), ("dups_loops", big, threads),
                ("no_edges", 1000, threads), ("random_sparse", big, threads), ("sinogram", big, threads)]
    else:
        big = 1000000
        plan = [("chain_random", 60, threads), ("chain_random", 200, threads), ("chain_random", 30000, lo),
                ("chain_random", 100000, [1, 2]), ("chain_ordered", big, threads), ("chain_ordered", 1001, threads),
                ("chain_forest", big, threads), ("chain_forest", 50000, threads), ("star", big, threads),
                ("star", 3000, threads), ("dups_loops", big, threads), ("dups_loops", 5000, threads),
                ("no_edges", big, threads), ("no_edges", 1, threads), ("random_sparse", big, threads),
                ("random_sparse", 20000, threads), ("sinogram", big, threads), ("sinogram", 30000, threads)]
    return plan


def seeded(chk, tier, stats):
    numba, P, threads = load_real()
    sd = common.seed()
    sweeps_seen = []
    walls = stats.setdefault("seeded_wall_s", {})
    for fam, n0, tl in seeded_plan(tier, threads):
        t_fam = time.time()
        n, ei, ej = L.make_instance(fam, n0, sd)
        table = L.make_table(n, sd)
        root = L.roots_unionfind(n, ei, ej)
        root2 = L.roots_scipy(n, ei, ej)
        if not np.array_equal(root, root2):
            raise common.MachineryError("oracles disagree (union-find vs scipy) on %s n=%d" % (fam, n))
        ncomp = int((root == np.arange(n)).sum())
        first = None
        for t in tl:
            if t not in threads:
                continue
            with numba_threads(numba, t):
                obs = observe(P, n, ei, ej, table, direct=(t == tl[0]), scipy_route=(t == tl[0]))
                cnt = [WD["count"]]
            pr = judge(n, root, table, obs, stats)
            if "find_uniq" in obs and not pr:
                if first is None:
                    first = obs["find_uniq"]
                elif first[0] != obs["find_uniq"][0] or not np.array_equal(first[1], obs["find_uniq"][1]):
                    stats["differs_across_threads"] = stats.get("differs_across_threads", 0) + 1
            chk.case((fam, n, t), nontrivial=(len(ei) > 0 and ncomp < n))
            chk.traces += 1
            stats["seeded_runs"] += 1
            sweeps_seen.append(cnt[0])
            if pr:
                chk.violation("seeded %s n=%d seed=%d threads=%d: %s" % (fam, n, sd, t, pr[0]),
                              {"kind": "seeded", "family": fam, "n": n0, "seed": sd, "threads": [t], "reps": 5,
                               "problems": pr[:5]})
                break
        walls["%s/%d" % (fam, n0)] = round(time.time() - t_fam, 1)
        if len(chk.violations) >= 3:
            stats["seeded_stopped_early"] = True
            break
        chk.sample({"seeded": fam, "n": n, "edges": int(len(ei)), "components": ncomp, "threads": list(tl)}, limit=8)
    stats["max_sweeps_in_one_call"] = int(max(sweeps_seen)) if sweeps_seen else 0


# --------------------------------------------------------------------------------------
# mode C: record the real sweeps, validate with LabelND_Trace

class Recorder(object):
    """wraps the module-level callables find_ND_labels uses (no source hook)"""

    def __init__(self, P):
        self.P = P
        self.events = []
        self.cleaned = None

    def __enter__(self):
        self.o_sweep, self.o_clean = self.P.numbalabelNd, self.P.get_clean_labels
        self.P.numbalabelNd, self.P.get_clean_labels = self.sweep, self.clean
        return self

    def __exit__(self, *a):
        self.P.numbalabelNd, self.P.get_clean_labels = self.o_sweep, self.o_clean

    def sweep(self, i, j, pkid, flip=0):
        b = self.o_sweep(i, j, pkid, flip=flip)
        self.events.append({"flip": int(flip), "nbad": int(b), "pk": [int(x) for x in pkid]})
        return b

    def clean(self, labels):
        n = self.o_clean(labels)
        self.cleaned = (int(n), [int(x) for x in labels])
        return n


def record_trace(P, numba, tid, n, ei, ej, t):
    ei = np.ascontiguousarray(ei, np.int64)
    ej = np.ascontiguousarray(ej, np.int64)
    exc = None
    nl, lab = -1, []
    with numba_threads(numba, t):
        with Recorder(P) as rec:
            try:
                nl, lab = P.find_ND_labels(ei, ej, n, verbose=0)
            except Exception as e:
                exc = repr(e)
    tr = {"tid": tid, "threads": int(t), "n": int(n), "ne": int(len(ei)), "ei": [int(x) for x in ei],
          "ej": [int(x) for x in ej], "sweeps": rec.events,
          "nlabel": int(nl), "labels": [int(x) for x in lab]}
    if exc is not None:
        tr["exception"] = exc
        return tr, True
    observable = rec.cleaned is not None and len(rec.events) > 0
    if observable and (rec.cleaned[0] != int(nl) or rec.cleaned[1] != tr["labels"]):
        tr["labels"] = rec.cleaned[1]       # what get_clean_labels produced is what the trace spec judges
        tr["nlabel"] = rec.cleaned[0]
        tr["returned_differs_from_clean"] = True
    return tr, observable


def validate_traces(traces, name="traces"):
    """returns {tid: verdict dict}; TLC batch, one JVM"""
    path = os.path.join(common.scratch(), "c15_%s_%d.ndjson" % (name, int(time.time() * 1000) % 10 ** 9))
    with open(path, "w") as f:
        for tr in traces:
            f.write(json.dumps({k: tr[k] for k in ("tid", "threads", "n", "ne", "ei", "ej", "sweeps", "nlabel", "labels")})
                    + "\n")
    res = common.run_tlc("LabelND_Trace", os.path.join(common.SPECS, "LabelND_Trace.cfg"), workers=1,
                         timeout=900, env_extra={"TRACE_FILE": path})
    verdicts = {}
    for s in res.printed:
        try:
            v = json.loads(s)
            verdicts[v["tid"]] = v
        except Exception:
            pass
    return res, verdicts


def trace_instances(tier, recs_seq, recs_tree):
    sd = common.seed()
    rng = np.random.default_rng([sd, 1515])
    inst = []
    sub = [r for r in recs_seq if r["ne"] >= 2]
    k = 150 if tier == "quick" else 1200
    if len(sub) > k:
        sub = [sub[i] for i in sorted(rng.choice(len(sub), k, replace=False))]
    for r in sub + list(recs_tree if tier != "quick" else recs_tree[:40]):
        inst.append((r["n"], r["ei"], r["ej"], "tlc"))
    fams = [("chain_random", 24), ("chain_random", 16), ("chain_random", 9), ("chain_ordered", 20), ("star", 14),
            ("dups_loops", 18), ("random_sparse", 24), ("no_edges", 5), ("chain_forest", 24), ("sinogram", 24)]
    nseeds = 3 if tier == "quick" else 25
    for s in range(nseeds):
        for fam, n in fams:
            if fam == "chain_forest":
                rr = np.random.default_rng([sd + s, n, 3])
                nn, ei, ej = L.fam_chain_forest(rr, n, length=6)
            else:
                nn, ei, ej = L.make_instance(fam, n, sd * 1000 + s)
            inst.append((nn, [int(x) for x in ei], [int(x) for x in ej], fam))
    return inst


REJECT_IS_VIOLATION = True


def mode_c(chk, tier, recs_seq, recs_tree, stats):
    numba, P, threads = load_real()
    inst = trace_instances(tier, recs_seq, recs_tree)
    tl = [t for t in (1, 4) if t in threads]
    if tier != "quick":
        tl = [t for t in (1, 2, 4) if t in threads]
    traces = []
    unobservable = 0
    for k, (n, ei, ej, origin) in enumerate(inst):
        for t in tl:
            tr, ok = record_trace(P, numba, len(traces) + 1, n, ei, ej, t)
            tr["origin"] = origin
            if not ok:
                unobservable += 1
                continue
            traces.append(tr)
    # a few big-thread traces on the longest chains
    for (n, ei, ej, origin) in [i for i in inst if i[3] == "chain_random"][:3]:
        for t in [x for x in threads if x > 4]:
            tr, ok = record_trace(P, numba, len(traces) + 1, n, ei, ej, t)
            tr["origin"] = origin
            if ok:
                traces.append(tr)
    stats["traces_unobservable"] = unobservable
    raised = [tr for tr in traces if "exception" in tr]
    traces = [tr for tr in traces if "exception" not in tr]
    for tr in raised[:3]:
        chk.violation("find_ND_labels raised %s after %d sweeps (%s, n=%d, threads=%d)"
                      % (tr["exception"], len(tr["sweeps"]), tr["origin"], tr["n"], tr["threads"]),
                      {"kind": "trace", "trace": tr, "reps": 20})
    stats["traces_raised"] = len(raised)
    if not traces:
        stats["traces_recorded"] = 0
        return
    res, verdicts = validate_traces(traces)
    chk.add_tlc("LabelND_Trace (%d traces)" % len(traces), res)
    if res.violated:
        raise common.MachineryError("trace specification invariant %s violated: %s" % (res.violated, res.stdout[-1500:]))
    if len(verdicts) != len(traces):
        raise common.MachineryError("trace validation produced %d verdicts for %d traces\n%s"
                                    % (len(verdicts), len(traces), res.stdout[-1500:]))
    acc = rej = exact = legal_only = renum = multi = 0
    nsweeps = 0
    for tr in traces:
        v = verdicts[tr["tid"]]
        nsweeps += len(tr["sweeps"])
        if v["verdict"] == "accept" and not tr.get("returned_differs_from_clean"):
            acc += 1
            chk.traces += 1
            chk.case(("trace", tr["n"], tuple(tr["ei"]), tuple(tr["ej"]), tr["threads"]),
                     nontrivial=len(tr["sweeps"]) >= 2)
            if tr["threads"] == 1:
                exact += int(v["exact"] == len(tr["sweeps"]))
                legal_only += int(v["exact"] != len(tr["sweeps"]))
            else:
                multi += 1
            renum += int(v["clause"] == "ok-renumbered")
        else:
            rej += 1
            if rej <= 5:
                what = ("find_ND_labels returned something else than get_clean_labels produced"
                        if v["verdict"] == "accept" else
                        "recorded run is not a behaviour of LabelND: clause %s at event %d" % (v["clause"], v["at"]))
                chk.violation("trace (%s, n=%d, threads=%d): %s" % (tr["origin"], tr["n"], tr["threads"], what),
                              {"kind": "trace", "trace": tr, "verdict": v, "reps": 20})
    stats.update({"traces_recorded": len(traces), "traces_accepted": acc, "traces_rejected": rej,
                  "one_thread_traces_equal_to_SeqSweep": exact, "one_thread_traces_legal_only": legal_only,
                  "multi_thread_traces_accepted": multi, "traces_renumbered": renum,
                  "sweep_events_validated": nsweeps,
                  "longest_trace_sweeps": max(len(t["sweeps"]) for t in traces)})
    lt = max(traces, key=lambda t: len(t["sweeps"]))
    chk.sample({"trace": {"n": lt["n"], "threads": lt["threads"], "origin": lt["origin"],
                          "nbad_per_sweep": [s["nbad"] for s in lt["sweeps"]],
                          "verdict": verdicts[lt["tid"]]}})


def run_trace_case(case):
    """replay of a rejected trace: record again from the current tree (reps times) and re-validate;
    also re-validate the stored trace itself is NOT done (the stored trace describes the old tree)."""
    numba, P, threads = load_real()
    tr0 = case["trace"]
    t = min(tr0["threads"], numba.config.NUMBA_NUM_THREADS)
    traces = []
    for rep in range(int(case.get("reps", 20)) if t > 1 else 1):
        tr, ok = record_trace(P, numba, rep + 1, tr0["n"], tr0["ei"], tr0["ej"], t)
        if not ok:
            return []
        if "exception" in tr:
            return ["find_ND_labels raised %s after %d sweeps" % (tr["exception"], len(tr["sweeps"]))]
        traces.append(tr)
    res, verdicts = validate_traces(traces, "replay")
    if res.error and not res.violated:
        raise common.MachineryError("trace validation failed: %s" % res.error)
    probs = []
    for tr in traces:
        v = verdicts.get(tr["tid"])
        if v is None:
            raise common.MachineryError("no verdict for replayed trace")
        if v["verdict"] != "accept":
            probs.append("recorded run is not a behaviour of LabelND: clause %s at event %d" % (v["clause"], v["at"]))
        elif tr.get("returned_differs_from_clean"):
            probs.append("find_ND_labels returned something else than get_clean_labels produced")
    return probs


# --------------------------------------------------------------------------------------
# self-test of the binding

def py_sweep(ei, ej, pk, flip):
    """plain transcription of one sequential sweep (used only to synthesise self-test traces)"""
    pk = list(pk)
    nb = 0
    N = len(ei) - 1
    for k in range(len(ei)):
        p = k + flip * (N - 2 * k)
        a, b = pk[ei[p]], pk[ej[p]]
        if a != b:
            pk[ei[p]] = pk[ej[p]] = min(a, b)
            nb += 1
    return pk, nb


def synthetic_obs(n, root, table):
    """what a correct implementation returns (self-test input; independent of the tree under test)"""
    nl, lab = L.expected_labels(root)
    obs = {"direct": (nl, lab.copy()), "find_uniq": (nl, lab.copy()), "attrs": (nl, lab.copy()),
           "scipy": (nl, lab.astype(np.int32))}
    s1, sI, srI, scI, frm = [table.props[k] for k in range(5)]
    for key, scaled in (("merge_u", False), ("merge_s", True)):
        ex = L.merged_exact(table, lab, nl, scaled)
        f = [e[0].astype(float) / e[1] for e in ex]
        obs[key] = {"s_raw": f[2] / f[1], "f_raw": f[3] / f[1], "omega": f[4] / f[1], "dty": f[5] / f[1],
                    "Number_of_pixels": f[0], "sum_intensity": f[1], "spot3d_id": np.arange(nl), "npk2d": f[6]}
    for key, scaled in (("pk2d_u", False), ("pk2d_s", True)):
        obs[key] = {"s_raw": srI / sI.astype(float), "f_raw": scI / sI.astype(float),
                    "omega": table.omega().flat[frm], "dty": table.dty().flat[frm], "Number_of_pixels": s1,
                    "sum_intensity": sI * table.scale().flat[frm] if scaled else sI, "spot3d_id": lab.copy()}
    return obs


def synthetic_trace(tid, n, ei, ej, root):
    pk = list(range(n))
    flip = 0
    sweeps = []
    while True:
        pk, nb = py_sweep(ei, ej, pk, flip)
        sweeps.append({"flip": flip, "nbad": nb, "pk": list(pk)})
        if nb == 0:
            break
        flip = 1 - flip
    nl, lab = L.expected_labels(root)
    return {"tid": tid, "threads": 1, "n": n, "ne": len(ei), "ei": [int(x) for x in ei], "ej": [int(x) for x in ej],
            "sweeps": sweeps, "nlabel": nl, "labels": [int(x) for x in lab]}


def classify(recs):
    """non-vacuity of the emitted scope: how many instances exercise which feature"""
    c = {"total": len(recs), "no_edges": 0, "self_loop": 0, "duplicate_edge": 0, "reversed_duplicate": 0,
         "several_components": 0, "isolated_node": 0, "needs_3_or_more_sweeps_sequentially": 0,
         "some_merge": 0}
    for r in recs:
        e = list(zip(r["ei"], r["ej"]))
        c["no_edges"] += not e
        c["self_loop"] += any(a == b for a, b in e)
        c["duplicate_edge"] += len(set(e)) < len(e)
        c["reversed_duplicate"] += any((b, a) in e for a, b in e if a != b)
        c["several_components"] += len(set(r["cmin"])) > 1
        touched = set(r["ei"]) | set(r["ej"])
        c["isolated_node"] += len(touched) < r["n"]
        c["some_merge"] += len(set(r["cmin"])) < r["n"]
        c["needs_3_or_more_sweeps_sequentially"] += len(synthetic_trace(0, r["n"], r["ei"], r["ej"],
                                                                         np.array(r["cmin"]))["sweeps"]) >= 3
    return {k: int(v) for k, v in c.items()}


def selftest(full=True):
    """perturbed outputs / corrupted traces must be rejected by the judges; works on synthetic correct
    outputs so that it says something about the CHECK, whatever the state of the tree under test"""
    # (1) label judge: correct output accepted, perturbed outputs rejected
    n, ei, ej = 7, [0, 2, 5, 5], [1, 3, 6, 5]
    root = L.roots_unionfind(n, ei, ej)
    table = L.make_table(n, 3)
    obs = synthetic_obs(n, root, table)
    if judge(n, root, table, obs):
        raise common.MachineryError("selftest: a correct output was rejected: %s" % judge(n, root, table, obs))
    nl, lab = obs["find_uniq"]
    for what, (nl2, lab2) in {
        "two components merged": (nl - 1, np.where(lab == nl - 1, nl - 2, lab)),
        "component split": (nl + 1, np.concatenate([lab[:-1], [nl]])),
        "labels shifted to 1..n": (nl, lab + 1),
        "wrong count": (nl + 1, lab),
        "one member relabelled": (nl, np.concatenate([[lab[2]], lab[1:]])),
    }.items():
        pr, _ = L.judge_labels(n, root, nl2, np.asarray(lab2))
        if not pr:
            raise common.MachineryError("selftest: label judge accepted '%s'" % what)
    # a valid renumbering must NOT be rejected (the property does not fix the numbering)
    pr, renum = L.judge_labels(n, root, nl, (nl - 1) - lab)
    if pr or not renum:
        raise common.MachineryError("selftest: a valid renumbering was rejected / not noticed")
    # (2) merged table: perturb one observed value / one expected input
    for key in ("merge_u", "merge_s"):
        for name in ("Number_of_pixels", "sum_intensity", "s_raw", "f_raw", "omega", "dty", "npk2d"):
            o2 = dict(obs)
            m = {k: np.array(v, float) for k, v in obs[key].items()}
            m[name][0] += 1e-7 * (1.0 + float(np.max(np.abs(m[name]))))
            o2[key] = m
            if not judge(n, root, table, o2):
                raise common.MachineryError("selftest: perturbed %s[%s] accepted" % (key, name))
    t2 = copy.deepcopy(table)
    t2.sc_num = t2.sc_num + 1
    if not judge(n, root, t2, obs):
        raise common.MachineryError("selftest: merged table accepted against a different scale factor")
    o2 = dict(obs)
    p = {k: np.array(v) for k, v in obs["pk2d_s"].items()}
    p["sum_intensity"] = obs["pk2d_u"]["sum_intensity"]
    o2["pk2d_s"] = p
    if not judge(n, root, table, o2):
        raise common.MachineryError("selftest: pk2d without the scale factor accepted as scaled")
    # (3) trace specification: the recorded trace is accepted, corrupted copies are rejected
    n, ei, ej = L.make_instance("chain_random", 12, 5)
    tr = synthetic_trace(1, n, ei, ej, L.roots_unionfind(n, ei, ej))
    if len(tr["sweeps"]) < 3:
        raise common.MachineryError("selftest: could not synthesise a multi-sweep trace")
    bad = []
    v = [k for k in range(n) if tr["sweeps"][0]["pk"][k] != k][0]
    inexact = copy.deepcopy(tr); inexact["tid"] = 7
    inexact["sweeps"][0]["pk"][v] = v                 # a lowering undone: still a legal sweep, but not SeqSweep
    c = copy.deepcopy(tr); c["tid"] = 2
    c["sweeps"][1]["pk"][v] = v                       # a label raised across a sweep boundary
    bad.append(c)
    c = copy.deepcopy(tr); c["tid"] = 3; c["sweeps"][1]["nbad"] = 0; bad.append(c)      # nbad field
    c = copy.deepcopy(tr); c["tid"] = 4; c["sweeps"] = c["sweeps"][:-2]; bad.append(c)  # stopped before fixpoint
    c = copy.deepcopy(tr); c["tid"] = 5; c["labels"][-1] = c["labels"][-1] + 1; bad.append(c)
    c = copy.deepcopy(tr); c["tid"] = 6
    c["sweeps"][0]["pk"] = list(range(n)); bad.append(c)   # first sweep reports nbad > 0 without progress
    res, verdicts = validate_traces([tr, inexact] + bad, "selftest")
    if res.error and not res.violated:
        raise common.MachineryError("selftest: trace TLC run failed: %s" % res.error)
    if verdicts.get(1, {}).get("verdict") != "accept" or verdicts[1]["exact"] != len(tr["sweeps"]):
        raise common.MachineryError("selftest: genuine trace not accepted exactly: %s" % verdicts.get(1))
    if verdicts.get(7, {}).get("exact", 99) >= len(tr["sweeps"]):
        raise common.MachineryError("selftest: deviation from SeqSweep not noticed: %s" % verdicts.get(7))
    for c in bad:
        if verdicts.get(c["tid"], {}).get("verdict") != "reject":
            raise common.MachineryError("selftest: corrupted trace %d accepted: %s" % (c["tid"], verdicts.get(c["tid"])))
    out = {"label_perturbations_rejected": 5, "merge_perturbations_rejected": 16,
           "corrupted_traces_rejected": {c["tid"]: verdicts[c["tid"]]["clause"] for c in bad}}
    # (4) the invariants have teeth: wrong variants of the sweep are refuted by TLC; the race is in the model
    if full:
        r = tlc(None, "bugmax", 300, expect=("InComp", "MinFixed", "LocalsOK"))
        out["bugmax"] = r.violated
        r = tlc(None, "bugone", 300, expect=("SweepLegal",))
        out["bugone"] = r.violated
        r = tlc(None, "bugonelive", 300, expect=("Termination",))
        out["bugonelive"] = r.violated
        r = tlc(None, "lost", 300, expect=("NeverRaises",))
        out["lost_update_witness"] = r.violated
    return out


# --------------------------------------------------------------------------------------

def run(tier, replay=None):
    chk = common.Check(PROP, tier)
    if replay:
        with open(replay) as f:
            case = json.load(f)["case"]
        probs = run_case(case)
        if probs:
            chk.violation("replay: %s" % probs[0], case)
        chk.rule = "replay of one saved case"
        chk.exhaustive = False
        chk.traces += 1
        return chk.finish()

    stats = {"replayed": 0, "union_runs": 0, "seeded_runs": 0}
    thorough = tier == "thorough"

    # ---- TLC -------------------------------------------------------------------------
    runs = [("seq", 600, thorough), ("q2", 900, thorough)]
    if thorough:
        runs += [("t3", 900, False), ("tree5", 1200, False), ("static", 900, False), ("ord", 1200, False),
                 ("e4", 1800, False), ("live", 1200, False)]
    recs = {"seq": [], "tree5": []}
    for name, to, cov in runs:
        res = tlc(chk, name, to, coverage=cov)
        if res.violated:
            model_counterexample(chk, name, res)
            continue
        if name in recs:
            recs[name] = parse_records(res, name)
    if thorough:
        res = tlc(chk, "lost", 300, expect=("NeverRaises",))
        chk.notes["lost_update_witness"] = "NeverRaises refuted by TLC in %d states (the race is in the model)" % res.states
    nexp = {"seq": 5278, "tree5": 125}
    for k, v in recs.items():
        if (k == "seq" or thorough) and len(v) != nexp[k]:
            raise common.MachineryError("TLC configuration %s emitted %d instances, expected %d" % (k, len(v), nexp[k]))

    # ---- binding ---------------------------------------------------------------------
    numba, P, threads = load_real()
    chk.notes["numba_threads"] = threads
    chk.notes["threading_layer_priority"] = list(numba.config.THREADING_LAYER_PRIORITY)
    allrecs = recs["seq"] + recs["tree5"]
    chk.notes["tlc_instances"] = classify(allrecs)
    replay_records(chk, allrecs, tier, stats, budget_s=(10 if tier == "quick" else 90))
    try:
        chk.notes["threading_layer"] = numba.threading_layer()
    except Exception:
        pass
    if chk.violations:
        stats["seeded_skipped"] = "small instances already violate the property"
    else:
        seeded(chk, tier, stats)
    mode_c(chk, tier, recs["seq"], recs["tree5"], stats)
    if thorough:
        chk.notes["selftest"] = selftest(full=True)
    else:
        chk.notes["selftest"] = selftest(full=False)

    chk.notes["binding"] = stats
    chk.notes["tolerance"] = "|x-e| <= 1e-9*max|e| + 1e-12 against exact integer / rational expectations"
    chk.rule = ("every instance emitted by TLC (all edge lists <= 4 nodes / <= 3 positions%s) replayed through "
                "find_ND_labels, pks_table.find_uniq (numba, scipy), pk2dmerge (+scale_factor), pk2d at numba threads %s "
                "(individually and as disjoint unions); seeded families up to %s nodes; recorded sweeps validated by "
                "LabelND_Trace.  non-trivial = has edges and at least one merge"
                % (", all 5-node spanning trees" if thorough else "", threads, "1e6" if thorough else "2e5"))
    chk.assumptions = [
        "sequential consistency per aligned int64 load/store of the label array (no tearing, no store buffering effects)",
        "the prange barrier at the end of each sweep makes all stores visible before the next sweep",
        "real interleavings are unobservable: bound by outcomes at thread counts %s and by per-sweep snapshots" % threads,
    ]
    chk.exhaustive = True
    return chk.finish()

"""C14 - sparse images round-trip and overlap counting is exact.

specs: SparseCoo.tla      mask_to_coo, tosparse_*, sparse_is_sorted, from_data_mask/_cut, sparse_frame.to_dense
                          (by name, by default, with the array itself; into np.zeros or a caller's array) /
                          .sort / .sort_by / .reorder / .mask / .threshold(t) / .threshold(t, name)
       SparseOverlaps.tla sparse_overlaps, compress_duplicates, coverlaps, overlaps_linear, overlaps_matrix,
                          overlaps(); program "hist": ONE overlaps_linear / overlaps_matrix object called several
                          times with different frame pairs, work arrays kept (what pairrow / pairscans do)
       TraceSparse.tla    the property's definitions evaluated by TLC on logged inputs/outputs of larger cases
Mode A: every case TLC emits (exhaustive small scope; the 6-call histories are a seeded sample) is replayed
        through the raw kernels and every Python route (harness/c14_replay.py); the real arrays must equal the
        model's arrays element for element, untouched cells included.  A history is replayed on one pair of
        objects, each call judged by its own expectation, and handed to sinograms.properties.pairrow (chained
        histories: a scan whose frames are stored out of omega order, with an empty frame) and pairscans (two
        scans; modulo-360 omegas, a frame without neighbour, empty frames).  The raw kernels are also replayed
        on the ASan/UBSan build.
        Harness-only families (the model is covariant): mask and pixel dtypes, value variants = order-preserving
        maps of the grey levels and cuts (top of each dtype; negative float images / cuts; cuts that are no
        binary32 numbers, expectation data > float32(cut) as the kernels' `real :: cut` sees it; fractional
        cuts for uint32), thread counts, `out` arrays full of a poison value, call forms.
Mode C: seeded larger cases (uint16/uint32/float32, up to 65535 columns, label ids equal to the histogram
        length, frames ending together, selections up to the FULL image on 64x64 / 5x300 / 65534x1, thread
        counts 1/2/4/16, float cuts below zero and off the 1/4 grid, histories of 6-8 calls on one pair of
        objects and through pairrow) are run through the real code, logged, and judged by TLC against the
        definitions in TraceSparse.tla.
Design-level counterexamples: the `_asis` configurations model the tree's `self.reorder(self, order)`, the
        missing `npx == 0` test in overlaps() and `data in self.pixels` with an array argument in to_dense();
        TLC finds the violated invariant and the counterexample is replayed on the real code.
"""
import os, sys, json, subprocess, time
import numpy as np
import common
import c14_replay
import c14_big

PROP = "C14"
F_SORT = "C14-sort-typeerror"
F_OVL = "C14-overlaps-disjoint-valueerror"
F_TD = "C14-to-dense-array-typeerror"

COO_ACTIONS = ["M2C_Check", "M2C_CountRow", "M2C_CountSet", "M2C_CountClear", "M2C_CountRowEnd", "M2C_Cumsum",
               "M2C_Mismatch", "M2C_Match", "M2C_FillRow", "M2C_FillRowEmpty", "M2C_FillSet", "M2C_FillClear",
               "M2C_FillRowEnd", "M2C_Return0", "FromDataMask", "TS_Keep", "TS_Masked", "TS_Below", "TS_Return",
               "FromDataCut", "IS_Start", "IS_RowBack", "IS_ColBack", "IS_Dup", "IS_Fine", "IS_Return",
               "Sort_Order", "Reorder_Row", "Reorder_Col", "Reorder_Px", "Reorder_Done", "Th_Compare", "Th_Mask",
               "Th_Empty", "TD_Start", "TD_Add", "TD_Done", "TD2_Start", "TD2_Add", "TD2_Done"]
PIPE_ACTIONS = ["Lin_Check", "SO_RowAhead1", "SO_RowAhead2", "SO_ColAhead1", "SO_ColAhead2", "SO_Hit",
                "SO_EndMerge", "SO_Fill1", "SO_Fill1End", "SO_Fill2", "SO_Return", "Lin_NoOverlap", "Lin_Gather",
                "Lin_Result", "Mat_Check", "COV_Zero", "COV_ZeroEnd", "COV_Hit", "COV_Ahead1", "COV_Ahead2",
                "COV_MergeEnd", "COV_ScanHit", "COV_ScanZero", "Mat_Result"]
HIST_ACTIONS = ["Lin_Check", "SO_Hit", "Lin_NoOverlap", "Lin_Gather", "Lin_Result", "Mat_Check", "COV_Hit",
                "Mat_Result", "Hist_Next"]
CD_ACTIONS = ["CD_Start", "CD_Max", "CD_MaxEnd", "CD_Zero", "CD_ZeroEnd", "CD_Hist1", "CD_Hist2", "CD_HistEnd",
              "CD_Cumsum", "CD_CumsumEnd", "CD_Scatter1", "CD_Scatter1End", "CD_Scatter2", "CD_RunInit",
              "CD_RunSame", "CD_RunNew", "CD_Return"]

# (name, module, cfg, required coverage, timeout)
RUNS = {
    "quick": [
        ("SparseCoo q (2x3,1x5,5x1 masks; 2x2,1x3 cuts; sorts, thresholds)", "SparseCoo", "SparseCoo_q.cfg", COO_ACTIONS, 300),
        ("SparseOverlaps q22 (2x2, 2 labels; cd len<=3)", "SparseOverlaps", "SparseOverlaps_q22.cfg",
         PIPE_ACTIONS + CD_ACTIONS + ["Cd_Done"], 300),
        ("SparseOverlaps q13 (1x3, 3 labels, nlabel slack)", "SparseOverlaps", "SparseOverlaps_q13.cfg", PIPE_ACTIONS, 300),
        ("SparseOverlaps qh (histories: every 2 calls of one object, 1x2, 2 labels, chained and free)", "SparseOverlaps",
         "SparseOverlaps_qh.cfg", HIST_ACTIONS, 300),
        ("SparseOverlaps hsim (histories: 6 calls of one object, 1x3 / 2x2, 3 labels, nlabel slack; sampled)",
         "SparseOverlaps", "SparseOverlaps_hsim.cfg", HIST_ACTIONS, 300, "seeded"),
    ],
    "thorough": [
        ("SparseCoo t (2x3,3x3,1x5,5x1 masks; 2x3 cuts; 2x3 sorts, thresholds)", "SparseCoo", "SparseCoo_t.cfg", COO_ACTIONS, 1500),
        ("SparseOverlaps t22 (2x2, 3 labels)", "SparseOverlaps", "SparseOverlaps_t22.cfg", PIPE_ACTIONS, 1500),
        ("SparseOverlaps t23 (2x3, all coordinate pairs)", "SparseOverlaps", "SparseOverlaps_t23.cfg", PIPE_ACTIONS, 900),
        ("SparseOverlaps t14 (1x4,4x1, 3 labels)", "SparseOverlaps", "SparseOverlaps_t14.cfg", PIPE_ACTIONS, 1500),
        ("SparseOverlaps t13n (1x3, labels any subset of 1..3)", "SparseOverlaps", "SparseOverlaps_t13n.cfg", PIPE_ACTIONS, 600),
        ("SparseOverlaps q13 (1x3, 3 labels, nlabel slack)", "SparseOverlaps", "SparseOverlaps_q13.cfg", PIPE_ACTIONS, 300),
        ("SparseOverlaps tcd5 (cd: all pair sequences len<=5, 3 labels)", "SparseOverlaps", "SparseOverlaps_tcd5.cfg",
         CD_ACTIONS + ["Cd_Done"], 1500),
        ("SparseOverlaps tcd6 (cd: len<=6, 2 labels, nt slack)", "SparseOverlaps", "SparseOverlaps_tcd6.cfg",
         CD_ACTIONS + ["Cd_Done"], 900),
        ("SparseOverlaps th2 (histories: every 2 calls, 1x2, 2 labels, nlabel slack)", "SparseOverlaps",
         "SparseOverlaps_th2.cfg", HIST_ACTIONS, 900),
        ("SparseOverlaps th3 (histories: every 3 calls, 1x2, 2 labels)", "SparseOverlaps",
         "SparseOverlaps_th3.cfg", HIST_ACTIONS, 1500),
        ("SparseOverlaps hsim_t (histories: 6 calls of one object, 1x3 / 2x2, 3 labels, nlabel slack; sampled)",
         "SparseOverlaps", "SparseOverlaps_hsim_t.cfg", HIST_ACTIONS, 900, "seeded"),
    ],
}


def workers():
    try:
        return int(os.environ.get("VERIF_TLC_WORKERS", "16"))
    except ValueError:
        return 16


def tlc_cases(chk, name, module, cfg, cover, timeout, coverage, seeded=False):
    cfgpath = os.path.join(common.SPECS, cfg)
    # seeded: the configuration samples with TLC's RandomSubset; VERIF_SEED selects the sample
    extra = ("-seed", str(common.seed() + 14)) if seeded else ()
    res = common.run_tlc(module, cfgpath, workers=workers(), coverage=coverage, timeout=timeout, extra_args=extra)
    chk.add_tlc(name, res)
    if res.violated:
        # the repaired model states the property; if TLC refutes it the *model* is inconsistent (the code
        # under test is not involved in this run)
        raise common.MachineryError("TLC run %s: invariant %s violated in the model\n%s" % (
            name, res.violated, res.stdout[-2500:]))
    cases, bad = parse_cases(res)
    if bad:
        res = common.run_tlc(module, cfgpath, workers=1, coverage=False, timeout=timeout * 4, extra_args=extra)
        if res.error or res.violated:
            raise common.MachineryError("TLC rerun %s failed: %s" % (name, res.error or res.violated))
        cases, bad = parse_cases(res)
        if bad:
            raise common.MachineryError("TLC run %s: %d unparsable case lines" % (name, bad))
    if not cases:
        raise common.MachineryError("TLC run %s emitted no case" % name)
    if coverage:        # vacuity is judged on the union of the tier's runs (a 1x3 grid has no row change)
        if not res.coverage:
            raise common.MachineryError("TLC run %s: no coverage statistics" % name)
        tot = chk.notes.setdefault("action_coverage", {})
        for a, (d, t) in res.coverage.items():
            tot[a] = tot.get(a, 0) + t
    return cases


def parse_cases(res):
    out, bad, seen = [], 0, set()
    for line in res.printed:
        try:
            r = json.loads(line)
        except ValueError:
            bad += 1
            continue
        k = c14_replay.case_key(r)
        if k in seen:           # mask_to_coo: several row orders end in the same arrays
            continue
        seen.add(k)
        out.append(r)
    return out, bad


def is_disjoint(case):
    """the two frames of an overlap case share no pixel"""
    if case.get("prog") == "pipe":
        return case["so"]["npx"] == 0
    if case.get("prog") == "big" and case.get("kind") == "hist":
        return False
    if case.get("prog") == "big" and case.get("kind") == "ovl":
        a = set(zip(case["f1"]["row"], case["f1"]["col"]))
        return not (a & set(zip(case["f2"]["row"], case["f2"]["col"])))
    return False


class Failures(object):
    """groups the failures of the replay by (program, route, kind); one violation per group"""

    def __init__(self):
        self.groups = {}

    @staticmethod
    def sig(prog, route, kind):
        return (route.split("[")[0].split(" (")[0], kind)

    def add(self, case, fails, tag=""):
        for route, kind, msg in fails:
            s = self.sig(case.get("prog", "?"), route, kind)
            g = self.groups.setdefault(s, {"n": 0, "first": None, "msg": None, "all_disjoint": True, "tag": tag,
                                           "all_unhashable": True})
            g["n"] += 1
            if "unhashable type" not in msg:
                g["all_unhashable"] = False
            if g["first"] is None:
                g["first"], g["msg"] = case, msg
            if not is_disjoint(case):
                g["all_disjoint"] = False


def child_replay(chk, lines, tag, flavour, F, light):
    """replay `lines` (TLC cases and seeded recipes) in a child process on the given build flavour.  The parent
    never runs the cases itself: a crash of the implementation (SIGSEGV, sanitizer abort) becomes a violation
    with the cases around the crash as replay file.  Returns the child's output (events of the recipes)."""
    shadow = common.build_shadow(flavour)
    if flavour == "asan":
        env = common.asan_env(shadow)
    else:
        env = dict(os.environ)
        env["PYTHONPATH"] = shadow
        env["PYTHONDONTWRITEBYTECODE"] = "1"
        env["NUMBA_CACHE_DIR"] = os.path.join(common.scratch(), "numba")
    env["OMP_WAIT_POLICY"] = "passive"
    d = common.scratch()
    cpath = os.path.join(d, "c14_cases_%s.jsonl" % tag)
    opath = os.path.join(d, "c14_out_%s.json" % tag)
    for pth in (opath, opath + ".cur"):
        if os.path.exists(pth):
            os.unlink(pth)
    with open(cpath, "w") as f:
        for c in lines:
            f.write(json.dumps(c) + "\n")
    here = os.path.dirname(os.path.dirname(os.path.abspath(__file__)))
    p = subprocess.run([common.PY, os.path.join(here, "c14_replay.py"), cpath, opath, "light" if light else "full"],
                       env=env, stdout=subprocess.PIPE, stderr=subprocess.PIPE, text=True, timeout=3000)
    out = json.load(open(opath)) if os.path.exists(opath) else None
    if out is None:
        try:
            last = int(open(opath + ".cur").read())
        except Exception:
            last = -1
        san = ("AddressSanitizer" in p.stderr) or ("runtime error:" in p.stderr) or p.returncode in (66, 67)
        if last < 0 or not (san or p.returncode < 0):
            # died before the first case / python-level failure of the harness: not something the code did
            raise common.MachineryError("replay child (%s, %s) failed rc=%s: %s" % (
                tag, flavour, p.returncode, p.stderr[-2000:]))
        rep = p.stderr[-3000:]
        first = [l for l in p.stderr.splitlines() if "ERROR: AddressSanitizer" in l or "runtime error:" in l]
        why = first[0].strip()[:200] if first else ("signal %d" % (-p.returncode) if p.returncode < 0 else
                                                     "sanitizer exit code %d" % p.returncode)
        near = lines[last:last + 26]
        chk.violation("implementation crashed on the %s build (%s) while replaying %s, within the 25 cases after "
                      "case %d" % (flavour, why, tag, last),
                      {"crash": True, "flavour": flavour, "light": light, "stderr": rep, "near_cases": near})
        return {"n": last, "problems": [], "events": [], "crashed": True}
    for pr in out.get("problems", []):
        F.add(lines[pr["idx"]], [tuple(x) for x in pr["problems"]], tag="sanitizer build" if flavour == "asan" else "")
    # vacuity: calls into the implementation per route family, summed over the children of this run
    tot = chk.notes.setdefault("calls_per_route_family", {})
    for fam, n in out.get("counts", {}).items():
        tot[fam] = tot.get(fam, 0) + n
    return out


def account(chk, cases):
    for idx, case in enumerate(cases):
        if case.get("prog") == "big":
            chk.case(json.dumps(case, sort_keys=True), nontrivial=True)
        else:
            chk.case(c14_replay.case_key(case), nontrivial=bool(c14_replay.nontrivial(case)))
        chk.traces += 1
        if idx in (3, len(cases) // 2) and case.get("prog") != "big":
            chk.sample(case, limit=6)


# ------------------------------------------------------------------------------------------------
# design-level counterexamples of the as-is models, replayed on the real code

def _fn2list(d):
    return [d[k] for k in sorted(d)]


def asis_runs(chk, mods):
    info = {}
    # --- F7: sort()/sort_by() call self.reorder(self, order)
    res = common.run_tlc("SparseCoo", os.path.join(common.SPECS, "SparseCoo_asis.cfg"), workers=1, timeout=300)
    chk.add_tlc("SparseCoo as-is (FIXED=FALSE): sort() as in the tree", res)
    if "SortTotal" not in res.violated:
        raise common.MachineryError("as-is model of sort() does not violate SortTotal: %s" % res.stdout[-1500:])
    inp = common.parse_tla(res.trace[0]["vars"]["inp"])
    fr0 = inp["frame"]
    case = {"how": inp["how"], "shape": list(fr0["shape"]), "row": _fn2list(fr0["row"]), "col": _fn2list(fr0["col"]),
            "intensity": _fn2list(fr0["px"]["intensity"]), "labels": _fn2list(fr0["px"]["labels"])}
    fr = mods.sf.sparse_frame(np.array(case["row"], np.uint16), np.array(case["col"], np.uint16),
                              tuple(case["shape"]), pixels={"intensity": np.array(case["intensity"], np.float32),
                                                            "labels": np.array(case["labels"], np.int32)})
    try:
        fr.sort() if case["how"] == "sort" else fr.sort_by("labels")
        info["sort"] = {"tlc": "SortTotal violated", "counterexample": case, "real_code": "returns (site repaired)"}
    except TypeError as e:
        info["sort"] = {"tlc": "SortTotal violated", "counterexample": case, "real_code": "TypeError: %s" % e,
                        "confirmed": True}
    # --- overlaps() without the npx == 0 test
    res = common.run_tlc("SparseOverlaps", os.path.join(common.SPECS, "SparseOverlaps_asis.cfg"), workers=1, timeout=300)
    chk.add_tlc("SparseOverlaps as-is (FIXED=FALSE): overlaps() as in the tree", res)
    if "OvlTotal" not in res.violated:
        raise common.MachineryError("as-is model of overlaps() does not violate OvlTotal: %s" % res.stdout[-1500:])
    inp = common.parse_tla(res.trace[0]["vars"]["inp"])
    f1, f2 = inp["f1"], inp["f2"]
    case = {"shape": [inp["ns"], inp["nf"]],
            "f1": {k: (_fn2list(f1[k]) if isinstance(f1[k], dict) else f1[k]) for k in f1},
            "f2": {k: (_fn2list(f2[k]) if isinstance(f2[k], dict) else f2[k]) for k in f2}}
    fa = mods.sf.sparse_frame(np.array(case["f1"]["row"], np.uint16), np.array(case["f1"]["col"], np.uint16),
                              tuple(case["shape"]), pixels={"lab": np.array(case["f1"]["lab"], np.int32)})
    fa.meta["lab"] = {"nlabel": case["f1"]["n"]}
    fb = mods.sf.sparse_frame(np.array(case["f2"]["row"], np.uint16), np.array(case["f2"]["col"], np.uint16),
                              tuple(case["shape"]), pixels={"lab": np.array(case["f2"]["lab"], np.int32)})
    fb.meta["lab"] = {"nlabel": case["f2"]["n"]}
    try:
        mods.sf.overlaps(fa, "lab", fb, "lab")
        info["overlaps"] = {"tlc": "OvlTotal violated", "counterexample": case, "real_code": "returns (site repaired)"}
    except ValueError as e:
        info["overlaps"] = {"tlc": "OvlTotal violated", "counterexample": case, "real_code": "ValueError: %s" % e,
                            "confirmed": True}
    # --- to_dense(<array>): `data in self.pixels` hashes the array
    res = common.run_tlc("SparseCoo", os.path.join(common.SPECS, "SparseCoo_asis_td.cfg"), workers=1, timeout=300)
    chk.add_tlc("SparseCoo as-is (TDFIXED=FALSE): to_dense(<array>) as in the tree", res)
    if "DenseTotal" not in res.violated:
        raise common.MachineryError("as-is model of to_dense(array) does not violate DenseTotal: %s" % res.stdout[-1500:])
    inp = common.parse_tla(res.trace[0]["vars"]["inp"])
    case = {"shape": [inp["ns"], inp["nf"]], "msk": _fn2list(inp["msk"])}
    msk = np.array(case["msk"], np.int8).reshape(case["shape"])
    data = (np.arange(msk.size, dtype=np.float32) + 11).reshape(case["shape"])
    fr = mods.sf.from_data_mask(msk, data, {})
    try:
        d = fr.to_dense(fr.pixels["intensity"])
        good = np.array_equal(np.asarray(d), np.where(msk != 0, data, 0))
        info["to_dense_array"] = {"tlc": "DenseTotal violated", "counterexample": case,
                                  "real_code": "returns%s (site repaired)" % ("" if good else " ANOTHER IMAGE")}
    except TypeError as e:
        byname = np.array_equal(np.asarray(fr.to_dense("intensity")), np.where(msk != 0, data, 0))
        info["to_dense_array"] = {"tlc": "DenseTotal violated", "counterexample": case, "real_code": "TypeError: %s" % e,
                                  "confirmed": bool("unhashable" in str(e) and byname)}
    chk.notes["design_level_counterexamples"] = info
    return info


# ------------------------------------------------------------------------------------------------
def report(chk, F, asis):
    """one violation (or known finding) per failure group"""
    have_reorder_fail = any(s[0] == "sparse_frame.reorder" for s in F.groups)
    for s in sorted(F.groups, key=str):
        g = F.groups[s]
        route, kind = s
        what = "%s: %s%s [%d failing case(s) in this run; first one in the replay file]" % (
            route, g["msg"].split("\n")[0][:300], " (%s)" % g["tag"] if g["tag"] else "", g["n"])
        # known findings: the class named by the entry AND explained by the as-is model
        if route in ("sparse_frame.sort", "sparse_frame.sort_by") and kind == "TypeError":
            e = chk.finding(F_SORT)
            if e is not None and asis.get("sort", {}).get("confirmed") and not have_reorder_fail:
                chk.known_finding(F_SORT, "sparse_frame.sort()/sort_by() raise TypeError (self.reorder(self, order))")
                continue
        if route == c14_replay.TD_ARRAY and kind == "TypeError" and g["all_unhashable"]:
            # the array form of `data` only; every other way of choosing `data` is judged in its own group
            e = chk.finding(F_TD)
            if e is not None and asis.get("to_dense_array", {}).get("confirmed"):
                chk.known_finding(F_TD, "sparse_frame.to_dense(<array>) raises TypeError (`data in self.pixels` hashes the array)")
                continue
        if route == "sparseframe.overlaps" and kind == "ValueError" and g["all_disjoint"]:
            e = chk.finding(F_OVL)
            if e is not None and asis.get("overlaps", {}).get("confirmed"):
                chk.known_finding(F_OVL, "sparseframe.overlaps() raises ValueError for frames sharing no pixel")
                continue
        chk.violation(what, g["first"])


def run(tier, replay_path=None):
    chk = common.Check(PROP, tier)
    shadow = common.build_shadow("normal")
    common.use_shadow(shadow)
    os.environ.setdefault("OMP_WAIT_POLICY", "passive")     # idle OpenMP threads sleep (shared machine)
    mods = c14_replay.load_mods(consumer=True)
    nthreads0 = mods.c.cimaged11_omp_get_max_threads()
    mods.c.cimaged11_omp_set_num_threads(1)                 # thread sweeps are explicit (c14_replay.with_threads)
    try:
        return _run(chk, tier, replay_path, mods)
    finally:
        mods.c.cimaged11_omp_set_num_threads(nthreads0)


def _run(chk, tier, replay_path, mods):
    if mods.props is None:
        chk.notes["consumer_import"] = getattr(mods, "props_error", "?")
    if replay_path:
        return run_replay(chk, replay_path, mods)
    F = Failures()
    coverage = (tier == "thorough")
    allcases = []
    crashed = False
    for k, run in enumerate(RUNS[tier]):
        name, module, cfg, cover, timeout = run[:5]
        t0 = time.time()
        cases = tlc_cases(chk, name, module, cfg, cover, timeout, coverage, seeded=len(run) > 5)
        t1 = time.time()
        out = child_replay(chk, cases, "run%d" % k, "normal", F, light=False)
        crashed = crashed or out.get("crashed", False)
        account(chk, cases[:out["n"]])
        chk.notes.setdefault("cases_per_run", {})[name] = {"cases": len(cases), "replayed": out["n"],
                                                         "tlc_s": round(t1 - t0, 1),
                                                         "replay_s": round(time.time() - t1, 1)}
        allcases.append(cases)
    if coverage:
        for a in COO_ACTIONS + PIPE_ACTIONS + CD_ACTIONS + ["Cd_Done", "Hist_Next"]:
            if chk.notes["action_coverage"].get(a, 0) == 0:
                raise common.MachineryError("vacuity: action %s never taken in any TLC run of this tier" % a)
    asis = asis_runs(chk, mods)
    # mode C: seeded larger cases, executed in a child (normal build), judged by TLC (TraceSparse.tla)
    t0 = time.time()
    recipes = c14_big.make_recipes(tier)
    out = child_replay(chk, recipes, "seeded", "normal", F, light=False)
    crashed = crashed or out.get("crashed", False)
    account(chk, recipes[:out["n"]])
    c14_big.judge_events(chk, F, recipes[:out["n"]], out["events"], "seeded")
    chk.notes["seeded_s"] = round(time.time() - t0, 1)
    # sanitizer build: a spread of the emitted cases (kernels + sparseframe layer) and the seeded recipes
    t0 = time.time()
    rng = np.random.RandomState(common.seed())
    sel = []
    for cases in allcases:
        n = 400 if tier == "quick" else 4000
        idx = np.arange(len(cases)) if len(cases) <= n else np.sort(rng.choice(len(cases), n, replace=False))
        sel += [cases[i] for i in idx]
    nrec = 40 if tier == "quick" else len(recipes)
    sel += recipes[:nrec // 2] + [r for r in recipes if r["kind"] == "ovl"][:nrec // 2]
    sel += [r for r in recipes if r["kind"] == "hist"][:2 if tier == "quick" else None]
    sel += [r for r in recipes if r.get("full")][:6 if tier == "quick" else None]
    out = child_replay(chk, sel, "asan", "asan", F, light=True)
    chk.notes["asan_cases"] = out["n"]
    chk.notes["asan_s"] = round(time.time() - t0, 1)
    report(chk, F, asis)
    if tier == "thorough":
        selftest(mods)
    chk.rule = ("cases = every terminal state of the TLC runs (all masks / images / coordinate sequences / "
                "permutations / labelled frame pairs / label-pair sequences of the configured scope), each replayed "
                "through every route; non-trivial = frame with >= 2 pixels, cut keeps a proper subset, permutation "
                "not already sorted, duplicates present, partial overlap, history with >= 2 different pairs; plus "
                "seeded larger cases judged by TLC")
    chk.exhaustive = not crashed
    chk.assumptions = [
        "label arrays are int32 and index arrays uint16 (what SparseScan produces); cuts for uint16 / uint32 images "
        "are non-negative and below the top of the dtype (float32 cuts: any sign, need not be binary32 numbers; a "
        "cut is compared as the C float the kernels receive); masks hold non-negative values",
        "histories of a cached object: exhaustive for 2 calls on 1x2 (3 calls in thorough), a seeded sample of "
        "6-call histories on 1x3 / 2x2; freshly allocated work arrays are modelled as one poison value",
        "pairrow / pairscans: distinct omegas (numpy's argsort / argmin order among equal omegas is not specified); "
        "pairscans matches omegas after % 360 without wrap-around at 0/360 (its own rule, not judged)",
        "sparse_frame accepts shapes up to 65534 x 65534 (its own assertion); 65535 columns only through the raw kernels",
        "the full product of 2x3 frames with 3 labels is covered by decomposition (all coordinate pairs x all "
        "label-pair sequences) plus random sampling, not enumerated",
        "the packed 32-bit key comparison of coverlaps is modelled as the lexicographic comparison of (row, col)",
    ]
    return chk.finish()


def run_replay(chk, path, mods):
    obj = json.load(open(path))
    case = obj["case"]
    F = Failures()

    def violation(what, _obj):      # the replayed file stays the replay file (nothing is rewritten)
        chk.violations.append((what, path))
        print("  violation: %s" % what)
    chk.violation = violation
    if isinstance(case, dict) and case.get("crash"):
        lines, flavour, light = case.get("near_cases", []), case.get("flavour", "normal"), case.get("light", False)
    else:
        lines, flavour, light = [case], "normal", False
    out = child_replay(chk, lines, "replay", flavour, F, light)
    account(chk, lines[:out["n"]])
    recipes = [c for c in lines[:out["n"]] if c.get("prog") == "big"]
    for k, r in enumerate(recipes):
        r.setdefault("id", k)
    c14_big.judge_events(chk, F, recipes, out["events"], "replay")
    asis = asis_runs(chk, mods) if F.groups else {}
    report(chk, F, asis)
    chk.rule = "replay of one saved case"
    chk.exhaustive = False
    return chk.finish()


# ------------------------------------------------------------------------------------------------
ST_CASES = [
    {"prog": "m2c", "ns": 2, "nf": 3, "msk": [0, 1, 1, 1, 0, 1], "nnz": 4, "ret": 0, "i": [0, 0, 1, 1], "j": [1, 2, 0, 2],
     "w": [2, 4], "frame": [{"shape": [2, 3], "nnz": 4, "row": [0, 0, 1, 1], "col": [1, 2, 0, 2], "names": ["intensity"],
                             "px": {"intensity": [12, 13, 21, 23]}}], "dense": [0, 12, 13, 21, 0, 23]},
    {"prog": "sorted", "nnz": 3, "i": [0, 0, 0], "j": [0, 0, 1], "ret": -1},
    {"prog": "cd", "i": [2, 1, 2], "j": [1, 1, 1], "n": 3, "nt": 3,
     "cd": {"i": [1, 2, 2], "j": [1, 1, 1], "oi": [1, 2, 2], "oj": [1, 1, 1], "tmp": [0, 1, 3], "ret": 2}},
    # a history of one overlaps_linear / overlaps_matrix object (SparseOverlaps_qh.cfg), second call grows it
    json.loads('''{"prog": "hist", "nnzmax0": 1, "npkmax0": 1, "chain": true, "calls": [{"mat": {"res": [[1, 1, 1]], "nov": 1}, "ns": 1, "nf": 2, "f1": {"nnz": 1, "row": [0], "col": [0], "lab": [1], "n": 1}, "f2": {"nnz": 1, "row": [0], "col": [0], "lab": [1], "n": 1}, "nnzmax": 1, "npkmax": 1, "lin": {"nedge": 1, "rcl": [[1, 1, 1]], "none": false}}, {"mat": {"res": [[1, 1, 1]], "nov": 1}, "ns": 1, "nf": 2, "f1": {"nnz": 1, "row": [0], "col": [0], "lab": [1], "n": 1}, "f2": {"nnz": 2, "row": [0, 0], "col": [0, 1], "lab": [1, 1], "n": 1}, "nnzmax": 2, "npkmax": 1, "lin": {"nedge": 1, "rcl": [[1, 1, 1]], "none": false}}]}'''),
]


def _perturb(case):
    out = []
    if case["prog"] == "m2c":
        for fld in ("i", "j", "w", "dense"):
            c = json.loads(json.dumps(case))
            c[fld][-1] += 1
            out.append((fld, c))
        c = json.loads(json.dumps(case))
        c["frame"][0]["px"]["intensity"][0] += 1
        out.append(("intensity", c))
    elif case["prog"] == "sorted":
        out.append(("ret", dict(case, ret=1)))
    elif case["prog"] == "hist":
        for k in range(len(case["calls"])):
            c = json.loads(json.dumps(case))
            c["calls"][k]["lin"]["rcl"][0][2] += 1
            out.append(("call %d lin count" % k, c))
            c = json.loads(json.dumps(case))
            c["calls"][k]["mat"]["res"][-1][1] += 1
            out.append(("call %d mat label" % k, c))
            c = json.loads(json.dumps(case))
            c["calls"][k]["lin"]["nedge"] += 1
            out.append(("call %d nedge" % k, c))
    elif case["prog"] == "cd":
        for fld in ("i", "j", "oi", "oj", "tmp", "ret"):
            c = json.loads(json.dumps(case))
            if fld == "ret":
                c["cd"]["ret"] += 1
            else:
                c["cd"][fld][-1] += 1
            out.append((fld, c))
    return out


def selftest(mods=None):
    if mods is None:
        shadow = common.build_shadow("normal")
        common.use_shadow(shadow)
        mods = c14_replay.load_mods(consumer=False)
    for case in ST_CASES:
        f = c14_replay.judge(case, mods)
        if f:
            raise common.MachineryError("selftest: correct expectation rejected: %s" % (f[:2],))
        for fld, bad in _perturb(case):
            if not c14_replay.judge(bad, mods):
                raise common.MachineryError("selftest: perturbed %s of a %s case accepted" % (fld, case["prog"]))
    c14_big.selftest(mods)
    return True

"""C12 - peak properties and frame-to-frame merging conserve pixels and intensity.

Specification : specs/Merge3D.tla (model of labelimage.peaksearch/mergelast/finalise, blobproperties,
                bloboverlaps, add_pixel/merge; invariants against an independent 3-D component definition)
Binding       : mode B.  Every behaviour (frame sequence) TLC enumerates / simulates is replayed through
                a real labelimage.labelimage and through the bare kernels; after every call the real
                state is compared with the model state.  Longer random series are judged by
                harness/c12_model.py (a transcription of the spec that this check first cross-checks
                against TLC: every observable state of the small scopes, every `out`, and every
                variable of every state of the simulated behaviours) and by an independent 3-D
                flood fill.
"""
from __future__ import print_function
import os, sys, io, json, glob, time, random, subprocess
from fractions import Fraction

import numpy as np

import common
import c12_model as M

PROP = "C12"
SPEC = "Merge3D"
LIVE = ["Peaksearch", "MergeFirst", "EnterOverlaps", "SkipOverlaps", "Overlap", "MergeAcross", "MergeSame2",
        "CompressT", "Relabel", "Output", "Swap", "Finalise"]
WORKERS = int(os.environ.get("VERIF_TLC_WORKERS", "16"))
MOMENT_NAMES = ["avg_i", "f_raw", "s_raw", "o_raw", "m_ss", "m_ff", "m_oo", "m_sf", "m_so", "m_fo"]


# ======================================================================================
# cases

def omega_fn(om0, omstep):
    if float(om0).is_integer() and float(omstep).is_integer():
        a, b = int(om0), int(omstep)
    else:
        a, b = Fraction(om0), Fraction(omstep)          # exact for dyadic floats
    return lambda k: a + (k - 1) * b


def make_case(ns, nf, thr, om0, omstep, frames, origin=""):
    return {"ns": ns, "nf": nf, "thr": thr, "om0": om0, "omstep": omstep,
            "frames": [list(map(int, f)) for f in frames], "origin": origin}


CFG = {   # static configurations: name -> (ns, nf, thr, om0, omstep)
    "2x3_f2": (2, 3, 0, 1, 1), "2x3_f3": (2, 3, 0, 1, 1),
    "1x5_f2": (1, 5, 0, 3, 2), "1x5_f3": (1, 5, 0, 3, 2), "1x7_f2": (1, 7, 0, 0, 1),
    "2x2_thr1_q": (2, 2, 1, 5, -2), "2x2_thr1_f2": (2, 2, 1, 5, -2),
    "sim_3x3": (3, 3, 2, 2, 1), "sim_4x4": (4, 4, 2, -1, 1),
}


# ======================================================================================
# expectations from the model

def _rowsarr(rows):
    if not rows:
        return np.zeros((0, M.NROW))
    return np.array([[float(x) for x in r] for r in rows], dtype=float).reshape(-1, M.NROW)


def snap(m):
    return {"pc": m.pc, "npk": m.npk, "blim": np.array(m.blim, np.int32), "res": _rowsarr(m.res),
            "lastnp": m.lastnp, "lastbl": np.array(m.lastbl, np.int32), "lastres": _rowsarr(m.lastres),
            "lastres_exact": [list(r) for r in m.lastres],
            "nout": len(m.out), "onfirst": m.onfirst, "onlast": m.onlast, "spot": m.spot,
            "called": m.kernel_called}


def model_step(m, frame):
    """advance the model by one peaksearch + mergelast; returns (searched, output-or-None, idle)"""
    m.peaksearch(frame)
    es = snap(m)
    m.mergelast(stop_after_kernel=True)
    eo = None
    if m.pc == "output":
        eo = snap(m)
        m.finish_mergelast()
    return (es, eo, snap(m))


class StepCache(object):
    """model expectations for behaviours that share prefixes (behaviours come sorted)"""

    def __init__(self, ns, nf, thr, omega):
        self.args = (ns, nf, thr, omega)
        self.stack = []

    def get(self, frames):
        d = 0
        while d < len(self.stack) and d < len(frames) and self.stack[d][0] == frames[d]:
            d += 1
        del self.stack[d:]
        m = self.stack[-1][1].clone() if self.stack else M.Model(*self.args)
        for f in frames[d:]:
            st = model_step(m, f)
            self.stack.append((f, m.clone(), st))
        steps = [s[2] for s in self.stack]
        m.finalise()
        return steps, snap(m), m


def model_all(case):
    omega = omega_fn(case["om0"], case["omstep"])
    m = M.Model(case["ns"], case["nf"], case["thr"], omega)
    steps = [model_step(m, f) for f in case["frames"]]
    m.finalise()
    return steps, snap(m), m


# ======================================================================================
# the real code

class Real(object):
    def __init__(self):
        from ImageD11 import cImageD11, labelimage, blobcorrector
        self.c = cImageD11
        self.labelimage = labelimage
        self.blobcorrector = blobcorrector
        self.cols = np.array([getattr(cImageD11, n) for n in M.CNAMES])        # blobs.h enum -> column
        self.mcols = dict((n, getattr(cImageD11, n)) for n in MOMENT_NAMES)
        self.nprop = cImageD11.NPROPERTY
        titles = labelimage.labelimage.titles.replace("#", "").split()
        self.tcol = dict((t, k) for k, t in enumerate(titles))
        self.ntitles = len(titles)
        self._mom = {}

    def raw(self, arr):
        if arr is None:
            return np.zeros((0, M.NROW))
        return np.asarray(arr)[:, self.cols]

    def moments(self, row):
        key = tuple(row[:12])
        v = self._mom.get(key)
        if v is None:
            v = M.exact_moments(row)
            self._mom[key] = v
        return v


def _close(x, e, scale=1.0):
    return abs(x - e) <= 1e-9 * max(scale, abs(e), 1.0) + 1e-12


def check_moments(R, arr, exact_rows):
    """arr: real rows after blob_moments; exact_rows: the model rows (exact sums).  None / message"""
    for k, r in enumerate(exact_rows):
        if r[M.N_] < 1:
            continue
        ex = R.moments(r)
        for name in MOMENT_NAMES:
            x = float(arr[k, R.mcols[name]])
            if not _close(x, float(ex[name])):
                return "compute_moments: row %d %s = %.12g, exact %.12g (sums %r)" % (k, name, x, float(ex[name]), r[:12])
    return None


def expected_text(R, row, onfirst, onlast, spot):
    """columns of one .flt line from a model row: (exact values dict, tolerance class dict)"""
    ex = R.moments(row)
    d = {"sc": ex["s_raw"], "fc": ex["f_raw"], "omega": ex["o_raw"], "Number_of_pixels": row[M.N_],
         "avg_intensity": ex["avg_i"], "s_raw": ex["s_raw"], "f_raw": ex["f_raw"],
         "sigs": ex["m_ss"], "sigf": ex["m_ff"], "covsf": ex["m_sf"], "sigo": ex["m_oo"],
         "covso": ex["m_so"], "covfo": ex["m_fo"], "sum_intensity": row[M.I_], "sum_intensity^2": row[M.I2_],
         "IMax_int": row[M.MXI_], "IMax_s": row[M.MXS_], "IMax_f": row[M.MXF_], "IMax_o": row[M.MXO_],
         "Min_s": row[M.BNS_], "Max_s": row[M.BXS_], "Min_f": row[M.BNF_], "Max_f": row[M.BXF_],
         "Min_o": row[M.BNO_], "Max_o": row[M.BXO_], "dety": -ex["f_raw"], "detz": ex["s_raw"],
         "onfirst": onfirst, "onlast": onlast, "spot3d_id": spot}
    return d


def check_text(R, text, mout):
    """text of the merged-peaks file vs the model's emitted rows"""
    lines = [l for l in text.splitlines() if l.strip() and not l.startswith("#")]
    if len(lines) != len(mout):
        return "output file has %d peaks, model emitted %d" % (len(lines), len(mout))
    for l, (row, of, ol, sid) in zip(lines, mout):
        tok = l.split()
        if len(tok) != R.ntitles:
            return "output line has %d columns, titles %d" % (len(tok), R.ntitles)
        exp = expected_text(R, row, of, ol, sid)
        for name, e in exp.items():
            x = float(tok[R.tcol[name]])
            if abs(x - float(e)) > 0.5001e-4 + 1e-9 * abs(float(e)):
                return "output file: peak %d column %s = %r, expected %.6f" % (sid, name, tok[R.tcol[name]], float(e))
    return None


def _cmp_state(R, what, npk, blim, res, e, with_res=True):
    if int(npk) != e["npk"]:
        return "%s: npk = %r, model %d" % (what, npk, e["npk"])
    if not np.array_equal(np.asarray(blim).ravel(), e["blim"]):
        return "%s: blim = %r, model %r" % (what, np.asarray(blim).ravel().tolist(), e["blim"].tolist())
    if with_res:
        a = R.raw(res)
        if a.shape != e["res"].shape or not np.array_equal(a, e["res"]):
            return "%s: res[:, s_1..bb_mn_o] = %r, model %r" % (what, a.tolist(), e["res"].tolist())
    return None


def _cmp_last(R, what, lastnp, lastbl, lastres, e):
    if lastnp == "FIRST" or int(lastnp) != e["lastnp"]:
        return "%s: lastnp = %r, model %d" % (what, lastnp, e["lastnp"])
    if not np.array_equal(np.asarray(lastbl).ravel(), e["lastbl"]):
        return "%s: lastbl = %r, model %r" % (what, np.asarray(lastbl).ravel().tolist(), e["lastbl"].tolist())
    a = R.raw(lastres)
    if a.shape != e["lastres"].shape or not np.array_equal(a, e["lastres"]):
        return "%s: lastres[:, s_1..bb_mn_o] = %r, model %r" % (what, a.tolist(), e["lastres"].tolist())
    return None


def _frame_array(case, k, dtype):
    return np.array(case["frames"][k], dtype=dtype).reshape(case["ns"], case["nf"])


def route_labelimage(R, case, steps, final, mout, path=None, dtype=np.float64, collect=None):
    """real labelimage object: peaksearch / mergelast / finalise, output parsed back.
    Returns None or the first divergence.  collect (list) receives the emitted raw rows."""
    omega = omega_fn(case["om0"], case["omstep"])
    out = open(path, "w") if path else io.StringIO()
    try:
        li = R.labelimage.labelimage((case["ns"], case["nf"]), fileout=out, sptfile=io.StringIO())
        captured = []
        orig = li.outputpeaks

        def capture(peaks):
            captured.append(np.array(peaks, copy=True))
            return orig(peaks)
        li.outputpeaks = capture
        for k, (es, eo, ei) in enumerate(steps):
            li.peaksearch(_frame_array(case, k, dtype), case["thr"], float(omega(k + 1)))
            msg = _cmp_state(R, "frame %d after peaksearch" % k, li.npk, li.blim, li.res, es)
            if msg:
                return msg
            ncap = len(captured)
            li.mergelast()
            what = "frame %d after mergelast" % k
            msg = _cmp_state(R, what, li.npk, li.blim, None, ei, with_res=False) or \
                _cmp_last(R, what, li.lastnp, li.lastbl, li.lastres, ei)
            if msg:
                return msg
            if (li.onfirst, li.onlast, li.spot3d_id) != (ei["onfirst"], ei["onlast"], ei["spot"]):
                return "%s: onfirst/onlast/spot3d_id = %r, model %r" % (
                    what, (li.onfirst, li.onlast, li.spot3d_id), (ei["onfirst"], ei["onlast"], ei["spot"]))
            want = 1 if (eo is not None and eo["lastnp"] > 0) else 0
            if len(captured) - ncap != want:
                return "%s: outputpeaks called %d times, model %d" % (what, len(captured) - ncap, want)
            if want:
                a = captured[-1]
                if a[:, R.cols].shape != eo["lastres"].shape or not np.array_equal(a[:, R.cols], eo["lastres"]):
                    return "%s: rows handed to outputpeaks %r, model (state at return of bloboverlaps) %r" % (
                        what, a[:, R.cols].tolist(), eo["lastres"].tolist())
                msg = check_moments(R, a, eo["lastres_exact"])
                if msg:
                    return what + ": " + msg
        ncap = len(captured)
        li.finalise()
        last = steps[-1][2]
        want = 1 if last["lastnp"] > 0 else 0
        if len(captured) - ncap != want:
            return "finalise: outputpeaks called %d times, model %d" % (len(captured) - ncap, want)
        if want:
            a = captured[-1]
            if a[:, R.cols].shape != last["lastres"].shape or not np.array_equal(a[:, R.cols], last["lastres"]):
                return "finalise: rows handed to outputpeaks %r, model %r" % (a[:, R.cols].tolist(), last["lastres"].tolist())
            msg = check_moments(R, a, last["lastres_exact"])
            if msg:
                return "finalise: " + msg
        if (li.onfirst, li.onlast, li.spot3d_id) != (final["onfirst"], final["onlast"], final["spot"]):
            return "finalise: onfirst/onlast/spot3d_id = %r, model %r" % (
                (li.onfirst, li.onlast, li.spot3d_id), (final["onfirst"], final["onlast"], final["spot"]))
        if path:
            out.flush()
            text = open(path).read()
        else:
            text = out.getvalue()
        msg = check_text(R, text, mout)
        if msg:
            return msg
        if collect is not None:
            for a in captured:
                for r in a:
                    if r[R.c.s_1] >= 0.1:
                        collect.append(r[R.cols].tolist())
        return None
    finally:
        if path:
            out.close()


def route_kernels(R, case, steps, final, mout, collect=None):
    """bare kernels connectedpixels / blobproperties / bloboverlaps / blob_moments, orchestrated by the
    harness the way the model says; compared after every kernel call."""
    c = R.c
    omega = omega_fn(case["om0"], case["omstep"])
    ns, nf = case["ns"], case["nf"]
    blim = np.zeros((ns, nf), np.int32)
    lastbl = np.zeros((ns, nf), np.int32)
    lastnp, lastres = None, None
    emitted = []
    for k, (es, eo, ei) in enumerate(steps):
        d = _frame_array(case, k, np.float32)
        npk = c.connectedpixels(d, blim, case["thr"], 0)
        res = c.blobproperties(d, blim, npk, omega=float(omega(k + 1))) if npk > 0 else None
        msg = _cmp_state(R, "kernels frame %d after connectedpixels+blobproperties" % k, npk, blim, res, es)
        if msg:
            return msg
        if res is not None and res.shape != (npk, R.nprop):
            return "kernels frame %d: blobproperties returned shape %r" % (k, res.shape)
        if lastnp is None:
            lastbl, blim = blim, lastbl
            lastnp, lastres = npk, res
        else:
            if npk > 0 and lastnp > 0:
                if not eo["called"]:
                    return "kernels frame %d: model did not call bloboverlaps" % k
                before = lastbl.copy()
                ret = c.bloboverlaps(lastbl, lastnp, lastres, blim, npk, res, 0)
                what = "kernels frame %d after bloboverlaps" % k
                msg = _cmp_state(R, what, ret, blim, res, eo) or _cmp_last(R, what, lastnp, lastbl, lastres, eo)
                if msg:
                    return msg
                if not np.array_equal(before, lastbl):
                    return what + ": labels1 modified"
                # everything beyond the raw sums of a row merged away must be zero too ("trash b2")
                for rows, ex in ((lastres, eo["lastres"]), (res, eo["res"])):
                    for j in range(len(ex)):
                        if ex[j, M.N_] == 0 and np.any(rows[j] != 0):
                            return what + ": a merged-away row is not zeroed"
                npk = ret
            if lastnp > 0:
                c.blob_moments(lastres[:lastnp])
                msg = check_moments(R, lastres, eo["lastres_exact"])
                if msg:
                    return "kernels frame %d: %s" % (k, msg)
                for r in lastres[:lastnp]:
                    if r[c.s_1] >= 0.1:
                        emitted.append(r[R.cols].tolist())
            lastnp = npk
            lastres = res[:npk] if npk > 0 else None
            lastbl, blim = blim, lastbl
        what = "kernels frame %d after merge" % k
        msg = _cmp_last(R, what, lastnp, lastbl, lastres, ei)
        if msg:
            return msg
    if lastres is not None:
        c.blob_moments(lastres)
        msg = check_moments(R, lastres, steps[-1][2]["lastres_exact"])
        if msg:
            return "kernels finalise: " + msg
        for r in lastres:
            if r[c.s_1] >= 0.1:
                emitted.append(r[R.cols].tolist())
    want = [[float(x) for x in row] for (row, _a, _b, _c) in mout]
    if emitted != want:
        return "kernels: emitted rows %r, model %r" % (emitted, want)
    if collect is not None:
        collect.extend(emitted)
    return None


class _FakeImage(object):
    def __init__(self, data, omega, k):
        self.data = data
        self.header = {"Omega": omega}
        self.currentframe = k
        self.filename = "synthetic%04d" % k


def route_peaksearcher(R, cases):
    """ImageD11.peaksearcher.peaksearch() with one labelimage per threshold (cases differ only in thr).
    Returns None or message."""
    from ImageD11 import peaksearcher
    base = cases[0]
    omega = omega_fn(base["om0"], base["omstep"])
    thresholds = [float(cs["thr"]) for cs in cases]
    outs = dict((t, io.StringIO()) for t in thresholds)
    labims = dict((t, R.labelimage.labelimage((base["ns"], base["nf"]), fileout=outs[t], sptfile=io.StringIO()))
                  for t in thresholds)
    corr = R.blobcorrector.perfect()
    sav = sys.stdout
    sys.stdout = io.StringIO()
    try:
        for k in range(len(base["frames"])):
            img = _FakeImage(_frame_array(base, k, np.uint16), float(omega(k + 1)), k)
            peaksearcher.peaksearch(img.filename, img, corr, thresholds, labims)
        for t in thresholds:
            labims[t].finalise()
    finally:
        sys.stdout = sav
    for cs, t in zip(cases, thresholds):
        _steps, _final, m = model_all(cs)
        msg = check_text(R, outs[t].getvalue(), m.out)
        if msg:
            return "peaksearcher.peaksearch threshold %g: %s" % (t, msg)
    return None


def route_script(R, shadow, cases, single_thread):
    """scripts/peaksearch.py on an edf file series written with fabio"""
    import fabio
    base = cases[0]
    omega = omega_fn(base["om0"], base["omstep"])
    d = os.path.join(common.scratch(), "series%d" % random.randrange(1 << 30))
    os.makedirs(d)
    n = len(base["frames"])
    for k in range(n):
        im = fabio.edfimage.edfimage(data=_frame_array(base, k, np.uint16),
                                     header={"Omega": "%r" % float(omega(k + 1))})
        im.write(os.path.join(d, "syn%04d.edf" % k))
    script = os.path.join(common.REPO, "scripts", "peaksearch.py")
    cmd = [common.PY, script, "-n", os.path.join(d, "syn"), "-f", "0", "-l", str(n - 1), "-o",
           os.path.join(d, "pks.spt"), "-p", "Y"]
    for cs in cases:
        cmd += ["-t", "%g" % cs["thr"]]
    if single_thread:
        cmd.append("--singleThread")
    env = dict(os.environ)
    env["PYTHONPATH"] = shadow
    env["PYTHONDONTWRITEBYTECODE"] = "1"
    env["OMP_NUM_THREADS"] = "2"
    p = subprocess.run(cmd, cwd=d, env=env, stdout=subprocess.PIPE, stderr=subprocess.STDOUT, text=True, timeout=300)
    if p.returncode != 0:
        tail = p.stdout[-1500:]
        frames_ = [l for l in p.stdout.splitlines() if l.strip().startswith("File ")]
        if frames_ and ("/ImageD11/" in frames_[-1] or "/scripts/" in frames_[-1]):
            return "scripts/peaksearch.py exited %d inside the package: %s" % (p.returncode, tail[-400:].replace("\n", " | "))
        raise common.MachineryError("scripts/peaksearch.py failed outside the package:\n" + tail)
    for cs in cases:
        path = os.path.join(d, "pks_t%d.flt" % int(cs["thr"]))
        if not os.path.exists(path):
            return "scripts/peaksearch.py wrote no %s" % os.path.basename(path)
        _steps, _final, m = model_all(cs)
        msg = check_text(R, open(path).read(), m.out)
        if msg:
            return "scripts/peaksearch.py (%s) threshold %g: %s" % (
                "singleThread" if single_thread else "threaded", cs["thr"], msg)
    return None


def route_columnfile(R, path, mout):
    """the merged file read back the way users do (ImageD11.columnfile)"""
    from ImageD11 import columnfile
    if not mout:
        return None            # columnfile cannot represent an empty table
    cf = columnfile.columnfile(path)
    if cf.nrows != len(mout):
        return "columnfile: %d rows, model %d" % (cf.nrows, len(mout))
    for name, idx in (("Number_of_pixels", M.N_), ("sum_intensity", M.I_), ("IMax_int", M.MXI_),
                      ("Min_s", M.BNS_), ("Max_s", M.BXS_), ("Min_f", M.BNF_), ("Max_f", M.BXF_)):
        a = cf.getcolumn(name)
        e = [float(row[idx]) for (row, _a, _b, _c) in mout]
        if a.tolist() != e:
            return "columnfile: column %s = %r, model %r" % (name, a.tolist(), e)
    if cf.getcolumn("spot3d_id").tolist() != [float(x) for x in range(len(mout))]:
        return "columnfile: spot3d_id not 0..n-1"
    return None


def property_judge(case, rows):
    """the property itself on the REAL output, by an independent 3-D flood fill"""
    omega = omega_fn(case["om0"], case["omstep"])
    ex = []
    for r in rows:
        ex.append([int(x) if float(x).is_integer() else Fraction(x) for x in r])
    return M.judge_against_components(ex, case["frames"], case["ns"], case["nf"], case["thr"], omega)


# ======================================================================================
# one behaviour through the core routes

def guarded(route, *a, **kw):
    """an exception raised while the real code is being driven is a divergence of the code (the unchanged
    tree raises nowhere on these inputs), not a failure of the machinery"""
    try:
        return route(*a, **kw)
    except common.MachineryError:
        raise
    except Exception as e:           # noqa
        import traceback
        tb = traceback.extract_tb(sys.exc_info()[2])
        where = "%s:%d" % (os.path.basename(tb[-1].filename), tb[-1].lineno)
        return "%s raised %s: %s (at %s)" % (route.__name__, type(e).__name__, e, where)


def replay_behaviour(R, chk, case, steps, final, m, routes=("labelimage", "kernels"), path=None, stats=None):
    """returns list of (route, message) divergences (empty = conforms and property holds)"""
    bad = []
    if "labelimage" in routes:
        rows = []
        msg = guarded(route_labelimage, R, case, steps, final, m.out, path=path, collect=rows)
        if msg:
            bad.append(("labelimage", msg))
        else:
            j = property_judge(case, rows)
            if j:
                bad.append(("labelimage/property", j))
            if path:
                msg = guarded(route_columnfile, R, path, m.out)
                if msg:
                    bad.append(("columnfile", msg))
    if "kernels" in routes:
        rows = []
        msg = guarded(route_kernels, R, case, steps, final, m.out, collect=rows)
        if msg:
            bad.append(("kernels", msg))
        else:
            j = property_judge(case, rows)
            if j:
                bad.append(("kernels/property", j))
    if stats is not None:
        for a, n in m.actions.items():
            stats[a] = stats.get(a, 0) + n
    return bad


def report(chk, case, bad):
    for route, msg in bad[:1]:
        chk.violation("%s: %s" % (route, msg), {"case": case, "route": route})


# ======================================================================================
# TLC side

EXTRA_COVER = {"1x5_f2": ["CopyMoved"], "1x7_f2": ["CopyMoved", "CopyCheckEmpty"]}


def _tlc(chk, name, tier, simulate=None, depth=None, dump=None, coverage=False, timeout=1500, workers=None):
    cfg = "%s_%s.cfg" % (SPEC, name.split()[0])
    res = common.run_tlc(SPEC, cfg, workers=workers or WORKERS, simulate=simulate, depth=depth,
                         dump_traces=dump, coverage=coverage, timeout=timeout)
    cover = ()
    if coverage and simulate is None and not res.violated:
        cover = LIVE + EXTRA_COVER.get(name, [])
        if not res.coverage:
            raise common.MachineryError("TLC %s: no coverage statistics parsed" % name)
        if res.coverage.get("MergeSame1", (0, 0))[1] != 0:
            raise common.MachineryError("TLC %s: the dead branch MergeSame1 was taken" % name)
    chk.add_tlc("%s %s" % (SPEC, name), res, require_cover=cover)
    if coverage and res.coverage:
        chk.notes["tlc_action_coverage_" + name.split()[0]] = dict((a, v[1]) for a, v in res.coverage.items())
    return res


def _parse_printed(res):
    recs, skipped = [], 0
    for s in res.printed:
        try:
            recs.append(json.loads(s))
        except ValueError:
            skipped += 1
    return recs, skipped


def handle_tlc_violation(R, chk, name, res):
    """a TLC invariant violation is a design-level counterexample: replay it before reporting"""
    ns, nf, thr, om0, omstep = CFG[name]
    frames = None
    for st in reversed(res.trace):
        if "frames" in st.get("vars", {}):
            frames = common.parse_tla(st["vars"]["frames"])
            break
    if not frames:
        raise common.MachineryError("TLC %s violated %r but the trace has no frames" % (name, res.violated))
    case = make_case(ns, nf, thr, om0, omstep, frames, "TLC counterexample %s %r" % (name, res.violated))
    out = io.StringIO()
    omega = omega_fn(om0, omstep)
    li = R.labelimage.labelimage((ns, nf), fileout=out, sptfile=io.StringIO())
    rows = []
    orig = li.outputpeaks
    li.outputpeaks = lambda p: (rows.extend(r[R.cols].tolist() for r in p if r[R.c.s_1] >= 0.1), orig(p))[1]
    for k in range(len(frames)):
        li.peaksearch(_frame_array(case, k, np.float64), thr, float(omega(k + 1)))
        li.mergelast()
    li.finalise()
    j = property_judge(case, rows)
    if j:
        chk.violation("TLC counterexample (%s) confirmed on the real code: %s" % (",".join(res.violated), j),
                      {"case": case, "route": "labelimage/property"})
    else:
        raise common.MachineryError("TLC %s: invariant %r violated by the model, but the real code satisfies the "
                                    "property on that frame sequence - the model is wrong:\n%s"
                                    % (name, res.violated, res.stdout[-3000:]))


def crosscheck_steps(recs, name):
    """every observable state printed by EmitStep must be what the transcription computes"""
    ns, nf, thr, om0, omstep = CFG[name]
    omega = omega_fn(om0, omstep)
    exp = {}
    for d in recs:
        if "npk" in d:
            exp[(tuple(map(tuple, d["fr"])), d["k"])] = d
    n = 0
    cache = {}
    for (frs, pc), d in sorted(exp.items(), key=lambda kv: (kv[0][0], kv[0][1])):
        if pc != "done":
            continue
        m = M.Model(ns, nf, thr, omega)
        for k, f in enumerate(frs):
            pre = frs[:k + 1]
            m.peaksearch(f)
            seq = [("searched", m.observable())]
            m.mergelast(stop_after_kernel=True)
            if m.pc == "output":
                seq.append(("output", m.observable()))
                m.finish_mergelast()
            seq.append(("idle", m.observable()))
            if pre in cache:
                continue
            cache[pre] = 1
            for pc2, o in seq:
                e = exp.get((pre, pc2))
                if e is None or e != o:
                    raise common.MachineryError("transcription and TLC disagree (%s) at %s of %r:\n%r\n%r"
                                                % (name, pc2, pre, o, e))
                n += 1
        m.finalise()
        o = m.observable()
        if o != d:
            raise common.MachineryError("transcription and TLC disagree (%s) at done of %r:\n%r\n%r" % (name, frs, o, d))
        n += 1
    if n != len(exp):
        raise common.MachineryError("EmitStep printed %d observable states, the transcription visited %d" % (len(exp), n))
    return n


def crosscheck_traces(files, name, limit):
    """every variable of every state of simulated behaviours == transcription"""
    ns, nf, thr, om0, omstep = CFG[name]
    omega = omega_fn(om0, omstep)
    nstates, behaviours, acts = 0, [], {}
    rename = {"PeaksearchPending": "Peaksearch", None: "Init", "FinaliseFull": "Finalise"}
    for f in files[:limit]:
        st = common.parse_sim_file(f)
        if not st:
            continue
        last = st[-1][1]
        tr = []
        m = M.Model(ns, nf, thr, omega, trace=tr)
        mine = [("Init", m.snapshot())]
        for fr in last["frames"]:
            m.peaksearch(fr)
            m.mergelast()
        if last["pc"] == "done":
            m.finalise()
        mine += tr
        theirs = [(rename.get(a, a), v) for (a, v) in st if a != "PickPixel"]
        if len(mine) != len(theirs):
            raise common.MachineryError("trace %s: %d model states, transcription %d" % (f, len(theirs), len(mine)))
        for (a1, v1), (a2, v2) in zip(mine, theirs):
            v2 = dict(v2)
            v2.pop("pend", None)
            if a1 != a2 or v1 != v2:
                diff = [k for k in v1 if v1[k] != v2.get(k)]
                raise common.MachineryError("trace %s: transcription and TLC differ after %s/%s in %r" % (f, a1, a2, diff))
            acts[a1] = acts.get(a1, 0) + 1
            nstates += 1
        if last["pc"] == "done":
            behaviours.append([list(fr) for fr in last["frames"]])
    return nstates, behaviours, acts


# ======================================================================================
# random long series (beyond TLC's scope)

def random_case(rng, idx):
    shape = [(16, 16), (16, 16), (8, 16), (5, 7), (12, 3)][idx % 5]
    ns, nf = shape
    nfr = rng.choice([1, 2, 3, 5, 8, 13, 21, 30, 40])
    om0, omstep = rng.choice([(0, 1), (10, 0.25), (-3, -0.5), (100, 2), (1.5, 0.125)])
    thr = rng.choice([0, 0, 1, 2.5, 4])
    dens = rng.choice([0.03, 0.08, 0.15, 0.3])
    nblob = rng.randrange(0, 6)
    blobs = [[rng.uniform(0, ns), rng.uniform(0, nf), rng.uniform(-0.7, 0.7), rng.uniform(-0.7, 0.7),
              rng.randrange(0, nfr), rng.randrange(1, 12), rng.uniform(0.8, 2.5)] for _ in range(nblob)]
    frames = []
    for k in range(nfr):
        if rng.random() < 0.08:
            frames.append([0] * (ns * nf))
            continue
        img = [0] * (ns * nf)
        for p in range(ns * nf):
            if rng.random() < dens:
                img[p] = rng.randrange(1, 10)
        for b in blobs:
            if b[4] <= k < b[4] + b[5]:
                cs, cf = b[0] + b[2] * (k - b[4]), b[1] + b[3] * (k - b[4])
                for s in range(ns):
                    for f in range(nf):
                        d2 = (s - cs) ** 2 + (f - cf) ** 2
                        if d2 < b[6] ** 2:
                            img[s * nf + f] = max(img[s * nf + f], 5 + int(9 - 3 * d2))
        frames.append(img)
    return make_case(ns, nf, thr, om0, omstep, frames, "random %d" % idx)


def handmade_cases():
    """the situations named in the property statement, by hand"""
    cs = []
    # two blobs on frame n joined only through frame n-1 (Stine West), with a third blob that must move down
    cs.append(make_case(1, 5, 0, 0, 1, [[1, 2, 3, 0, 0], [4, 0, 5, 0, 6], [0, 0, 7, 0, 0]], "stine-west"))
    # four blobs, pairs joined through the previous frame (copy of a non-root: assert empty)
    cs.append(make_case(1, 7, 0, 1, 1, [[1, 1, 1, 0, 1, 1, 1], [2, 0, 2, 0, 2, 0, 2], [0, 0, 0, 0, 0, 0, 1]], "two-pairs"))
    # fork and join
    cs.append(make_case(3, 3, 0, 5, -1, [[0, 0, 0, 1, 1, 1, 0, 0, 0], [1, 0, 1, 0, 0, 0, 1, 0, 1],
                                          [1, 0, 1, 1, 1, 1, 1, 0, 1], [0, 0, 0, 0, 3, 0, 0, 0, 0]], "fork-join"))
    # empty frames at the start, in the middle, at the end
    cs.append(make_case(2, 3, 0, 0, 1, [[0] * 6, [0, 1, 0, 0, 0, 0], [0] * 6, [0, 1, 0, 0, 0, 0], [0] * 6], "empties"))
    cs.append(make_case(2, 3, 0, 0, 1, [[0] * 6], "single-empty"))
    cs.append(make_case(2, 3, 0, 0, 1, [[3, 0, 0, 0, 0, 2]], "single"))
    # equal maxima on different frames (tie rule), sub-threshold pixels that must not be summed
    cs.append(make_case(2, 2, 1, 2, 1, [[3, 1, 1, 0], [3, 0, 1, 0], [1, 3, 0, 0]], "ties"))
    return cs


# ======================================================================================
# run

def _replay_set(R, chk, name, behaviours, tlc_out, routes, stats, file_every=0, limit_fail=30, kernels_every=1):
    """behaviours: list of frame lists (tuples).  tlc_out: dict frames -> out from TLC (or None)."""
    ns, nf, thr, om0, omstep = CFG[name]
    cache = StepCache(ns, nf, thr, omega_fn(om0, omstep))
    nfail = 0
    behaviours = sorted(behaviours)
    for n, frs in enumerate(behaviours):
        steps, final, m = cache.get(list(frs))
        if tlc_out is not None:
            want = tlc_out[frs]
            got = [[list(r), a, b, c] for (r, a, b, c) in m.out]
            if got != want:
                raise common.MachineryError("transcription and TLC disagree on `out` (%s) for %r:\n%r\n%r"
                                            % (name, frs, got, want))
        if m.bad:
            raise common.MachineryError("model run-time check %r failed for %r" % (m.bad, frs))
        case = make_case(ns, nf, thr, om0, omstep, frs, "TLC %s" % name)
        path = None
        if file_every and n % file_every == 0:
            path = os.path.join(common.scratch(), "merged_%s.flt" % name)
        rts = routes if n % kernels_every == 0 else tuple(r for r in routes if r != "kernels")
        bad = replay_behaviour(R, chk, case, steps, final, m, routes=rts, path=path, stats=stats)
        chk.traces += 1
        chk.case((name, frs), nontrivial=m.actions.get("MergeAcross", 0) > 0)
        if len(frs) >= 2 and m.actions.get("MergeAcross", 0) > 0 and m.actions.get("MergeSame2", 0) > 0:
            chk.sample({"scope": name, "frames": [list(f) for f in frs],
                        "emitted (s_1..bb_mn_o, onfirst, onlast, id)": [[list(r), a, b, c] for (r, a, b, c) in m.out]})
        if bad:
            report(chk, case, bad)
            nfail += 1
            if nfail >= limit_fail:
                break
    return nfail


def _exhaustive(R, chk, name, tier, stats, coverage, steps, routes=("labelimage", "kernels"), file_every=0,
                timeout=1500, kernels_every=1):
    res = _tlc(chk, name, tier, coverage=coverage, timeout=timeout)
    if res.violated:
        handle_tlc_violation(R, chk, name, res)
        return
    recs, skipped = _parse_printed(res)
    if skipped:
        res = _tlc(chk, name + " (workers=1)", tier, coverage=False, timeout=timeout, workers=1)
        recs, skipped = _parse_printed(res)
        if skipped:
            raise common.MachineryError("unparsable TLC output lines in %s" % name)
    if steps:
        chk.notes["observable_states_crosschecked_" + name] = crosscheck_steps(recs, name)
    tlc_out = {}
    for d in recs:
        if d["k"] == "done" and "npk" not in d:
            tlc_out[tuple(map(tuple, d["fr"]))] = d["out"]
    if not tlc_out:
        raise common.MachineryError("TLC %s emitted no behaviour" % name)
    _replay_set(R, chk, name, list(tlc_out), tlc_out, routes, stats, file_every=file_every,
                kernels_every=kernels_every)


def _simulated(R, chk, name, tier, stats, num, ntraces):
    prefix = os.path.join(common.scratch(), "sim_" + name)
    os.makedirs(prefix)
    res = _tlc(chk, name, tier, simulate=num, depth=400, dump=os.path.join(prefix, "t"), timeout=900,
               workers=min(WORKERS, 8))
    if res.violated:
        handle_tlc_violation(R, chk, name, res)
        return
    files = sorted(glob.glob(os.path.join(prefix, "t*")))
    nst, behaviours, acts = crosscheck_traces(files, name, ntraces)
    chk.notes["simulated_states_crosschecked_" + name] = nst
    recs, _ = _parse_printed(res)
    seen = set(tuple(map(tuple, b)) for b in behaviours)
    tlc_out = {}
    for d in recs:
        if d["k"] == "done":
            tlc_out[tuple(map(tuple, d["fr"]))] = d["out"]
    _replay_set(R, chk, name, list(tlc_out), tlc_out, ("labelimage", "kernels"), stats, file_every=25)
    return len(seen)


def _random_series(R, chk, shadow, tier, stats, count, nscript):
    rng = random.Random(common.seed() * 7919 + 12)
    cases = handmade_cases() + [random_case(rng, k) for k in range(count)]
    nfail = 0
    for n, case in enumerate(cases):
        steps, final, m = model_all(case)
        if m.bad:
            raise common.MachineryError("model run-time check %r failed for %s" % (m.bad, case["origin"]))
        j = M.judge_against_components([r for (r, _a, _b, _c) in m.out], case["frames"], case["ns"], case["nf"],
                                       case["thr"], omega_fn(case["om0"], case["omstep"]))
        if j:
            raise common.MachineryError("transcription violates the property on %s: %s" % (case["origin"], j))
        path = os.path.join(common.scratch(), "merged_random.flt")
        bad = replay_behaviour(R, chk, case, steps, final, m, path=path, stats=stats)
        # other input dtypes reach the same float32 conversion
        if not bad and n % 3 == 0:
            msg = guarded(route_labelimage, R, case, steps, final, m.out, dtype=[np.uint16, np.int32, np.float32][n % 9 // 3])
            if msg:
                bad.append(("labelimage(dtype)", msg))
        if not bad and n % 2 == 0:
            others = [dict(case, thr=t) for t in (0, 2, 5) if t != case["thr"]][:2]
            msg = guarded(route_peaksearcher, R, [case] + others)
            if msg:
                bad.append(("peaksearcher", msg))
        chk.traces += 1
        chk.case(("random", n, len(case["frames"])), nontrivial=m.actions.get("MergeAcross", 0) > 0)
        if bad:
            report(chk, case, bad)
            nfail += 1
            if nfail > 10:
                break
    # default OpenMP thread count (connectedpixels' relabel loop is parallel)
    old = 1
    try:
        R.c.cimaged11_omp_set_num_threads(4)
        for case in cases[:12]:
            steps, final, m = model_all(case)
            bad = replay_behaviour(R, chk, case, steps, final, m)
            chk.traces += 1
            if bad:
                report(chk, case, [("4 threads " + r, s) for r, s in bad])
    finally:
        R.c.cimaged11_omp_set_num_threads(old)
    # the command line script on an edf series
    pool = [c for c in cases if len(c["frames"]) >= 5 and float(c["thr"]).is_integer()]
    for k in range(nscript):
        case = pool[k % len(pool)]
        others = [dict(case, thr=t) for t in (0, 3) if t != case["thr"]][:1]
        msg = route_script(R, shadow, [case] + others, single_thread=(k % 2 == 0))
        chk.traces += 1
        if msg:
            report(chk, case, [("script", msg)])
    return len(cases)


def run_replay(R, chk, shadow, path):
    with open(path) as f:
        obj = json.load(f)
    case = obj["case"]["case"]
    steps, final, m = model_all(case)
    p = os.path.join(common.scratch(), "merged_replay.flt")
    bad = replay_behaviour(R, chk, case, steps, final, m, path=p)
    if not bad:
        msg = guarded(route_peaksearcher, R, [case])
        if msg:
            bad.append(("peaksearcher", msg))
    if not bad and "script" in obj["case"].get("route", "") and float(case["thr"]).is_integer():
        msg = route_script(R, shadow, [case], single_thread=True)
        if msg:
            bad.append(("script", msg))
    chk.traces += 1
    chk.case(("replay", path))
    if bad:
        # re-judged against the current tree: report under the replayed file (do not write a new one)
        print("  violation: %s: %s" % bad[0])
        chk.violations.append(("%s: %s" % bad[0], os.path.abspath(path)))
    else:
        print("replay %s: conforms to the model and satisfies the property on the current tree" % path)


def run(tier, replay=None):
    chk = common.Check(PROP, tier)
    shadow = common.build_shadow("normal")
    common.use_shadow(shadow)
    R = Real()
    old_threads = R.c.cimaged11_omp_get_max_threads()
    stats = {}
    try:
        # one OpenMP thread for the many tiny frames (16 spinning threads on 2x3 pixels are pure overhead);
        # a 4-thread pass is part of _random_series
        R.c.cimaged11_omp_set_num_threads(1)
        if replay:
            run_replay(R, chk, shadow, replay)
            chk.rule = "replay of one saved behaviour"
            chk.exhaustive = False
            return chk.finish()
        if tier == "quick":
            _exhaustive(R, chk, "2x3_f2", tier, stats, coverage=True, steps=True, file_every=50)
            _exhaustive(R, chk, "1x5_f2", tier, stats, coverage=False, steps=True, file_every=50)
            _exhaustive(R, chk, "2x2_thr1_q", tier, stats, coverage=False, steps=True, file_every=100)
            _simulated(R, chk, "sim_3x3", tier, stats, num=30, ntraces=120)
            _random_series(R, chk, shadow, tier, stats, count=40, nscript=1)
            chk.exhaustive = False
        else:
            _exhaustive(R, chk, "2x3_f2", tier, stats, coverage=True, steps=True, file_every=50)
            _exhaustive(R, chk, "1x5_f2", tier, stats, coverage=True, steps=True, file_every=50)
            _exhaustive(R, chk, "2x2_thr1_q", tier, stats, coverage=False, steps=True, file_every=100)
            _exhaustive(R, chk, "1x7_f2", tier, stats, coverage=True, steps=False, file_every=500)
            _exhaustive(R, chk, "2x2_thr1_f2", tier, stats, coverage=False, steps=False, file_every=2000)
            _exhaustive(R, chk, "1x5_f3", tier, stats, coverage=False, steps=False, file_every=1000)
            _exhaustive(R, chk, "2x3_f3", tier, stats, coverage=False, steps=False, file_every=5000, timeout=2400,
                        kernels_every=4)     # every behaviour through labelimage, every 4th also through the bare kernels
            _simulated(R, chk, "sim_3x3", tier, stats, num=150, ntraces=400)
            _simulated(R, chk, "sim_4x4", tier, stats, num=100, ntraces=200)
            _random_series(R, chk, shadow, tier, stats, count=300, nscript=2)
            chk.exhaustive = False      # exhaustive on the small scopes, sampled beyond them
            selftest(R)
        for a in LIVE + ["CopyMoved"] + (["CopyCheckEmpty"] if tier == "thorough" else []):
            if not stats.get(a):
                raise common.MachineryError("vacuity: action %s never exercised by a replayed behaviour" % a)
        chk.notes["actions_in_replayed_behaviours"] = stats
        chk.notes["api_routes"] = ["labelimage.peaksearch/mergelast/finalise + outputpeaks rows + merged file text",
                                   "cImageD11.connectedpixels/blobproperties/bloboverlaps/blob_moments",
                                   "columnfile(merged file)", "peaksearcher.peaksearch (several thresholds)",
                                   "scripts/peaksearch.py on a fabio edf series"]
        chk.notes["tolerances"] = "raw sums exact; moments 1e-9 rel + 1e-12; text columns 0.5e-4 (the %.4f format)"
        chk.assumptions = ["connectedpixels' label numbering is stated declaratively (components by first raster "
                           "pixel) and checked against the kernel at every replayed frame; its scan is C11's",
                           "omega values are exactly representable in float32 (integers / dyadic steps)"]
        chk.rule = ("behaviours = all frame sequences of the TLC scopes (2x3/1x5/1x7/2x2 exhaustive, 3x3/4x4 "
                    "simulated) + hand-made + seeded random series up to 40 frames of 16x16; non-trivial = at "
                    "least one peak merged across frames")
        return chk.finish()
    finally:
        R.c.cimaged11_omp_set_num_threads(old_threads)


# ======================================================================================
# self-test of the binding

def selftest(R=None):
    if R is None:
        shadow = common.build_shadow("normal")
        common.use_shadow(shadow)
        R = Real()
    case = handmade_cases()[0]
    steps, final, m = model_all(case)
    if route_labelimage(R, case, steps, final, m.out) or route_kernels(R, case, steps, final, m.out):
        raise common.MachineryError("selftest: the reference case does not pass on this tree (run the check first)")

    def must_reject(what, fn):
        if fn() is None:
            raise common.MachineryError("selftest: %s was not rejected" % what)

    import copy
    # 1. one raw sum of the state after peaksearch
    s2 = copy.deepcopy(steps)
    s2[1][0]["res"][0, M.FI_] += 1
    must_reject("perturbed s_fI after peaksearch", lambda: route_labelimage(R, case, s2, final, m.out))
    must_reject("perturbed s_fI after blobproperties", lambda: route_kernels(R, case, s2, final, m.out))
    # 2. one label of the relabelled current frame
    s3 = copy.deepcopy(steps)
    s3[1][2]["lastbl"][2] += 1
    must_reject("perturbed relabelled pixel", lambda: route_labelimage(R, case, s3, final, m.out))
    s3 = copy.deepcopy(steps)
    s3[1][1]["blim"][2] += 1
    must_reject("perturbed label after bloboverlaps", lambda: route_kernels(R, case, s3, final, m.out))
    # 3. a zeroed (merged away) row of lastres
    s4 = copy.deepcopy(steps)
    s4[1][1]["lastres"][0, M.N_] = 3
    must_reject("perturbed zeroed row", lambda: route_labelimage(R, case, s4, final, m.out))
    must_reject("perturbed zeroed row (kernels)", lambda: route_kernels(R, case, s4, final, m.out))
    # 4. emitted rows: bounding box, max position, flag, id
    for idx, nm in ((M.BXO_, "bb_mx_o"), (M.MXF_, "mx_I_f"), (M.OOI_, "s_ooI")):
        o2 = [(list(r), a, b, c) for (r, a, b, c) in m.out]
        o2[0][0][idx] += 1
        if nm == "s_ooI":
            must_reject("perturbed " + nm, lambda: check_text(R, _text_of(R, case, steps, final, m), o2))
            must_reject("perturbed " + nm + " (kernels)", lambda: route_kernels(R, case, steps, final, o2))
        else:
            must_reject("perturbed " + nm, lambda: route_labelimage(R, case, steps, final, o2))
    o2 = [(list(r), a, 1 - b, c) for (r, a, b, c) in m.out]
    must_reject("perturbed onlast", lambda: route_labelimage(R, case, steps, final, o2))
    # 5. moments
    s5 = copy.deepcopy(steps)
    s5[-1][2]["lastres_exact"][0][M.SSI_] += 1
    must_reject("perturbed exact sum under compute_moments", lambda: route_labelimage(R, case, s5, final, m.out))
    # 6. the property judge
    rows = [list(r) for (r, _a, _b, _c) in m.out]
    if property_judge(case, rows) is not None:
        raise common.MachineryError("selftest: judge rejects the correct rows")
    must_reject("a peak split in two", lambda: property_judge(case, rows + [rows[0]]))
    r2 = [list(r) for r in rows]
    r2[0][M.I_] += 1
    must_reject("intensity not conserved", lambda: property_judge(case, r2))
    r2 = [list(r) for r in rows]
    r2[0][M.MXS_] += 1
    must_reject("max position outside the component", lambda: property_judge(case, r2))
    must_reject("a lost peak", lambda: property_judge(case, rows[1:]))
    # 7. transcription vs TLC: a perturbed TLC record must be noticed
    res = common.run_tlc(SPEC, "%s_1x5_f2.cfg" % SPEC, workers=4, timeout=600)
    recs, _ = _parse_printed(res)
    for d in recs:
        if "npk" in d and d["k"] == "idle" and d["lastres"]:
            d["lastres"][0][3] += 1
            break
    try:
        crosscheck_steps(recs, "1x5_f2")
    except common.MachineryError:
        pass
    else:
        raise common.MachineryError("selftest: perturbed TLC observable state was not noticed by the cross-check")
    return True


def _text_of(R, case, steps, final, m):
    out = io.StringIO()
    omega = omega_fn(case["om0"], case["omstep"])
    li = R.labelimage.labelimage((case["ns"], case["nf"]), fileout=out, sptfile=io.StringIO())
    for k in range(len(case["frames"])):
        li.peaksearch(_frame_array(case, k, np.float64), case["thr"], float(omega(k + 1)))
        li.mergelast()
    li.finalise()
    return out.getvalue()

"""C12 - peak properties and frame-to-frame merging conserve pixels and intensity.

Specification : specs/Merge3D.tla (model of labelimage.peaksearch/mergelast/finalise, blobproperties,
                bloboverlaps, add_pixel/merge; invariants against an independent 3-D component definition)
Binding       : mode B.  Every behaviour (frame sequence) TLC enumerates / simulates is replayed through
                a real labelimage.labelimage and through the bare kernels; after every call the real
                state is compared with the model state.  Longer random series are judged by
                harness/c12_model.py (a transcription of the spec that this check first cross-checks
                against TLC: every observable state of the small scopes, every `out`, and every
                variable of every state of the simulated behaviours) and by an independent 3-D
                flood fill.
Scopes of the specification bound here: 2x3 / 1x5 / 1x7 / 2x2 exhaustive, 3x3 / 4x4 simulated, 1x3 (quick: 1x2)
x 4 frames at omega 0,2,2,1 (non-monotonic, zero step), 1x3 (quick: 1x2) x 2 frames over -2..1 at threshold -2 (negthr*: the strict
property is violated by the MAXFIX = FALSE model; the counterexample is replayed -> known finding
C12-max-pixel-nonpositive-blob or a violation; on a tree that follows the repaired rule the MAXFIX = TRUE
model is bound instead); 2x3 x 2 frames over {2, NaN} and 2x3 x 1 frame over {0, 2, NaN} at threshold 1 (thorough
also 1x5 x 3 frames over {2, NaN}): not-a-number pixels, which the spec's Above() makes background (NaN > t is
false for every t) - every behaviour replayed with float nan in the frames.
Instance families outside the model's constants (covariance argument in the header of Merge3D.tla), judged by
the transcription on exact rationals of the float32 inputs and by the flood fill: uint16 to 65535, int32 to
2^20, float32 k/8, int32 beyond 2^24 (rounded to float32; I^2 sums within a rounding bound), negative
background, negative threshold on positive data, shapes 33x20 .. 40x1 / 1x40, 64x2048 and 2048x64, omega with
zero step / non-monotonic / not float32-representable (expectation narrowed like the f2py wrapper does; omega
sums within a rounding bound), float32 / float64 frames with NaN pixels (dead pixel on every frame, between two
blobs, under / over a blob of the adjacent frame, holes, borders and corners, 5 % sprinkle; the classes are
counted in notes.nan_pixels).  The SIZE family (harness/c12_big.py; notes.large_frames): frames with >= 16384 and
>= 32768 blobs / provisional labels (isolated pixels on 258..400 squares, teeth joined by bars, checkerboards,
noise on 600x600), two or three frames with merges between them, through labelimage and judged by the property
alone (scipy.ndimage.label on the stacked volume: number of peaks, total pixels / intensity, multiset of rows,
maximum positions; per frame npk, the partition in blim, the sums in res).  Further routes: output2dpeaks between peaksearch and mergelast and the .spt
streams of peaksearcher.peaksearch / scripts/peaksearch.py (2-D peaks = the model's `res` after Peaksearch,
frame records), measurepeaks(blim=labels made by the caller), flip1..8 and a non-trivial spatial corrector
(dety/detz/sc/fc columns against an own table), the threaded script pipeline with --start/--step.
A one column image (nf = 1) is labelled wrongly by connectedpixels (row i is joined to row i-2): known finding
C12-one-column-image-labels or a violation.  finalise() twice, re-use of a finalised object and peaksearch()
twice without mergelast() are outside the statement: recorded under notes["observations"], never judged.
"""
from __future__ import print_function
import os, sys, io, json, glob, time, random, subprocess
from fractions import Fraction

import numpy as np

import common
import c12_model as M
import c12_big as BIG3D

PROP = "C12"
SPEC = "Merge3D"
LIVE = ["Peaksearch", "MergeFirst", "EnterOverlaps", "SkipOverlaps", "Overlap", "MergeAcross", "MergeSame2",
        "CompressT", "Relabel", "Output", "Swap", "Finalise"]
WORKERS = int(os.environ.get("VERIF_TLC_WORKERS", "16"))
MOMENT_NAMES = ["avg_i", "f_raw", "s_raw", "o_raw", "m_ss", "m_ff", "m_oo", "m_sf", "m_so", "m_fo"]


# ======================================================================================
# cases

def omega_fn(om0, omstep):
    if float(om0).is_integer() and float(omstep).is_integer():
        a, b = int(om0), int(omstep)
    else:
        a, b = Fraction(om0), Fraction(omstep)          # exact for dyadic floats
    return lambda k: a + (k - 1) * b


NANI = 1000         # Merge3D.tla NaN: the integer that stands for a not-a-number pixel in TLC's frames
NAN = float("nan")


def _dec(frames):
    """TLC's frames -> the frames handed to the code / the transcription: NaN pixels become float nan (nan > thr is
    False in the transcription and in the flood fill as it is in C: background by the comparison itself)"""
    return [[NAN if v == NANI else v for v in f] for f in frames]


def _pix(v):
    v = float(v) if not isinstance(v, int) else v
    return int(v) if float(v).is_integer() else v


def make_case(ns, nf, thr, om0, omstep, frames, origin="", **extra):
    """frames: the pixel values handed to the code (ints, or floats for fractional values).
    extra: omegas = explicit list of the angles handed to the code (else om0 + k*omstep),
           dtype  = numpy dtype name of the arrays handed to labelimage.peaksearch,
           approx = True when some sums are not exactly representable in a double,
           maxfix / asis = which max-pixel rule the expectation follows (negative thresholds),
           family = name of the instance family (vacuity counts)"""
    c = {"ns": ns, "nf": nf, "thr": thr, "om0": om0, "omstep": omstep,
         "frames": [[_pix(v) for v in f] for f in frames], "origin": origin}
    c.update(extra)
    return c


def narrow(x):
    """exact value of the float32 the f2py wrappers / astype(float32) make of x"""
    return M.exact(float(np.float32(x)))


def api_omega(case, k):
    """the python float handed to peaksearch for frame k (0-based)"""
    if case.get("omegas") is not None:
        return float(case["omegas"][k])
    return float(omega_fn(case["om0"], case["omstep"])(k + 1))


def omega_of(case):
    """exact omega of frame k = 1, 2, ... as the kernels see it (`real omega`: float32)"""
    if case.get("omegas") is None:
        return omega_fn(case["om0"], case["omstep"])     # integers / dyadic: float32-exact
    vals = [narrow(o) for o in case["omegas"]]
    return lambda k: vals[k - 1]


def model_frames(case):
    """the frames as the kernels see them: every pixel rounded to float32, exactly"""
    out = []
    for f in case["frames"]:
        if all(isinstance(v, int) and -(1 << 24) <= v <= (1 << 24) for v in f):
            out.append(f)
        else:
            a = np.array(f, dtype=np.float64).astype(np.float32).astype(np.float64).tolist()
            out.append([M.exact(v) for v in a])
    return out


def model_thr(case):
    t = float(np.float32(case["thr"]))          # `real threshold` in connectedpixels
    return int(t) if t.is_integer() else t


# static configurations: name -> ns, nf, thr, om0, omstep (+ omseq, maxfix, asis)
class _cfg(tuple):
    """(ns, nf, thr, om0, omstep) - harness/c20_driver.py unpacks it like that - with named access and the
    optional constants omseq / maxfix / asis"""
    NAMES = ("ns", "nf", "thr", "om0", "omstep")

    def __new__(cls, ns, nf, thr, om0, omstep, **kw):
        t = tuple.__new__(cls, (ns, nf, thr, om0, omstep))
        t.extra = {"omseq": None, "maxfix": False, "asis": False, "nan": False}
        t.extra.update(kw)
        return t

    def __getitem__(self, k):
        if isinstance(k, str):
            return tuple.__getitem__(self, self.NAMES.index(k)) if k in self.NAMES else self.extra[k]
        return tuple.__getitem__(self, k)


CFG = {
    "2x3_f2": _cfg(2, 3, 0, 1, 1), "2x3_f3": _cfg(2, 3, 0, 1, 1),
    "1x5_f2": _cfg(1, 5, 0, 3, 2), "1x5_f3": _cfg(1, 5, 0, 3, 2), "1x7_f2": _cfg(1, 7, 0, 0, 1),
    "2x2_thr1_q": _cfg(2, 2, 1, 5, -2), "2x2_thr1_f2": _cfg(2, 2, 1, 5, -2),
    "sim_3x3": _cfg(3, 3, 2, 2, 1), "sim_4x4": _cfg(4, 4, 2, -1, 1),
    "1x3_f4_om": _cfg(1, 3, 0, 0, 1, omseq=[0, 2, 2, 1]),
    "1x2_f4_om": _cfg(1, 2, 0, 0, 1, omseq=[0, 2, 2, 1]),
    "negthr": _cfg(1, 3, -2, 0, 1), "negthr_asis": _cfg(1, 3, -2, 0, 1, asis=True),
    "negthr_fix": _cfg(1, 3, -2, 0, 1, maxfix=True),
    "negthr_q": _cfg(1, 2, -2, 0, 1), "negthr_asis_q": _cfg(1, 2, -2, 0, 1, asis=True),
    "negthr_fix_q": _cfg(1, 2, -2, 0, 1, maxfix=True),
    "nan_2x3_f2": _cfg(2, 3, 1, 1, 1, nan=True), "nan_2x3_f1": _cfg(2, 3, 1, 1, 1, nan=True),
    "nan_1x5_f3": _cfg(1, 5, 1, 1, 1, nan=True),
}
FINDING_MAX = "C12-max-pixel-nonpositive-blob"
FINDING_COL = "C12-one-column-image-labels"


def cfg_omega(name):
    g = CFG[name]
    if g["omseq"]:
        return lambda k: g["omseq"][k - 1]
    return omega_fn(g["om0"], g["omstep"])


def cfg_case(name, frames, origin):
    g = CFG[name]
    extra = {}
    if g["omseq"]:
        extra["omegas"] = list(g["omseq"][:len(frames)])
    if g["maxfix"]:
        extra["maxfix"] = True
    if g["asis"]:
        extra["asis"] = True
    if g["nan"]:
        frames = _dec(frames)
        extra["dtype"] = "float32"
        extra["family"] = "NaN pixels (TLC scope)"
    return make_case(g["ns"], g["nf"], g["thr"], g["om0"], g["omstep"], frames, origin, **extra)


# ======================================================================================
# expectations from the model

def _rowsarr(rows):
    if not rows:
        return np.zeros((0, M.NROW))
    return np.array([[float(x) for x in r] for r in rows], dtype=float).reshape(-1, M.NROW)


def snap(m):
    return {"pc": m.pc, "npk": m.npk, "blim": np.array(m.blim, np.int32), "res": _rowsarr(m.res),
            "lastnp": m.lastnp, "lastbl": np.array(m.lastbl, np.int32), "lastres": _rowsarr(m.lastres),
            "lastres_exact": [list(r) for r in m.lastres], "res_exact": [list(r) for r in m.res],
            "nout": len(m.out), "onfirst": m.onfirst, "onlast": m.onlast, "spot": m.spot,
            "called": m.kernel_called}


def model_step(m, frame):
    """advance the model by one peaksearch + mergelast; returns (searched, output-or-None, idle)"""
    m.peaksearch(frame)
    es = snap(m)
    m.mergelast(stop_after_kernel=True)
    eo = None
    if m.pc == "output":
        eo = snap(m)
        m.finish_mergelast()
    return (es, eo, snap(m))


class StepCache(object):
    """model expectations for behaviours that share prefixes (behaviours come sorted)"""

    def __init__(self, ns, nf, thr, omega, maxfix=False, nan=False):
        self.args = (ns, nf, thr, omega, None, maxfix)
        self.stack = []
        self.nan = nan

    def get(self, frames):
        d = 0
        while d < len(self.stack) and d < len(frames) and self.stack[d][0] == frames[d]:
            d += 1
        del self.stack[d:]
        m = self.stack[-1][1].clone() if self.stack else M.Model(*self.args)
        for f in frames[d:]:
            st = model_step(m, _dec([f])[0] if self.nan else f)
            self.stack.append((f, m.clone(), st))
        steps = [s[2] for s in self.stack]
        m.finalise()
        return steps, snap(m), m


def new_model(case):
    return M.Model(case["ns"], case["nf"], model_thr(case), omega_of(case), maxfix=bool(case.get("maxfix")))


def model_all(case):
    m = new_model(case)
    steps = [model_step(m, f) for f in model_frames(case)]
    m.finalise()
    return steps, snap(m), m


# ======================================================================================
# the real code

class Real(object):
    def __init__(self):
        from ImageD11 import cImageD11, labelimage, blobcorrector
        self.c = cImageD11
        self.labelimage = labelimage
        self.blobcorrector = blobcorrector
        self.cols = np.array([getattr(cImageD11, n) for n in M.CNAMES])        # blobs.h enum -> column
        self.mcols = dict((n, getattr(cImageD11, n)) for n in MOMENT_NAMES)
        self.nprop = cImageD11.NPROPERTY
        titles = labelimage.labelimage.titles.replace("#", "").split()
        self.tcol = dict((t, k) for k, t in enumerate(titles))
        self.ntitles = len(titles)
        self._mom = {}

    def raw(self, arr):
        if arr is None:
            return np.zeros((0, M.NROW))
        return np.asarray(arr)[:, self.cols]

    def moments(self, row):
        key = tuple(row[:12])
        v = self._mom.get(key)
        if v is None:
            v = M.exact_moments(row)
            self._mom[key] = v
        return v


def _close(x, e, scale=1.0, extra=0.0):
    return abs(x - e) <= 1e-9 * max(scale, abs(e), 1.0) + 1e-12 + extra


class Ctx(object):
    """what the comparisons need to know about a case: shape, largest |omega|, exact / bounded sums"""

    def __init__(self, case):
        self.ns, self.nf = case["ns"], case["nf"]
        self.approx = bool(case.get("approx"))
        om = omega_of(case)
        self.omax = max([abs(float(om(k + 1))) for k in range(len(case["frames"]))] + [1.0])
        # cancellation in ts - us*us etc.: the quotients carry a relative error of a few 1e-16 of
        # coordinate^2, which is no longer below 1e-9 for coordinates in the thousands
        c = {"s": float(self.ns), "f": float(self.nf), "o": self.omax}
        k = 2e-14
        self.mom_extra = {"avg_i": 0.0, "f_raw": k * c["f"], "s_raw": k * c["s"], "o_raw": k * c["o"],
                          "m_ss": k * c["s"] ** 2, "m_ff": k * c["f"] ** 2, "m_oo": k * c["o"] ** 2,
                          "m_sf": k * c["s"] * c["f"], "m_so": k * c["s"] * c["o"], "m_fo": k * c["f"] * c["o"]}

    def tol(self, exact_rows):
        """per element tolerance for rows compared with the exact model rows (None = exact)"""
        if not self.approx:
            return None
        t = np.zeros((len(exact_rows), M.NROW))
        idx = {"I2": M.I2_, "oI": M.OI_, "ooI": M.OOI_, "soI": M.SOI_, "foI": M.FOI_}
        for j, r in enumerate(exact_rows):
            d = M.approx_tolerances(r[M.N_], r[M.I_], r[M.I2_], self.omax, self.ns, self.nf)
            for n, col in idx.items():
                t[j, col] = float(d[n])
        return t


def _rows_same(a, e, tol):
    if a.shape != e.shape:
        return False
    if tol is None:
        return bool(np.array_equal(a, e))
    return bool(np.all(np.abs(a - e) <= tol))


def check_moments(R, arr, exact_rows, ctx=None):
    """arr: real rows after blob_moments; exact_rows: the model rows (exact sums).  None / message"""
    for k, r in enumerate(exact_rows):
        if r[M.N_] < 1:
            continue
        ex = R.moments(r)
        if ex is None:
            continue                 # summed intensity 0: centroid undefined, not judged
        for name in MOMENT_NAMES:
            x = float(arr[k, R.mcols[name]])
            if not _close(x, float(ex[name]), extra=ctx.mom_extra[name] if ctx else 0.0):
                return "compute_moments: row %d %s = %.12g, exact %.12g (sums %r)" % (k, name, x, float(ex[name]), r[:12])
    return None


# labelimage.flip1..8 "fast, slow to dety, detz" (SAXS raster orientations), written down independently
FLIPS = {1: lambda f, s: (f, s), 2: lambda f, s: (-f, s), 3: lambda f, s: (f, -s), 4: lambda f, s: (-f, -s),
         5: lambda f, s: (s, f), 6: lambda f, s: (s, -f), 7: lambda f, s: (-s, f), 8: lambda f, s: (-s, -f)}


class Affine(object):
    """a stand-in for a spatial correction (labelimage only calls .correct(s_raw, f_raw))"""
    splinefile, xsize, ysize = "AFFINE_TEST", 1, 1
    A = (Fraction(5, 4), Fraction(-1, 8), Fraction(3, 2), Fraction(1, 4), Fraction(3, 4), Fraction(-2))

    def correct(self, s, f):
        a = [float(x) for x in self.A]
        return a[0] * s + a[1] * f + a[2], a[3] * s + a[4] * f + a[5]

    @classmethod
    def exact(cls, s, f):
        a = cls.A
        return a[0] * s + a[1] * f + a[2], a[3] * s + a[4] * f + a[5]


def expected_text(R, row, onfirst, onlast, spot, flip=2, affine=False):
    """columns of one .flt line from a model row: exact values dict (a value None is not judged)"""
    ex = R.moments(row)
    d = {"Number_of_pixels": row[M.N_], "sum_intensity": row[M.I_], "sum_intensity^2": row[M.I2_],
         "IMax_int": row[M.MXI_], "IMax_s": row[M.MXS_], "IMax_f": row[M.MXF_], "IMax_o": row[M.MXO_],
         "Min_s": row[M.BNS_], "Max_s": row[M.BXS_], "Min_f": row[M.BNF_], "Max_f": row[M.BXF_],
         "Min_o": row[M.BNO_], "Max_o": row[M.BXO_],
         "onfirst": onfirst, "onlast": onlast, "spot3d_id": spot}
    if ex is not None:
        sc, fc = Affine.exact(ex["s_raw"], ex["f_raw"]) if affine else (ex["s_raw"], ex["f_raw"])
        dy, dz = FLIPS[flip](ex["f_raw"], ex["s_raw"])
        d.update({"sc": sc, "fc": fc, "omega": ex["o_raw"], "avg_intensity": ex["avg_i"],
                  "s_raw": ex["s_raw"], "f_raw": ex["f_raw"],
                  "sigs": ex["m_ss"], "sigf": ex["m_ff"], "covsf": ex["m_sf"], "sigo": ex["m_oo"],
                  "covso": ex["m_so"], "covfo": ex["m_fo"], "dety": dy, "detz": dz})
    return d


def check_text(R, text, mout, flip=2, affine=False):
    """text of the merged-peaks file vs the model's emitted rows"""
    lines = [l for l in text.splitlines() if l.strip() and not l.startswith("#")]
    if len(lines) != len(mout):
        return "output file has %d peaks, model emitted %d" % (len(lines), len(mout))
    for l, (row, of, ol, sid) in zip(lines, mout):
        tok = l.split()
        if len(tok) != R.ntitles:
            return "output line has %d columns, titles %d" % (len(tok), R.ntitles)
        exp = expected_text(R, row, of, ol, sid, flip, affine)
        for name, e in exp.items():
            x = float(tok[R.tcol[name]])
            if not abs(x - float(e)) <= 0.5001e-4 + 1e-9 * abs(float(e)):
                return "output file: peak %d column %s = %r, expected %.6f" % (sid, name, tok[R.tcol[name]], float(e))
    return None


# ---- the 2-D peaks (.spt): labelimage.output2dpeaks, written before mergelast

def expected_2d(R, row, affine=False):
    """Number_of_pixels Average_counts s f sc fc sig_s sig_f cov_sf IMax_int of one row of `res`"""
    ex = R.moments(row)
    if ex is None:
        return [row[M.N_]] + [None] * 8 + [row[M.MXI_]]
    sc, fc = Affine.exact(ex["s_raw"], ex["f_raw"]) if affine else (ex["s_raw"], ex["f_raw"])
    return [row[M.N_], ex["avg_i"], ex["s_raw"], ex["f_raw"], sc, fc, ex["m_ss"], ex["m_ff"], ex["m_sf"], row[M.MXI_]]


def check_2d_rows(R, got, exact_rows, affine=False):
    """got: parsed data lines of one output2dpeaks block; exact_rows: the model's `res` after Peaksearch"""
    if len(got) != len(exact_rows):
        return "%d 2-D peaks written, model has %d blobs on the frame" % (len(got), len(exact_rows))
    for k, (g, r) in enumerate(zip(got, exact_rows)):
        e = expected_2d(R, r, affine)
        if len(g) != len(e):
            return "2-D peak line has %d columns, expected %d" % (len(g), len(e))
        for c, (x, v) in enumerate(zip(g, e)):
            if v is not None and not abs(x - float(v)) <= 0.5001e-6 + 1e-9 * abs(float(v)):
                return "2-D peak %d column %d = %r, expected %.7f" % (k, c, x, float(v))
    return None


def parse_2d_block(text):
    """one output2dpeaks() call -> (threshold level, [rows])"""
    lev, rows = None, []
    for l in text.splitlines():
        if l.startswith("# Threshold level"):
            lev = float(l.split()[-1])
        elif l.strip() and not l.startswith("#"):
            rows.append([float(t) for t in l.split()])
    return lev, rows


def parse_spt(text):
    """the .spt stream of peaksearcher.peaksearch: list of frames {"file", "blocks": [{"omega", "thr",
    "npks", "level", "rows"}]} (one block per threshold searched into this stream)"""
    frames, cur, blk, last_om = [], None, None, None
    for l in text.splitlines():
        if l.startswith("# File "):
            cur = {"file": l[7:].strip(), "blocks": []}
            frames.append(cur)
            blk = None
        elif cur is None:
            continue
        elif l.startswith("# Omega = "):
            try:
                last_om = float(l[10:])
            except ValueError:
                pass
        elif l.startswith("# Threshold = "):
            blk = {"omega": last_om, "thr": float(l[14:]), "npks": None, "level": None, "rows": []}
            cur["blocks"].append(blk)
        elif l.startswith("# npks = ") and blk is not None:
            blk["npks"] = int(l[9:])
        elif l.startswith("# Threshold level") and blk is not None:
            blk["level"] = float(l.split()[-1])
        elif l.strip() and not l.startswith("#") and blk is not None:
            blk["rows"].append([float(t) for t in l.split()])
    return frames


def check_spt(R, text, case, steps, what):
    """every frame of the series has one block in the stream of its threshold: omega, threshold, number
    of blobs and the 2-D peaks of that frame (the model's `res` after Peaksearch, in label order)"""
    fr = parse_spt(text)
    if len(fr) != len(steps):
        return "%s: %d frames in the .spt stream, %d searched" % (what, len(fr), len(steps))
    for k, (f, (es, _eo, _ei)) in enumerate(zip(fr, steps)):
        mine = [b for b in f["blocks"] if b["thr"] == float(case["thr"])]
        if len(mine) != 1:
            return "%s frame %d: %d blocks for threshold %g" % (what, k, len(mine), case["thr"])
        b = mine[0]
        if b["omega"] is None or abs(b["omega"] - api_omega(case, k)) > 0.5001e-6:
            return "%s frame %d: '# Omega = %r', searched at %r" % (what, k, b["omega"], api_omega(case, k))
        if b["npks"] != es["npk"]:
            return "%s frame %d: '# npks = %r', the frame has %d blobs" % (what, k, b["npks"], es["npk"])
        if es["npk"] > 0 and b["level"] != float(case["thr"]):
            return "%s frame %d: '# Threshold level %r'" % (what, k, b["level"])
        msg = check_2d_rows(R, b["rows"], es["res_exact"])
        if msg:
            return "%s frame %d: %s" % (what, k, msg)
    return None


def _cmp_state(R, what, npk, blim, res, e, with_res=True, ctx=None):
    if int(npk) != e["npk"]:
        return "%s: npk = %r, model %d" % (what, npk, e["npk"])
    if not np.array_equal(np.asarray(blim).ravel(), e["blim"]):
        return "%s: blim = %r, model %r" % (what, _short(np.asarray(blim).ravel()), _short(e["blim"]))
    if with_res:
        a = R.raw(res)
        if not _rows_same(a, e["res"], ctx.tol(e["res_exact"]) if ctx else None):
            return "%s: res[:, s_1..bb_mn_o] = %r, model %r" % (what, a.tolist(), e["res"].tolist())
    return None


def _short(a):
    a = np.asarray(a)
    return a.tolist() if a.size <= 64 else "<%d labels, %d non-zero>" % (a.size, int((a != 0).sum()))


def _cmp_last(R, what, lastnp, lastbl, lastres, e, ctx=None):
    if lastnp == "FIRST" or int(lastnp) != e["lastnp"]:
        return "%s: lastnp = %r, model %d" % (what, lastnp, e["lastnp"])
    if not np.array_equal(np.asarray(lastbl).ravel(), e["lastbl"]):
        return "%s: lastbl = %r, model %r" % (what, _short(np.asarray(lastbl).ravel()), _short(e["lastbl"]))
    a = R.raw(lastres)
    if not _rows_same(a, e["lastres"], ctx.tol(e["lastres_exact"]) if ctx else None):
        return "%s: lastres[:, s_1..bb_mn_o] = %r, model %r" % (what, a.tolist(), e["lastres"].tolist())
    return None


def _frame_array(case, k, dtype):
    return np.array(case["frames"][k], dtype=dtype).reshape(case["ns"], case["nf"])


def _dtype_of(case, dtype):
    return np.dtype(dtype if dtype is not None else case.get("dtype", "float64"))


def route_labelimage(R, case, steps, final, mout, path=None, dtype=None, collect=None,
                     flip=None, affine=False, with2d=False, measure=False, stats=None):
    """real labelimage object: peaksearch / mergelast / finalise, output parsed back.
    Returns None or the first divergence.  collect (list) receives the emitted raw rows.
    flip = 1..8: labelimage(flipper=flipN); affine: a non-trivial spatial corrector;
    with2d: output2dpeaks() between peaksearch and mergelast (as peaksearcher.peaksearch does), its
    block judged; measure: labels made by the caller and handed over as measurepeaks(blim=...)."""
    ctx = Ctx(case)
    dtype = _dtype_of(case, dtype)
    out = open(path, "w") if path else io.StringIO()
    try:
        kw = {}
        if flip is not None:
            kw["flipper"] = getattr(R.labelimage, "flip%d" % flip)
        if affine:
            kw["spatial"] = Affine()
        li = R.labelimage.labelimage((case["ns"], case["nf"]), fileout=out, sptfile=io.StringIO(), **kw)
        captured = []
        orig = li.outputpeaks

        def capture(peaks):
            captured.append(np.array(peaks, copy=True))
            return orig(peaks)
        li.outputpeaks = capture
        for k, (es, eo, ei) in enumerate(steps):
            if measure:
                d = _frame_array(case, k, dtype).astype(np.float32)
                own = np.zeros((case["ns"], case["nf"]), np.int32)
                R.c.connectedpixels(d, own, case["thr"], 0)
                li.threshold = case["thr"]
                li.measurepeaks(d, api_omega(case, k), blim=own)
            else:
                li.peaksearch(_frame_array(case, k, dtype), case["thr"], api_omega(case, k))
            msg = _cmp_state(R, "frame %d after peaksearch" % k, li.npk, li.blim, li.res, es, ctx=ctx)
            if msg:
                return msg
            if with2d and li.npk > 0:
                f2 = io.StringIO()
                li.output2dpeaks(f2)
                lev, got = parse_2d_block(f2.getvalue())
                if lev != float(case["thr"]):
                    return "frame %d output2dpeaks: '# Threshold level %r', searched at %r" % (k, lev, case["thr"])
                msg = check_2d_rows(R, got, es["res_exact"], affine)
                if msg:
                    return "frame %d output2dpeaks: %s" % (k, msg)
                msg = _cmp_state(R, "frame %d after output2dpeaks" % k, li.npk, li.blim, li.res, es, ctx=ctx)
                if msg:
                    return msg
                if stats is not None:
                    stats["2d_blocks"] = stats.get("2d_blocks", 0) + 1
                    stats["2d_peaks"] = stats.get("2d_peaks", 0) + len(got)
            ncap = len(captured)
            li.mergelast()
            what = "frame %d after mergelast" % k
            msg = _cmp_state(R, what, li.npk, li.blim, None, ei, with_res=False) or \
                _cmp_last(R, what, li.lastnp, li.lastbl, li.lastres, ei, ctx=ctx)
            if msg:
                return msg
            if (li.onfirst, li.onlast, li.spot3d_id) != (ei["onfirst"], ei["onlast"], ei["spot"]):
                return "%s: onfirst/onlast/spot3d_id = %r, model %r" % (
                    what, (li.onfirst, li.onlast, li.spot3d_id), (ei["onfirst"], ei["onlast"], ei["spot"]))
            want = 1 if (eo is not None and eo["lastnp"] > 0) else 0
            if len(captured) - ncap != want:
                return "%s: outputpeaks called %d times, model %d" % (what, len(captured) - ncap, want)
            if want:
                a = captured[-1]
                if not _rows_same(a[:, R.cols], eo["lastres"], ctx.tol(eo["lastres_exact"])):
                    return "%s: rows handed to outputpeaks %r, model (state at return of bloboverlaps) %r" % (
                        what, a[:, R.cols].tolist(), eo["lastres"].tolist())
                msg = check_moments(R, a, eo["lastres_exact"], ctx)
                if msg:
                    return what + ": " + msg
        ncap = len(captured)
        li.finalise()
        last = steps[-1][2]
        want = 1 if last["lastnp"] > 0 else 0
        if len(captured) - ncap != want:
            return "finalise: outputpeaks called %d times, model %d" % (len(captured) - ncap, want)
        if want:
            a = captured[-1]
            if not _rows_same(a[:, R.cols], last["lastres"], ctx.tol(last["lastres_exact"])):
                return "finalise: rows handed to outputpeaks %r, model %r" % (a[:, R.cols].tolist(), last["lastres"].tolist())
            msg = check_moments(R, a, last["lastres_exact"], ctx)
            if msg:
                return "finalise: " + msg
        if (li.onfirst, li.onlast, li.spot3d_id) != (final["onfirst"], final["onlast"], final["spot"]):
            return "finalise: onfirst/onlast/spot3d_id = %r, model %r" % (
                (li.onfirst, li.onlast, li.spot3d_id), (final["onfirst"], final["onlast"], final["spot"]))
        if path:
            out.flush()
            text = open(path).read()
        else:
            text = out.getvalue()
        msg = check_text(R, text, mout, flip if flip is not None else 2, affine)
        if msg:
            return msg
        if collect is not None:
            for a in captured:
                for r in a:
                    if r[R.c.s_1] >= 0.1:
                        collect.append(r[R.cols].tolist())
        return None
    finally:
        if path:
            out.close()


def route_kernels(R, case, steps, final, mout, collect=None):
    """bare kernels connectedpixels / blobproperties / bloboverlaps / blob_moments, orchestrated by the
    harness the way the model says; compared after every kernel call."""
    c = R.c
    ctx = Ctx(case)
    ns, nf = case["ns"], case["nf"]
    blim = np.zeros((ns, nf), np.int32)
    lastbl = np.zeros((ns, nf), np.int32)
    lastnp, lastres = None, None
    emitted = []
    for k, (es, eo, ei) in enumerate(steps):
        d = _frame_array(case, k, np.float32)
        npk = c.connectedpixels(d, blim, case["thr"], 0)
        res = c.blobproperties(d, blim, npk, omega=api_omega(case, k)) if npk > 0 else None
        msg = _cmp_state(R, "kernels frame %d after connectedpixels+blobproperties" % k, npk, blim, res, es, ctx=ctx)
        if msg:
            return msg
        if res is not None and res.shape != (npk, R.nprop):
            return "kernels frame %d: blobproperties returned shape %r" % (k, res.shape)
        if lastnp is None:
            lastbl, blim = blim, lastbl
            lastnp, lastres = npk, res
        else:
            if npk > 0 and lastnp > 0:
                if not eo["called"]:
                    return "kernels frame %d: model did not call bloboverlaps" % k
                before = lastbl.copy()
                ret = c.bloboverlaps(lastbl, lastnp, lastres, blim, npk, res, 0)
                what = "kernels frame %d after bloboverlaps" % k
                msg = _cmp_state(R, what, ret, blim, res, eo, ctx=ctx) or \
                    _cmp_last(R, what, lastnp, lastbl, lastres, eo, ctx=ctx)
                if msg:
                    return msg
                if not np.array_equal(before, lastbl):
                    return what + ": labels1 modified"
                # everything beyond the raw sums of a row merged away must be zero too ("trash b2")
                for rows, ex in ((lastres, eo["lastres"]), (res, eo["res"])):
                    for j in range(len(ex)):
                        if ex[j, M.N_] == 0 and np.any(rows[j] != 0):
                            return what + ": a merged-away row is not zeroed"
                npk = ret
            if lastnp > 0:
                c.blob_moments(lastres[:lastnp])
                msg = check_moments(R, lastres, eo["lastres_exact"], ctx)
                if msg:
                    return "kernels frame %d: %s" % (k, msg)
                for r in lastres[:lastnp]:
                    if r[c.s_1] >= 0.1:
                        emitted.append(r[R.cols].tolist())
            lastnp = npk
            lastres = res[:npk] if npk > 0 else None
            lastbl, blim = blim, lastbl
        what = "kernels frame %d after merge" % k
        msg = _cmp_last(R, what, lastnp, lastbl, lastres, ei, ctx=ctx)
        if msg:
            return msg
    if lastres is not None:
        c.blob_moments(lastres)
        msg = check_moments(R, lastres, steps[-1][2]["lastres_exact"], ctx)
        if msg:
            return "kernels finalise: " + msg
        for r in lastres:
            if r[c.s_1] >= 0.1:
                emitted.append(r[R.cols].tolist())
    want = [[float(x) for x in row] for (row, _a, _b, _c) in mout]
    if not _rows_same(np.array(emitted, dtype=float).reshape(-1, M.NROW), np.array(want, dtype=float).reshape(-1, M.NROW),
                      ctx.tol([row for (row, _a, _b, _c) in mout])):
        return "kernels: emitted rows %r, model %r" % (emitted, want)
    if collect is not None:
        collect.extend(emitted)
    return None


class _FakeImage(object):
    def __init__(self, data, omega, k):
        self.data = data
        self.header = {"Omega": omega}
        self.currentframe = k
        self.filename = "synthetic%04d" % k


def route_peaksearcher(R, cases, stats=None):
    """ImageD11.peaksearcher.peaksearch() with one labelimage per threshold (cases differ only in thr):
    merged peaks (.flt text) and the 2-D peaks / frame records of each .spt stream.
    Returns None or message."""
    from ImageD11 import peaksearcher
    base = cases[0]
    thresholds = [float(cs["thr"]) for cs in cases]
    outs = dict((t, io.StringIO()) for t in thresholds)
    spts = dict((t, io.StringIO()) for t in thresholds)
    labims = dict((t, R.labelimage.labelimage((base["ns"], base["nf"]), fileout=outs[t], sptfile=spts[t]))
                  for t in thresholds)
    corr = R.blobcorrector.perfect()
    dtype = np.dtype(base.get("dtype", "uint16"))
    sav = sys.stdout
    sys.stdout = io.StringIO()
    try:
        for k in range(len(base["frames"])):
            img = _FakeImage(_frame_array(base, k, dtype), api_omega(base, k), k)
            peaksearcher.peaksearch(img.filename, img, corr, thresholds, labims)
        for t in thresholds:
            labims[t].finalise()
    finally:
        sys.stdout = sav
    for cs, t in zip(cases, thresholds):
        steps, _final, m = model_all(cs)
        msg = check_text(R, outs[t].getvalue(), m.out)
        if msg:
            return "peaksearcher.peaksearch threshold %g: %s" % (t, msg)
        msg = check_spt(R, spts[t].getvalue(), cs, steps, "peaksearcher.peaksearch threshold %g .spt" % t)
        if msg:
            return msg
        if stats is not None:
            stats["spt_frames"] = stats.get("spt_frames", 0) + len(steps)
            stats["spt_peaks"] = stats.get("spt_peaks", 0) + sum(st[0]["npk"] for st in steps)
    return None


def route_script(R, shadow, cases, single_thread, header_omega=True, stats=None):
    """scripts/peaksearch.py on an edf file series written with fabio: pks_t<thr>.flt and pks_t<thr>.spt.
    header_omega=False: the files carry no Omega, the angles come from --start / --step (linear cases)"""
    import fabio
    base = cases[0]
    d = os.path.join(common.scratch(), "series%d" % random.randrange(1 << 30))
    os.makedirs(d)
    n = len(base["frames"])
    dtype = np.dtype(base.get("dtype", "uint16"))
    for k in range(n):
        hd = {"Omega": "%r" % api_omega(base, k)} if header_omega else {}
        im = fabio.edfimage.edfimage(data=_frame_array(base, k, dtype), header=hd)
        im.write(os.path.join(d, "syn%04d.edf" % k))
    script = os.path.join(common.REPO, "scripts", "peaksearch.py")
    cmd = [common.PY, script, "-n", os.path.join(d, "syn"), "-f", "0", "-l", str(n - 1), "-o",
           os.path.join(d, "pks.spt"), "-p", "Y"]
    if not header_omega:
        if base.get("omegas") is not None:
            raise common.MachineryError("route_script: --start/--step needs a linear omega sequence")
        cmd += ["--start=%r" % float(base["om0"]), "--step=%r" % float(base["omstep"])]
    for cs in cases:
        cmd += ["-t", "%g" % cs["thr"]]
    if single_thread:
        cmd.append("--singleThread")
    env = dict(os.environ)
    env["PYTHONPATH"] = shadow
    env["PYTHONDONTWRITEBYTECODE"] = "1"
    env["OMP_NUM_THREADS"] = "2"
    p = subprocess.run(cmd, cwd=d, env=env, stdout=subprocess.PIPE, stderr=subprocess.STDOUT, text=True, timeout=300)
    if p.returncode != 0:
        tail = p.stdout[-1500:]
        frames_ = [l for l in p.stdout.splitlines() if l.strip().startswith("File ")]
        if frames_ and ("/ImageD11/" in frames_[-1] or "/scripts/" in frames_[-1]):
            return "scripts/peaksearch.py exited %d inside the package: %s" % (p.returncode, tail[-400:].replace("\n", " | "))
        raise common.MachineryError("scripts/peaksearch.py failed outside the package:\n" + tail)
    mode = "%s%s" % ("singleThread" if single_thread else "threaded", "" if header_omega else ", --start/--step")
    for cs in cases:
        path = os.path.join(d, "pks_t%d.flt" % int(cs["thr"]))
        if not os.path.exists(path):
            return "scripts/peaksearch.py wrote no %s" % os.path.basename(path)
        steps, _final, m = model_all(cs)
        msg = check_text(R, open(path).read(), m.out)
        if msg:
            return "scripts/peaksearch.py (%s) threshold %g: %s" % (mode, cs["thr"], msg)
        spath = os.path.join(d, "pks_t%d.spt" % int(cs["thr"]))
        if not os.path.exists(spath):
            return "scripts/peaksearch.py wrote no %s" % os.path.basename(spath)
        msg = check_spt(R, open(spath).read(), cs, steps,
                        "scripts/peaksearch.py (%s) threshold %g .spt" % (mode, cs["thr"]))
        if msg:
            return msg
        if stats is not None:
            stats["script_spt_frames"] = stats.get("script_spt_frames", 0) + len(steps)
    return None


def route_columnfile(R, path, mout):
    """the merged file read back the way users do (ImageD11.columnfile)"""
    from ImageD11 import columnfile
    if not mout:
        return None            # columnfile cannot represent an empty table
    cf = columnfile.columnfile(path)
    if cf.nrows != len(mout):
        return "columnfile: %d rows, model %d" % (cf.nrows, len(mout))
    for name, idx in (("Number_of_pixels", M.N_), ("sum_intensity", M.I_), ("IMax_int", M.MXI_),
                      ("Min_s", M.BNS_), ("Max_s", M.BXS_), ("Min_f", M.BNF_), ("Max_f", M.BXF_)):
        a = cf.getcolumn(name)
        e = [float(row[idx]) for (row, _a, _b, _c) in mout]
        if a.tolist() != e:
            return "columnfile: column %s = %r, model %r" % (name, a.tolist(), e)
    if cf.getcolumn("spot3d_id").tolist() != [float(x) for x in range(len(mout))]:
        return "columnfile: spot3d_id not 0..n-1"
    return None


def property_judge(case, rows, asis=None):
    """the property itself on the REAL output, by an independent 3-D flood fill over the frames as the
    kernels see them (float32).  asis: see M.judge_against_components (default: the case's flag)"""
    ex = []
    for r in rows:
        if not all(np.isfinite(float(x)) for x in r):
            return "emitted peak carries non-finite values: %r" % ([float(x) for x in r],)
        ex.append([int(x) if float(x).is_integer() else Fraction(x) for x in r])
    return M.judge_against_components(ex, model_frames(case), case["ns"], case["nf"], model_thr(case), omega_of(case),
                                      approx=bool(case.get("approx")),
                                      asis=bool(case.get("asis")) if asis is None else asis)


# ======================================================================================
# one behaviour through the core routes

def guarded(route, *a, **kw):
    """an exception raised while the real code is being driven is a divergence of the code (the unchanged
    tree raises nowhere on these inputs), not a failure of the machinery"""
    try:
        return route(*a, **kw)
    except common.MachineryError:
        raise
    except Exception as e:           # noqa
        import traceback
        tb = traceback.extract_tb(sys.exc_info()[2])
        where = "%s:%d" % (os.path.basename(tb[-1].filename), tb[-1].lineno)
        return "%s raised %s: %s (at %s)" % (route.__name__, type(e).__name__, e, where)


def replay_behaviour(R, chk, case, steps, final, m, routes=("labelimage", "kernels"), path=None, stats=None):
    """returns list of (route, message) divergences (empty = conforms and property holds)"""
    bad = []
    if "labelimage" in routes:
        rows = []
        msg = guarded(route_labelimage, R, case, steps, final, m.out, path=path, collect=rows)
        if msg:
            bad.append(("labelimage", msg))
        else:
            j = property_judge(case, rows)
            if j:
                bad.append(("labelimage/property", j))
            if path:
                msg = guarded(route_columnfile, R, path, m.out)
                if msg:
                    bad.append(("columnfile", msg))
    if "kernels" in routes:
        rows = []
        msg = guarded(route_kernels, R, case, steps, final, m.out, collect=rows)
        if msg:
            bad.append(("kernels", msg))
        else:
            j = property_judge(case, rows)
            if j:
                bad.append(("kernels/property", j))
    if stats is not None:
        for a, n in m.actions.items():
            stats[a] = stats.get(a, 0) + n
    return bad


def classify_column_finding(R, chk, case, what):
    """known finding C12-one-column-image-labels: structural match = the image is one pixel wide
    (nf = 1, ns >= 3), some frame's labels differ from the 8-connected components, and they ARE the
    components of the adjacency the scan of connectedpixels really applies there: for nf = 1 the pixel of
    row i is handled a second time as 'last pixel of the row', where labels[irp - 1] is the pixel of row
    i - 2 (connectedpixels.c, 'Last pixel on the row'), so blobs separated by a one pixel gap are joined."""
    if not (case["nf"] == 1 and case["ns"] >= 3 and chk.finding(FINDING_COL)):
        return False
    thr = model_thr(case)
    explained = 0

    def same_partition(a, b):
        return len(set(zip(a, b))) == len(set(a)) == len(set(b)) and all((x == 0) == (y == 0) for x, y in zip(a, b))
    for k, f in enumerate(model_frames(case)):
        d = _frame_array(case, k, np.float32)
        lab = np.zeros((case["ns"], 1), np.int32)
        npk = R.c.connectedpixels(d, lab, case["thr"], 0)
        lab = lab.ravel().tolist()
        good, ngood = M.label2d(f, case["ns"], 1, thr)
        # what that scan computes: classes of "row i touches rows i-1 and i-2"; one label is made and never
        # used for every above-threshold row i >= 1 whose row i-1 is not above threshold
        skip, n, wasted = [0] * len(f), 0, 0
        for i, v in enumerate(f):
            if v > thr:
                prev = [skip[q] for q in (i - 1, i - 2) if q >= 0 and skip[q]]
                if i >= 1 and not skip[i - 1]:
                    wasted += 1
                if prev:
                    lo, hi = min(prev), max(prev)
                    skip = [lo if x == hi else x for x in skip]
                    skip[i] = lo
                else:
                    n += 1
                    skip[i] = n
        nclass = len(set(skip) - {0})
        if not (same_partition(lab, skip) and int(npk) == nclass + wasted):
            return False
        if lab != good or int(npk) != ngood:
            explained += 1
    if not explained:
        return False
    chk.known_finding(FINDING_COL, what)
    return True


def report(chk, case, bad, R=None):
    for route, msg in bad[:1]:
        if R is not None and route.endswith("/property") and float(case["thr"]) < 0:
            if classify_max_finding(chk, case, _real_rows(R, case), "%s: %s" % (route, msg)):
                continue
        if R is not None and case["nf"] == 1 and ("after peaksearch" in msg or "after connectedpixels" in msg):
            if classify_column_finding(R, chk, case, "%s: %s" % (route, msg)):
                continue
        chk.violation("%s: %s" % (route, msg), {"case": case, "route": route})


# ======================================================================================
# TLC side

EXTRA_COVER = {"1x5_f2": ["CopyMoved"], "1x7_f2": ["CopyMoved", "CopyCheckEmpty"]}


def _tlc(chk, name, tier, simulate=None, depth=None, dump=None, coverage=False, timeout=1500, workers=None):
    cfg = "%s_%s.cfg" % (SPEC, name.split()[0])
    res = common.run_tlc(SPEC, cfg, workers=workers or WORKERS, simulate=simulate, depth=depth,
                         dump_traces=dump, coverage=coverage, timeout=timeout)
    cover = ()
    if coverage and simulate is None and not res.violated:
        cover = LIVE + EXTRA_COVER.get(name, [])
        if not res.coverage:
            raise common.MachineryError("TLC %s: no coverage statistics parsed" % name)
        if res.coverage.get("MergeSame1", (0, 0))[1] != 0:
            raise common.MachineryError("TLC %s: the dead branch MergeSame1 was taken" % name)
    chk.add_tlc("%s %s" % (SPEC, name), res, require_cover=cover)
    if coverage and res.coverage:
        chk.notes["tlc_action_coverage_" + name.split()[0]] = dict((a, v[1]) for a, v in res.coverage.items())
    return res


def _parse_printed(res):
    recs, skipped = [], 0
    for s in res.printed:
        try:
            recs.append(json.loads(s))
        except ValueError:
            skipped += 1
    return recs, skipped


def _real_rows(R, case):
    """the rows the real labelimage emits for a case (no comparison with the model)"""
    li = R.labelimage.labelimage((case["ns"], case["nf"]), fileout=io.StringIO(), sptfile=io.StringIO())
    rows = []
    orig = li.outputpeaks
    li.outputpeaks = lambda p: (rows.extend(r[R.cols].tolist() for r in p if r[R.c.s_1] >= 0.1), orig(p))[1]
    for k in range(len(case["frames"])):
        li.peaksearch(_frame_array(case, k, _dtype_of(case, None)), case["thr"], api_omega(case, k))
        li.mergelast()
    li.finalise()
    return rows


def handle_tlc_violation(R, chk, name, res, tolerate_unconfirmed=False):
    """a TLC invariant violation is a design-level counterexample: replay it before reporting.
    Returns True when the real code confirms it (reported as violation / known finding), False when it
    does not and tolerate_unconfirmed (else that is an error of the model)."""
    frames = None
    for st in reversed(res.trace):
        if "frames" in st.get("vars", {}):
            frames = common.parse_tla(st["vars"]["frames"])
            break
    if not frames:
        raise common.MachineryError("TLC %s violated %r but the trace has no frames" % (name, res.violated))
    case = cfg_case(name, frames, "TLC counterexample %s %r" % (name, res.violated))
    rows = _real_rows(R, case)
    j = property_judge(case, rows, asis=False)
    if j:
        what = "TLC counterexample (%s) confirmed on the real code: %s" % (",".join(res.violated), j)
        if not classify_max_finding(chk, case, rows, what):
            chk.violation(what, {"case": case, "route": "labelimage/property"})
        return True
    if tolerate_unconfirmed:
        return False
    raise common.MachineryError("TLC %s: invariant %r violated by the model, but the real code satisfies the "
                                "property on that frame sequence - the model is wrong:\n%s"
                                % (name, res.violated, res.stdout[-3000:]))


def classify_max_finding(chk, case, rows, what):
    """known finding C12-max-pixel-nonpositive-blob: structural match = negative threshold, the strict
    judgement fails, and the judgement that differs only in the max-pixel clause of components whose
    maximum is <= 0 (what Merge3D.tla with MAXFIX = FALSE predicts: mx_I = 0 at (0,0,0)) passes."""
    if not (float(case["thr"]) < 0 and chk.finding(FINDING_MAX)):
        return False
    if property_judge(case, rows, asis=False) is None or property_judge(case, rows, asis=True) is not None:
        return False
    chk.known_finding(FINDING_MAX, what)
    return True


def crosscheck_steps(recs, name):
    """every observable state printed by EmitStep must be what the transcription computes"""
    g = CFG[name]
    ns, nf, thr, omega = g["ns"], g["nf"], g["thr"], cfg_omega(name)
    exp = {}
    for d in recs:
        if "npk" in d:
            exp[(tuple(map(tuple, d["fr"])), d["k"])] = d
    n = 0
    cache = {}
    for (frs, pc), d in sorted(exp.items(), key=lambda kv: (kv[0][0], kv[0][1])):
        if pc != "done":
            continue
        m = M.Model(ns, nf, thr, omega, maxfix=g["maxfix"])
        for k, f in enumerate(frs):
            pre = frs[:k + 1]

            def obs():
                o = m.observable()
                if g["nan"]:
                    o["fr"] = [list(x) for x in pre]         # as TLC writes them (NaN = NANI)
                return o
            m.peaksearch(_dec([f])[0] if g["nan"] else f)
            seq = [("searched", obs())]
            m.mergelast(stop_after_kernel=True)
            if m.pc == "output":
                seq.append(("output", obs()))
                m.finish_mergelast()
            seq.append(("idle", obs()))
            if pre in cache:
                continue
            cache[pre] = 1
            for pc2, o in seq:
                e = exp.get((pre, pc2))
                if e is None or e != o:
                    raise common.MachineryError("transcription and TLC disagree (%s) at %s of %r:\n%r\n%r"
                                                % (name, pc2, pre, o, e))
                n += 1
        m.finalise()
        o = m.observable()
        if g["nan"]:
            o["fr"] = [list(x) for x in frs]
        if o != d:
            raise common.MachineryError("transcription and TLC disagree (%s) at done of %r:\n%r\n%r" % (name, frs, o, d))
        n += 1
    if n != len(exp):
        raise common.MachineryError("EmitStep printed %d observable states, the transcription visited %d" % (len(exp), n))
    return n


def crosscheck_traces(files, name, limit):
    """every variable of every state of simulated behaviours == transcription"""
    g = CFG[name]
    ns, nf, thr, omega = g["ns"], g["nf"], g["thr"], cfg_omega(name)
    nstates, behaviours, acts = 0, [], {}
    rename = {"PeaksearchPending": "Peaksearch", None: "Init", "FinaliseFull": "Finalise"}
    for f in files[:limit]:
        st = common.parse_sim_file(f)
        if not st:
            continue
        last = st[-1][1]
        tr = []
        m = M.Model(ns, nf, thr, omega, trace=tr)
        mine = [("Init", m.snapshot())]
        for fr in last["frames"]:
            m.peaksearch(fr)
            m.mergelast()
        if last["pc"] == "done":
            m.finalise()
        mine += tr
        theirs = [(rename.get(a, a), v) for (a, v) in st if a != "PickPixel"]
        if len(mine) != len(theirs):
            raise common.MachineryError("trace %s: %d model states, transcription %d" % (f, len(theirs), len(mine)))
        for (a1, v1), (a2, v2) in zip(mine, theirs):
            v2 = dict(v2)
            v2.pop("pend", None)
            if a1 != a2 or v1 != v2:
                diff = [k for k in v1 if v1[k] != v2.get(k)]
                raise common.MachineryError("trace %s: transcription and TLC differ after %s/%s in %r" % (f, a1, a2, diff))
            acts[a1] = acts.get(a1, 0) + 1
            nstates += 1
        if last["pc"] == "done":
            behaviours.append([list(fr) for fr in last["frames"]])
    return nstates, behaviours, acts


# ======================================================================================
# random long series (beyond TLC's scope)

def random_case(rng, idx):
    shape = [(16, 16), (16, 16), (8, 16), (5, 7), (12, 3)][idx % 5]
    ns, nf = shape
    nfr = rng.choice([1, 2, 3, 5, 8, 13, 21, 30, 40])
    om0, omstep = rng.choice([(0, 1), (10, 0.25), (-3, -0.5), (100, 2), (1.5, 0.125)])
    thr = rng.choice([0, 0, 1, 2.5, 4])
    dens = rng.choice([0.03, 0.08, 0.15, 0.3])
    nblob = rng.randrange(0, 6)
    blobs = [[rng.uniform(0, ns), rng.uniform(0, nf), rng.uniform(-0.7, 0.7), rng.uniform(-0.7, 0.7),
              rng.randrange(0, nfr), rng.randrange(1, 12), rng.uniform(0.8, 2.5)] for _ in range(nblob)]
    frames = []
    for k in range(nfr):
        if rng.random() < 0.08:
            frames.append([0] * (ns * nf))
            continue
        img = [0] * (ns * nf)
        for p in range(ns * nf):
            if rng.random() < dens:
                img[p] = rng.randrange(1, 10)
        for b in blobs:
            if b[4] <= k < b[4] + b[5]:
                cs, cf = b[0] + b[2] * (k - b[4]), b[1] + b[3] * (k - b[4])
                for s in range(ns):
                    for f in range(nf):
                        d2 = (s - cs) ** 2 + (f - cf) ** 2
                        if d2 < b[6] ** 2:
                            img[s * nf + f] = max(img[s * nf + f], 5 + int(9 - 3 * d2))
        frames.append(img)
    return make_case(ns, nf, thr, om0, omstep, frames, "random %d" % idx)


def _random_frames(rng, ns, nf, nfr, dens=None, nblob=None):
    """integer frames 0..14 like random_case's: background speckle + drifting gaussian-ish blobs"""
    dens = rng.choice([0.03, 0.08, 0.15, 0.3]) if dens is None else dens
    nblob = rng.randrange(0, 6) if nblob is None else nblob
    blobs = [[rng.uniform(0, ns), rng.uniform(0, nf), rng.uniform(-0.7, 0.7), rng.uniform(-0.7, 0.7),
              rng.randrange(0, nfr), rng.randrange(1, 12), rng.uniform(0.8, 2.5)] for _ in range(nblob)]
    frames = []
    for k in range(nfr):
        if rng.random() < 0.08:
            frames.append([0] * (ns * nf))
            continue
        img = [rng.randrange(1, 10) if rng.random() < dens else 0 for _ in range(ns * nf)]
        for b in blobs:
            if b[4] <= k < b[4] + b[5]:
                cs, cf = b[0] + b[2] * (k - b[4]), b[1] + b[3] * (k - b[4])
                r = int(b[6]) + 1
                for s in range(max(0, int(cs) - r), min(ns, int(cs) + r + 2)):
                    for f in range(max(0, int(cf) - r), min(nf, int(cf) + r + 2)):
                        d2 = (s - cs) ** 2 + (f - cf) ** 2
                        if d2 < b[6] ** 2:
                            img[s * nf + f] = max(img[s * nf + f], 5 + int(9 - 3 * d2))
        frames.append(img)
    if nfr >= 2:                 # at least one peak that persists over two frames (vacuity of the family counts)
        k0, p = rng.randrange(nfr - 1), rng.randrange(ns * nf)
        frames[k0][p] = max(frames[k0][p], 9)
        frames[k0 + 1][p] = max(frames[k0 + 1][p], 8)
    return frames


BIG = [(1 << 24) + 1, (1 << 24) + 3, (1 << 27) + 5, (1 << 30) + 65, (1 << 31) - 129, 33554435]


def value_cases(rng):
    """pixel value classes beyond the model's small integers (the model is covariant in the intensity
    scale: it only compares intensities with THR / each other and adds products).  The expectation is the
    same transcription / flood fill run on the float32-rounded frames with exact rational arithmetic."""
    out = []
    shapes = [(16, 16), (8, 16), (5, 7), (12, 3)]

    def base(k):
        ns, nf = shapes[k % len(shapes)]
        nfr = rng.choice([2, 3, 5, 8, 13])
        return ns, nf, nfr, _random_frames(rng, ns, nf, nfr)
    for k in range(3):          # uint16 up to 65535 (14 * 4681 = 65534)
        ns, nf, nfr, fr = base(k)
        fr = [[v * 4681 for v in f] for f in fr]
        for _ in range(3):
            f = rng.choice(fr)
            f[rng.randrange(len(f))] = 65535
        out.append(make_case(ns, nf, [0, 9362, 30000.5][k], 0, 1, fr, "values uint16 x4681 #%d" % k,
                             dtype="uint16", family="values:uint16<=65535"))
    for k in range(3):          # int32 up to 2^20
        ns, nf, nfr, fr = base(k + 1)
        fr = [[v * 74898 for v in f] for f in fr]
        out.append(make_case(ns, nf, [0, 149796, 500000.5][k], 10, 0.25, fr, "values int32 x74898 #%d" % k,
                             dtype="int32", family="values:int32<=2^20"))
    for k in range(4):          # float32 fractions k/8
        ns, nf, nfr, fr = base(k + 2)
        fr = [[(v * 0.875 + 0.125) if v else 0 for v in f] for f in fr]
        out.append(make_case(ns, nf, [0, 0.3, 2.75, 1.0][k], -3, -0.5, fr, "values float32 k/8 #%d" % k,
                             dtype="float32", family="values:float32 k/8"))
    for k in range(3):          # a few int32 values that float32 cannot hold exactly
        ns, nf, nfr, fr = base(k)
        for _ in range(6):
            f = rng.choice(fr)
            nz = [p for p, v in enumerate(f) if v]
            if nz:
                f[rng.choice(nz)] = rng.choice(BIG)
        out.append(make_case(ns, nf, [0, 1, 2.5][k], 0, 1, fr, "values int32 > 2^24 #%d" % k,
                             dtype="int32", approx=True, family="values:int32>2^24 (rounded to float32)"))
    for k in range(4):          # negative background below the threshold
        ns, nf, nfr, fr = base(k + 3)
        fr = [[v if v else (-rng.randrange(1, 10) if rng.random() < 0.5 else 0) for v in f] for f in fr]
        out.append(make_case(ns, nf, [0, 1, 2.5, 0][k], 1.5, 0.125, fr, "negative background #%d" % k,
                             dtype=["int32", "float32", "float64", "int16"][k],
                             family="values:negative pixels below threshold"))
    for k in range(3):          # negative threshold on strictly positive data: one component holds everything
        ns, nf = [(5, 7), (3, 4), (1, 9)][k]
        fr = [[v + 1 for v in f] for f in _random_frames(rng, ns, nf, 3)]
        out.append(make_case(ns, nf, [-1, -0.5, -2.5][k], 0, 1, fr, "negative threshold, positive data #%d" % k,
                             dtype="float32", family="threshold<0 on positive data"))
    return out


def shape_cases(rng):
    out = []
    for k, (ns, nf) in enumerate([(33, 20), (20, 33), (40, 1), (1, 40), (3, 37), (37, 3)]):
        nfr = rng.choice([3, 5, 8])
        out.append(make_case(ns, nf, [0, 1, 2.5][k % 3], 100, 2, _random_frames(rng, ns, nf, nfr),
                             "shape %dx%d" % (ns, nf), family="shape:tall/wide/column/row > 16"))
    return out


def big_shape_cases(rng):
    """detector-sized sides: coordinates up to 2047 in the second moment sums, the nf+1 / ns+1 bounding
    box sentinels, blobs touching the far edges and corners"""
    out = []
    for ns, nf in [(64, 2048), (2048, 64)]:
        frames = []
        spots = [(ns - 1, nf - 1), (0, nf - 1), (ns - 1, 0), (ns // 2, nf - 2), (ns - 2, nf // 2)]
        spots += [(rng.randrange(ns), rng.randrange(nf)) for _ in range(6)]
        for k in range(3):
            img = np.zeros((ns, nf), np.int64)
            for n, (s0, f0) in enumerate(spots):
                if (n + k) % 4 == 3:
                    continue                      # blobs come and go
                for ds in range(-2, 3):
                    for df in range(-2, 3):
                        s1, f1 = s0 + ds + (k if n % 2 else 0), f0 + df
                        if 0 <= s1 < ns and 0 <= f1 < nf and ds * ds + df * df <= 4 + n % 3:
                            img[s1, f1] = max(img[s1, f1], 1000 + 37 * n - 100 * (ds * ds + df * df) + k)
            frames.append(img.ravel().tolist())
        out.append(make_case(ns, nf, 5, 0, 0.25, frames, "shape %dx%d sparse" % (ns, nf), dtype="uint16",
                             family="shape:2048 pixel side"))
    return out


def omega_cases(rng):
    """omega sequences: zero step, non-monotonic, revisited, and steps float32 cannot hold (the f2py
    wrapper narrows `real omega`: the expectation narrows too; the omega sums are then compared within
    the rounding-error bound of a double accumulation, everything else exactly)"""
    out = []
    n = 0

    def add(origin, fam, **kw):
        ns, nf = [(16, 16), (5, 7), (8, 16), (12, 3)][len(out) % 4]
        nfr = rng.choice([4, 6, 9, 14])
        om = kw.pop("omegas", None)
        if callable(om):
            kw["omegas"] = [om(k) for k in range(nfr)]
        out.append(make_case(ns, nf, rng.choice([0, 1, 2.5]), kw.pop("om0", 0), kw.pop("omstep", 1),
                             _random_frames(rng, ns, nf, nfr), origin, family=fam, **kw))
    add("omega step 0", "omega:zero step", om0=5, omstep=0)
    add("omega step 0 (negative angle)", "omega:zero step", om0=-7.5, omstep=0)
    add("omega 0,2,1,3,2,4,..", "omega:non-monotonic", omegas=lambda k: k + (1 if k % 2 else 0))
    add("omega 0,1,0,1,..", "omega:non-monotonic", omegas=lambda k: k % 2)
    add("omega 3,-1,2,-2,..", "omega:non-monotonic", omegas=lambda k: (3 - k // 2) if k % 2 == 0 else -(1 + k // 2))
    add("omega 0.1 steps", "omega:not float32-representable", omegas=lambda k: 0.1 * k, approx=True)
    add("omega 359.9 - 0.3 k", "omega:not float32-representable", omegas=lambda k: 359.9 - 0.3 * k, approx=True)
    add("omega -10 + k/3", "omega:not float32-representable", omegas=lambda k: -10 + k / 3.0, approx=True)
    add("omega 0.05 steps, uint16 65535", "omega:not float32-representable", omegas=lambda k: 12.345 + 0.05 * k,
        approx=True)
    out[-1]["frames"] = [[v * 4681 for v in f] for f in out[-1]["frames"]]
    return out


def _nan_stats(case):
    """how many NaN pixels of a case sit where a kernel that let them through would change the answer: in the
    interior of the frame / on its border, next to a blob pixel (8-neighbour or same pixel on an adjacent frame),
    between two different components (a bridge)"""
    ns, nf, thr = case["ns"], case["nf"], model_thr(case)
    fr = np.array([[float(v) for v in f] for f in case["frames"]], dtype=float).reshape(-1, ns, nf)
    nanm = np.isnan(fr)
    with np.errstate(invalid="ignore"):
        fg = (~nanm) & (fr > thr)
    from scipy import ndimage
    lab, _n = ndimage.label(fg, structure=BIG3D.ST3)
    st = {"nan": int(nanm.sum()), "interior": 0, "border": 0, "touching a blob": 0, "bridge": 0}
    for k, s_, f_ in zip(*np.nonzero(nanm)):
        inner = 1 <= s_ and 1 <= f_ <= nf - 2
        st["interior" if inner else "border"] += 1
        near = set(lab[k, max(0, s_ - 1):s_ + 2, max(0, f_ - 1):f_ + 2].ravel().tolist())
        for k2 in (k - 1, k + 1):
            if 0 <= k2 < len(fr):
                near.add(int(lab[k2, s_, f_]))
        near.discard(0)
        st["touching a blob"] += int(len(near) >= 1)
        st["bridge"] += int(len(near) >= 2)
    return st


def nan_cases(rng):
    """float frames with not-a-number pixels (dead pixels, 0/0 of a flood field that is zero somewhere).  By the
    statement a voxel is in a peak iff it is above the threshold; NaN > t is false: such a pixel is background, it
    belongs to no component, joins nothing and adds neither a pixel nor intensity (Merge3D.tla: Above).  Classes:
    a dead pixel (NaN on every frame) in the interior next to a blob, a NaN between two blobs of one frame, a NaN
    that would link blobs of adjacent frames, a NaN inside a blob (a hole), isolated ones, NaN on the first / last
    row and column and the corners, a sprinkle of 5 % NaN; float32 and float64 input."""
    out = []
    # 1. by hand: two blobs two columns apart with the NaN between them, a dead pixel beside a blob, border NaNs
    ns, nf = 7, 8
    fr = [[1.0] * (ns * nf) for _ in range(4)]

    def put(k, s_, f_, v):
        fr[k][s_ * nf + f_] = v
    for k in (0, 1, 2):
        for s_ in (1, 2, 3):
            put(k, s_, 1, 10 + k + s_)
            put(k, s_, 2, 20 + 2 * k + s_)
            put(k, s_, 4, 30 - k - s_)
            put(k, s_, 5, 9 + k + 2 * s_)
    put(1, 2, 3, NAN)                       # between the two blobs, interior
    for k in range(4):
        put(k, 4, 3, NAN)                   # dead pixel under both blobs (diagonal neighbour of each)
    put(3, 2, 2, NAN)                       # frame 3: only a NaN above frame 2's blob pixel
    put(3, 5, 6, 50.0)
    put(2, 5, 6, NAN)                       # NaN below a blob pixel of the next frame
    put(0, 0, 3, NAN), put(0, ns - 1, 0, NAN), put(0, 3, 0, NAN), put(0, 3, nf - 1, NAN), put(3, ns - 1, nf - 1, NAN)
    put(3, 0, 0, NAN)
    out.append(make_case(ns, nf, 5, 10, 0.5, fr, "NaN by hand", dtype="float32", family="NaN pixels"))
    # 2. random series with NaN injected
    shapes = [(16, 16), (8, 16), (5, 7), (12, 3), (6, 9)]
    for k in range(8):
        ns, nf = shapes[k % len(shapes)]
        nfr = rng.choice([2, 3, 5, 8])
        fr = [[float(v) for v in f] for f in _random_frames(rng, ns, nf, nfr, dens=rng.choice([0.03, 0.08, 0.15]))]
        thr = [0, 1, 2.5, 0][k % 4]
        fgpix = [(q, p) for q in range(nfr) for p in range(ns * nf) if fr[q][p] > thr]
        # next to blob pixels: one of the 8 neighbours / the same pixel on an adjacent frame
        for _ in range(max(3, len(fgpix) // 6)):
            if not fgpix:
                break
            q, p = rng.choice(fgpix)
            s_, f_ = divmod(p, nf)
            if rng.random() < 0.3 and nfr > 1:
                q2 = q + rng.choice([-1, 1])
                if 0 <= q2 < nfr:
                    fr[q2][p] = NAN
                continue
            s2, f2 = s_ + rng.choice([-1, 0, 1]), f_ + rng.choice([-1, 0, 1])
            if 0 <= s2 < ns and 0 <= f2 < nf and not (fr[q][s2 * nf + f2] > thr and rng.random() < 0.7):
                fr[q][s2 * nf + f2] = NAN          # mostly beside the blob, sometimes a hole in it
        p = rng.randrange(ns * nf)                     # a dead pixel: NaN on every frame
        for q in range(nfr):
            fr[q][p] = NAN
        for q in range(nfr):                           # border and corners
            for p in (rng.randrange(nf), (ns - 1) * nf + rng.randrange(nf), rng.randrange(ns) * nf,
                      rng.randrange(ns) * nf + nf - 1):
                if rng.random() < 0.5:
                    fr[q][p] = NAN
        if k % 4 == 3:                                 # a sprinkle
            for q in range(nfr):
                for p in range(ns * nf):
                    if rng.random() < 0.05:
                        fr[q][p] = NAN
        out.append(make_case(ns, nf, thr, [0, 10, -3][k % 3], [1, 0.25, -0.5][k % 3], fr, "NaN random #%d" % k,
                             dtype=["float32", "float64"][k % 2], family="NaN pixels"))
    return out


def handmade_cases():
    """the situations named in the property statement, by hand"""
    cs = []
    # two blobs on frame n joined only through frame n-1 (Stine West), with a third blob that must move down
    cs.append(make_case(1, 5, 0, 0, 1, [[1, 2, 3, 0, 0], [4, 0, 5, 0, 6], [0, 0, 7, 0, 0]], "stine-west"))
    # four blobs, pairs joined through the previous frame (copy of a non-root: assert empty)
    cs.append(make_case(1, 7, 0, 1, 1, [[1, 1, 1, 0, 1, 1, 1], [2, 0, 2, 0, 2, 0, 2], [0, 0, 0, 0, 0, 0, 1]], "two-pairs"))
    # fork and join
    cs.append(make_case(3, 3, 0, 5, -1, [[0, 0, 0, 1, 1, 1, 0, 0, 0], [1, 0, 1, 0, 0, 0, 1, 0, 1],
                                          [1, 0, 1, 1, 1, 1, 1, 0, 1], [0, 0, 0, 0, 3, 0, 0, 0, 0]], "fork-join"))
    # empty frames at the start, in the middle, at the end
    cs.append(make_case(2, 3, 0, 0, 1, [[0] * 6, [0, 1, 0, 0, 0, 0], [0] * 6, [0, 1, 0, 0, 0, 0], [0] * 6], "empties"))
    cs.append(make_case(2, 3, 0, 0, 1, [[0] * 6], "single-empty"))
    cs.append(make_case(2, 3, 0, 0, 1, [[3, 0, 0, 0, 0, 2]], "single"))
    # equal maxima on different frames (tie rule), sub-threshold pixels that must not be summed
    cs.append(make_case(2, 2, 1, 2, 1, [[3, 1, 1, 0], [3, 0, 1, 0], [1, 3, 0, 0]], "ties"))
    return cs


# ======================================================================================
# run

def _replay_set(R, chk, name, behaviours, tlc_out, routes, stats, file_every=0, limit_fail=30, kernels_every=1):
    """behaviours: list of frame lists (tuples).  tlc_out: dict frames -> out from TLC (or None)."""
    g = CFG[name]
    cache = StepCache(g["ns"], g["nf"], g["thr"], cfg_omega(name), maxfix=g["maxfix"], nan=g["nan"])
    nfail = 0
    behaviours = sorted(behaviours)
    for n, frs in enumerate(behaviours):
        steps, final, m = cache.get(list(frs))
        if tlc_out is not None:
            want = tlc_out[frs]
            got = [[list(r), a, b, c] for (r, a, b, c) in m.out]
            if got != want:
                raise common.MachineryError("transcription and TLC disagree on `out` (%s) for %r:\n%r\n%r"
                                            % (name, frs, got, want))
        if m.bad:
            raise common.MachineryError("model run-time check %r failed for %r" % (m.bad, frs))
        case = cfg_case(name, frs, "TLC %s" % name)
        path = None
        if file_every and n % file_every == 0:
            path = os.path.join(common.scratch(), "merged_%s.flt" % name)
        rts = routes if n % kernels_every == 0 else tuple(r for r in routes if r != "kernels")
        bad = replay_behaviour(R, chk, case, steps, final, m, routes=rts, path=path, stats=stats)
        chk.traces += 1
        chk.case((name, frs), nontrivial=m.actions.get("MergeAcross", 0) > 0)
        if len(frs) >= 2 and m.actions.get("MergeAcross", 0) > 0 and m.actions.get("MergeSame2", 0) > 0:
            chk.sample({"scope": name, "frames": [list(f) for f in frs],
                        "emitted (s_1..bb_mn_o, onfirst, onlast, id)": [[list(r), a, b, c] for (r, a, b, c) in m.out]})
        if bad:
            report(chk, case, bad, R)
            nfail += 1
            if nfail >= limit_fail:
                break
    return nfail


def _exhaustive(R, chk, name, tier, stats, coverage, steps, routes=("labelimage", "kernels"), file_every=0,
                timeout=1500, kernels_every=1, bind=True):
    res = _tlc(chk, name, tier, coverage=coverage, timeout=timeout)
    if res.violated:
        handle_tlc_violation(R, chk, name, res)
        return
    recs, skipped = _parse_printed(res)
    if skipped:
        res = _tlc(chk, name + " (workers=1)", tier, coverage=False, timeout=timeout, workers=1)
        recs, skipped = _parse_printed(res)
        if skipped:
            raise common.MachineryError("unparsable TLC output lines in %s" % name)
    if steps:
        chk.notes["observable_states_crosschecked_" + name] = crosscheck_steps(recs, name)
    tlc_out = {}
    for d in recs:
        if d["k"] == "done" and "npk" not in d:
            tlc_out[tuple(map(tuple, d["fr"]))] = d["out"]
    if not tlc_out:
        raise common.MachineryError("TLC %s emitted no behaviour" % name)
    if not bind:            # design-level run only (the tree follows another constant set)
        return
    _replay_set(R, chk, name, list(tlc_out), tlc_out, routes, stats, file_every=file_every,
                kernels_every=kernels_every)


def _negative_threshold(R, chk, tier, stats):
    """1x3 (quick: 1x2) x 2 frames over -2..1 at threshold -2 (blobs made of -1, 0, 1).  The model with the max-pixel
    rule of the pinned code (MAXFIX = FALSE) violates the property there (a blob without a positive pixel
    keeps mx_I = 0 at (0,0,0)): TLC's counterexample is replayed on the real code.  Confirmed -> violation
    (or the known finding), and every behaviour of the scope is bound to that model, the rest of the
    property judged (negthr_asis).  Not confirmed -> the tree must follow the repaired rule: every
    behaviour is bound to the MAXFIX = TRUE model with the full property (negthr_fix)."""
    q = "_q" if tier == "quick" else ""
    res = _tlc(chk, "negthr" + q, tier, timeout=600)
    if not res.violated:
        raise common.MachineryError("TLC negthr: the MAXFIX = FALSE model is expected to violate DoneOK / PrefixOK")
    confirmed = handle_tlc_violation(R, chk, "negthr" + q, res, tolerate_unconfirmed=True)
    chk.traces += 1
    if confirmed:
        chk.notes["negative_threshold_scope"] = ("TLC counterexample of the strict property confirmed on the real "
                                                 "code; all behaviours of the scope bound to the MAXFIX=FALSE model")
        _exhaustive(R, chk, "negthr_asis" + q, tier, stats, coverage=False, steps=True, file_every=200, timeout=600)
    else:
        chk.notes["negative_threshold_scope"] = ("the real code satisfies the property on TLC's counterexample for "
                                                 "the pinned rule; all behaviours of the scope bound to the MAXFIX=TRUE model")
    if not confirmed or tier == "thorough":
        _exhaustive(R, chk, "negthr_fix" + q, tier, stats, coverage=False, steps=True, file_every=200, timeout=600,
                    bind=not confirmed)


def _simulated(R, chk, name, tier, stats, num, ntraces):
    prefix = os.path.join(common.scratch(), "sim_" + name)
    os.makedirs(prefix)
    res = _tlc(chk, name, tier, simulate=num, depth=400, dump=os.path.join(prefix, "t"), timeout=900,
               workers=min(WORKERS, 8))
    if res.violated:
        handle_tlc_violation(R, chk, name, res)
        return
    files = sorted(glob.glob(os.path.join(prefix, "t*")))
    nst, behaviours, acts = crosscheck_traces(files, name, ntraces)
    chk.notes["simulated_states_crosschecked_" + name] = nst
    recs, _ = _parse_printed(res)
    seen = set(tuple(map(tuple, b)) for b in behaviours)
    tlc_out = {}
    for d in recs:
        if d["k"] == "done":
            tlc_out[tuple(map(tuple, d["fr"]))] = d["out"]
    _replay_set(R, chk, name, list(tlc_out), tlc_out, ("labelimage", "kernels"), stats, file_every=25)
    return len(seen)


def _random_series(R, chk, shadow, tier, stats, count, nscript):
    import collections
    rng = random.Random(common.seed() * 7919 + 12)
    cases = handmade_cases() + [random_case(rng, k) for k in range(count)]
    nfail = 0
    fam = collections.Counter()
    rstat = {}
    for n, case in enumerate(cases):
        steps, final, m = model_all(case)
        if m.bad:
            raise common.MachineryError("model run-time check %r failed for %s" % (m.bad, case["origin"]))
        j = M.judge_against_components([r for (r, _a, _b, _c) in m.out], case["frames"], case["ns"], case["nf"],
                                       case["thr"], omega_fn(case["om0"], case["omstep"]))
        if j:
            raise common.MachineryError("transcription violates the property on %s: %s" % (case["origin"], j))
        fam["model series (16x16 and smaller, small integers, dyadic omega)"] += 1
        path = os.path.join(common.scratch(), "merged_random.flt")
        bad = replay_behaviour(R, chk, case, steps, final, m, path=path, stats=stats)
        # other input dtypes reach the same float32 conversion
        if not bad and n % 3 == 0:
            msg = guarded(route_labelimage, R, case, steps, final, m.out, dtype=[np.uint16, np.int32, np.float32][n % 9 // 3])
            if msg:
                bad.append(("labelimage(dtype)", msg))
        if not bad and n % 2 == 0:
            others = [dict(case, thr=t) for t in (0, 2, 5) if t != case["thr"]][:2]
            msg = guarded(route_peaksearcher, R, [case] + others, stats=rstat)
            if msg:
                bad.append(("peaksearcher", msg))
            fam["route:peaksearcher.peaksearch, .flt and .spt streams judged"] += 1
        if not bad and n % 4 == 1:
            msg = guarded(route_labelimage, R, case, steps, final, m.out, with2d=True, stats=rstat)
            if msg:
                bad.append(("labelimage(output2dpeaks before mergelast)", msg))
            fam["route:labelimage with output2dpeaks before mergelast"] += 1
        if not bad and n % 4 == 3:
            msg = guarded(route_labelimage, R, case, steps, final, m.out, measure=True)
            if msg:
                bad.append(("labelimage(measurepeaks(blim=own labels))", msg))
            fam["route:measurepeaks(blim=labels made by the caller)"] += 1
        if not bad and n % 3 == 1:
            fl = 1 + (n // 3) % 8
            msg = guarded(route_labelimage, R, case, steps, final, m.out, flip=fl, affine=(n % 2 == 0))
            if msg:
                bad.append(("labelimage(flip%d%s)" % (fl, ", affine spatial" if n % 2 == 0 else ""), msg))
            fam["columns:flip%d" % fl] += 1
            if n % 2 == 0:
                fam["columns:sc/fc through a non-trivial corrector"] += 1
        chk.traces += 1
        chk.case(("random", n, len(case["frames"])), nontrivial=m.actions.get("MergeAcross", 0) > 0)
        if bad:
            report(chk, case, bad, R)
            nfail += 1
            if nfail > 10:
                break
    # default OpenMP thread count (connectedpixels' relabel loop is parallel)
    old = 1
    try:
        R.c.cimaged11_omp_set_num_threads(4)
        for case in cases[:12]:
            steps, final, m = model_all(case)
            bad = replay_behaviour(R, chk, case, steps, final, m)
            chk.traces += 1
            if bad:
                report(chk, case, [("4 threads " + r, s) for r, s in bad])
    finally:
        R.c.cimaged11_omp_set_num_threads(old)
    # the command line script on an edf series
    pool = [c for c in cases if len(c["frames"]) >= 5 and float(c["thr"]).is_integer()]
    for k in range(nscript):
        case = pool[k % len(pool)]
        others = [dict(case, thr=t) for t in (0, 3) if t != case["thr"]][:1]
        # even: --singleThread, Omega from the file headers; odd: the threaded pipeline (reader, corrector,
        # one searcher per threshold), no Omega in the headers: --start / --step
        msg = route_script(R, shadow, [case] + others, single_thread=(k % 2 == 0), header_omega=(k % 2 == 0),
                           stats=rstat)
        chk.traces += 1
        fam["route:scripts/peaksearch.py %s, .flt and .spt files judged"
            % ("--singleThread" if k % 2 == 0 else "threaded, --start/--step")] += 1
        if msg:
            report(chk, dict(case, script=("single" if k % 2 == 0 else "threaded")), [("script", msg)])
    for k, v in fam.items():
        chk.notes.setdefault("families", {})[k] = chk.notes.get("families", {}).get(k, 0) + v
    for k, v in rstat.items():
        chk.notes.setdefault("two_d_output", {})[k] = v
    return len(cases)


def _extended_series(R, chk, shadow, tier, stats):
    """instance families outside the model's constants, justified by covariance (header of Merge3D.tla):
    judged by the transcription on exact rationals + the independent flood fill"""
    import collections
    rng = random.Random(common.seed() * 104729 + 12)
    reps = 1 if tier == "quick" else 4
    cases = []
    for _ in range(reps):
        cases += value_cases(rng) + shape_cases(rng) + omega_cases(rng) + nan_cases(rng)
    cases += big_shape_cases(rng)
    nanst = collections.Counter()
    for case in cases:
        if case.get("family") == "NaN pixels":
            nanst.update(_nan_stats(case))
    for k in ("interior", "border", "touching a blob", "bridge"):
        if not nanst[k]:
            raise common.MachineryError("vacuity: family 'NaN pixels' has no NaN pixel of class %r" % k)
    chk.notes["nan_pixels"] = dict(nanst)
    fam = collections.Counter()
    nontriv = collections.Counter()
    rstat = {}
    nfail = 0
    for n, case in enumerate(cases):
        steps, final, m = model_all(case)
        if m.bad:
            raise common.MachineryError("model run-time check %r failed for %s" % (m.bad, case["origin"]))
        j = property_judge(case, [[float(x) for x in r] for (r, _a, _b, _c) in m.out]) if case.get("approx") else \
            M.judge_against_components([r for (r, _a, _b, _c) in m.out], model_frames(case), case["ns"], case["nf"],
                                       model_thr(case), omega_of(case))
        if j:
            raise common.MachineryError("transcription violates the property on %s: %s" % (case["origin"], j))
        big = case["ns"] * case["nf"] > 4096
        path = os.path.join(common.scratch(), "merged_ext.flt") if n % 3 == 0 else None
        bad = replay_behaviour(R, chk, case, steps, final, m, path=path, stats=stats)
        if not bad and not big and n % 2 == 0 and case.get("dtype", "uint16") != "float64":
            others = [dict(case, thr=t) for t in (0, 2.5) if t != case["thr"]][:1] if float(case["thr"]) >= 0 else []
            msg = guarded(route_peaksearcher, R, [case] + others, stats=rstat)
            if msg:
                bad.append(("peaksearcher", msg))
        if not bad and not big and n % 2 == 1:
            fl = 1 + (n // 2) % 8
            msg = guarded(route_labelimage, R, case, steps, final, m.out, with2d=True, flip=fl, affine=(n % 4 == 1),
                          measure=(n % 4 == 3), stats=rstat)
            if msg:
                bad.append(("labelimage(output2dpeaks, flip%d)" % fl, msg))
        fam[case["family"]] += 1
        if m.actions.get("MergeAcross", 0) > 0:
            nontriv[case["family"]] += 1
        chk.traces += 1
        chk.case(("extended", case["origin"], n), nontrivial=m.actions.get("MergeAcross", 0) > 0)
        if bad:
            report(chk, case, bad, R)
            nfail += 1
            if nfail > 10:
                break
    # the command line script on float32 fractions written as edf (the uint16 series is in _random_series)
    pool = [c for c in cases if c["family"] == "values:float32 k/8" and float(c["thr"]).is_integer()
            and len(c["frames"]) >= 2]
    if pool and tier != "quick":
        msg = route_script(R, shadow, [pool[0]], single_thread=True, stats=rstat)
        chk.traces += 1
        if msg:
            report(chk, dict(pool[0], script="single"), [("script", msg)])
    for k, v in fam.items():
        chk.notes.setdefault("families", {})[k] = "%d cases, %d with a merge across frames" % (v, nontriv[k])
        if nontriv[k] == 0 and not k.startswith("threshold<0"):
            raise common.MachineryError("vacuity: family %r has no case with a merge across frames" % k)
    for k, v in rstat.items():
        chk.notes.setdefault("two_d_output", {})["extended " + k] = v
    return len(cases)


def _large_frames(R, chk, tier):
    """the SIZE family (harness/c12_big.py): frames with >= 16384 and >= 32768 blobs / provisional labels, judged by
    the property through scipy.ndimage.label on the stacked volume"""
    fams = {}
    most, most_comp = 0, 0
    for case in BIG3D.cases(common.seed(), tier):
        msg = guarded(BIG3D.drive, R, case)
        chk.traces += 1
        chk.case(("large", case["name"]), nontrivial=True)
        if msg:
            chk.violation("labelimage (large frames, %s): %s" % (case["name"], msg),
                          {"large": {"name": case["name"], "seed": common.seed(), "tier": tier}, "route": "labelimage/large"})
            continue
        fams[case["name"]] = "blobs per frame %r, %d 3-D peaks" % (case["npks"], case["ncomp"])
        most = max([most] + case["npks"])
        most_comp = max(most_comp, case["ncomp"])
    if not chk.violations and most < 32768:
        raise common.MachineryError("vacuity: no frame of the size family carries 32768 blobs")
    chk.notes["large_frames"] = fams


def observe_histories(R, chk):
    """call orders the property does not speak about (labelimage has no reset and does not document
    them): recorded in the evidence, never judged"""
    rng = random.Random(common.seed() * 31 + 5)
    cases = handmade_cases()[:3] + [random_case(rng, k) for k in range(3)]

    def nrows(out):
        return len([l for l in out.getvalue().splitlines() if l.strip() and not l.startswith("#")])

    def drive(li, m, case, skip_merge=()):
        for k in range(len(case["frames"])):
            li.peaksearch(_frame_array(case, k, np.float32), case["thr"], api_omega(case, k))
            if k not in skip_merge:
                li.mergelast()
            if m is not None:
                m.peaksearch(case["frames"][k])
                m.mergelast()
    twice = {"cases": 0, "rows of the series": 0, "rows written again by the second finalise()": 0,
             "file == transcription (finalise re-emits the unchanged lastres with new spot3d_id)": 0}
    reuse = {"cases": 0, "rows of series A + rows of series A again, fresh objects": 0,
             "rows when the finalised object searches the series again": 0,
             "number of rows == transcription carrying on (open peaks of A are merged into B and written again)": 0}
    skip = {"cases": 0, "file == series without the overwritten frame (its neighbours merge across the gap)": 0}
    for case in cases:
        n = len(case["frames"])
        for second in ("finalise", "series"):
            out = io.StringIO()
            li = R.labelimage.labelimage((case["ns"], case["nf"]), fileout=out, sptfile=io.StringIO())
            m = new_model(case)
            drive(li, m, case)
            li.finalise()
            m.finalise()
            n1 = nrows(out)
            if second == "finalise":
                li.finalise()
                m.finalise(again=True)
                twice["cases"] += 1
                twice["rows of the series"] += n1
                twice["rows written again by the second finalise()"] += nrows(out) - n1
                twice["file == transcription (finalise re-emits the unchanged lastres with new spot3d_id)"] += int(
                    check_text(R, out.getvalue(), m.out) is None)
            else:
                m.reopen()
                drive(li, m, case)
                li.finalise()
                m.finalise()
                reuse["cases"] += 1
                reuse["rows of series A + rows of series A again, fresh objects"] += 2 * n1
                reuse["rows when the finalised object searches the series again"] += nrows(out)
                reuse["number of rows == transcription carrying on (open peaks of A are merged into B and written again)"] += int(
                    nrows(out) == len(m.out))
        if n >= 3:
            out = io.StringIO()
            li = R.labelimage.labelimage((case["ns"], case["nf"]), fileout=out, sptfile=io.StringIO())
            drive(li, None, case, skip_merge=(1,))
            li.finalise()
            c2 = dict(case, frames=[f for k, f in enumerate(case["frames"]) if k != 1],
                      omegas=[api_omega(case, k) for k in range(n) if k != 1])
            _s, _f, m2 = model_all(c2)
            skip["cases"] += 1
            skip["file == series without the overwritten frame (its neighbours merge across the gap)"] += int(
                check_text(R, out.getvalue(), m2.out) is None)
    chk.notes["observations"] = {"finalise() twice (not judged)": twice,
                                 "object used for a second series after finalise() (not judged)": reuse,
                                 "peaksearch() twice without mergelast() (not judged)": skip}


def run_replay(R, chk, shadow, path):
    with open(path) as f:
        obj = json.load(f)
    if "large" in obj["case"]:          # the size family is regenerated from its seed (the volume is not stored)
        lg = obj["case"]["large"]
        case = [c for c in BIG3D.cases(lg["seed"], lg["tier"]) if c["name"] == lg["name"]][0]
        msg = guarded(BIG3D.drive, R, case)
        chk.traces += 1
        chk.case(("replay", path))
        if msg:
            print("  violation: labelimage (large frames, %s): %s" % (lg["name"], msg))
            chk.violations.append(("labelimage (large frames, %s): %s" % (lg["name"], msg), os.path.abspath(path)))
        else:
            print("replay %s: satisfies the property on the current tree" % path)
        return
    case = obj["case"]["case"]
    steps, final, m = model_all(case)
    p = os.path.join(common.scratch(), "merged_replay.flt")
    bad = replay_behaviour(R, chk, case, steps, final, m, path=p)
    if not bad:
        for kw in ({"with2d": True}, {"measure": True}, {"flip": 1, "affine": True}, {"flip": 3}, {"flip": 4},
                   {"flip": 5}, {"flip": 6}, {"flip": 7}, {"flip": 8}):
            msg = guarded(route_labelimage, R, case, steps, final, m.out, **kw)
            if msg:
                bad.append(("labelimage(%s)" % ", ".join("%s=%r" % kv for kv in sorted(kw.items())), msg))
                break
    if not bad and case.get("dtype", "uint16") != "float64":
        msg = guarded(route_peaksearcher, R, [case])
        if msg:
            bad.append(("peaksearcher", msg))
    if not bad and "script" in obj["case"].get("route", "") and float(case["thr"]).is_integer():
        thr = case.get("script") == "threaded"
        msg = route_script(R, shadow, [case], single_thread=not thr, header_omega=not thr)
        if msg:
            bad.append(("script", msg))
    chk.traces += 1
    chk.case(("replay", path))
    if bad and bad[0][0].endswith("/property") and float(case["thr"]) < 0 and \
            classify_max_finding(chk, case, _real_rows(R, case), "%s: %s" % bad[0]):
        print("replay %s: reproduces the known finding %s" % (path, FINDING_MAX))
    elif bad and case["nf"] == 1 and ("after peaksearch" in bad[0][1] or "after connectedpixels" in bad[0][1]) and \
            classify_column_finding(R, chk, case, "%s: %s" % bad[0]):
        print("replay %s: reproduces the known finding %s" % (path, FINDING_COL))
    elif bad:
        # re-judged against the current tree: report under the replayed file (do not write a new one)
        print("  violation: %s: %s" % bad[0])
        chk.violations.append(("%s: %s" % bad[0], os.path.abspath(path)))
    else:
        print("replay %s: conforms to the model and satisfies the property on the current tree" % path)


def run(tier, replay=None):
    chk = common.Check(PROP, tier)
    shadow = common.build_shadow("normal")
    common.use_shadow(shadow)
    R = Real()
    old_threads = R.c.cimaged11_omp_get_max_threads()
    stats = {}
    try:
        # one OpenMP thread for the many tiny frames (16 spinning threads on 2x3 pixels are pure overhead);
        # a 4-thread pass is part of _random_series
        R.c.cimaged11_omp_set_num_threads(1)
        if replay:
            run_replay(R, chk, shadow, replay)
            chk.rule = "replay of one saved behaviour"
            chk.exhaustive = False
            return chk.finish()
        if tier == "quick":
            _exhaustive(R, chk, "2x3_f2", tier, stats, coverage=True, steps=True, file_every=50)
            _exhaustive(R, chk, "1x5_f2", tier, stats, coverage=False, steps=True, file_every=50)
            _exhaustive(R, chk, "2x2_thr1_q", tier, stats, coverage=False, steps=True, file_every=100)
            _exhaustive(R, chk, "1x2_f4_om", tier, stats, coverage=False, steps=True, file_every=50)
            _exhaustive(R, chk, "nan_2x3_f1", tier, stats, coverage=False, steps=True, file_every=100)
            _exhaustive(R, chk, "nan_2x3_f2", tier, stats, coverage=False, steps=True, file_every=500, kernels_every=4)
            _large_frames(R, chk, tier)
            _negative_threshold(R, chk, tier, stats)
            _simulated(R, chk, "sim_3x3", tier, stats, num=30, ntraces=120)
            _random_series(R, chk, shadow, tier, stats, count=40, nscript=2)
            _extended_series(R, chk, shadow, tier, stats)
            observe_histories(R, chk)
            chk.exhaustive = False
        else:
            _exhaustive(R, chk, "2x3_f2", tier, stats, coverage=True, steps=True, file_every=50)
            _exhaustive(R, chk, "1x5_f2", tier, stats, coverage=True, steps=True, file_every=50)
            _exhaustive(R, chk, "2x2_thr1_q", tier, stats, coverage=False, steps=True, file_every=100)
            _exhaustive(R, chk, "1x7_f2", tier, stats, coverage=True, steps=False, file_every=500)
            _exhaustive(R, chk, "2x2_thr1_f2", tier, stats, coverage=False, steps=False, file_every=2000)
            _exhaustive(R, chk, "1x5_f3", tier, stats, coverage=False, steps=False, file_every=1000)
            _exhaustive(R, chk, "2x3_f3", tier, stats, coverage=False, steps=False, file_every=5000, timeout=2400,
                        kernels_every=4)     # every behaviour through labelimage, every 4th also through the bare kernels
            _exhaustive(R, chk, "1x3_f4_om", tier, stats, coverage=False, steps=True, file_every=200)
            _exhaustive(R, chk, "nan_2x3_f1", tier, stats, coverage=False, steps=True, file_every=100)
            _exhaustive(R, chk, "nan_2x3_f2", tier, stats, coverage=True, steps=True, file_every=500)
            _exhaustive(R, chk, "nan_1x5_f3", tier, stats, coverage=False, steps=False, file_every=1000, kernels_every=4)
            _large_frames(R, chk, tier)
            _negative_threshold(R, chk, tier, stats)
            _simulated(R, chk, "sim_3x3", tier, stats, num=150, ntraces=400)
            _simulated(R, chk, "sim_4x4", tier, stats, num=100, ntraces=200)
            _random_series(R, chk, shadow, tier, stats, count=300, nscript=4)
            _extended_series(R, chk, shadow, tier, stats)
            observe_histories(R, chk)
            chk.exhaustive = False      # exhaustive on the small scopes, sampled beyond them
            selftest(R)
        for a in LIVE + ["CopyMoved"] + (["CopyCheckEmpty"] if tier == "thorough" else []):
            if not stats.get(a):
                raise common.MachineryError("vacuity: action %s never exercised by a replayed behaviour" % a)
        chk.notes["actions_in_replayed_behaviours"] = stats
        chk.notes["api_routes"] = ["labelimage.peaksearch/mergelast/finalise + outputpeaks rows + merged file text",
                                   "labelimage.output2dpeaks between peaksearch and mergelast (2-D peaks judged)",
                                   "labelimage.measurepeaks(blim=labels made by the caller)",
                                   "labelimage(flipper=flip1..8, spatial=affine stand-in): dety/detz/sc/fc columns",
                                   "cImageD11.connectedpixels/blobproperties/bloboverlaps/blob_moments",
                                   "columnfile(merged file)",
                                   "peaksearcher.peaksearch (several thresholds): .flt and .spt streams",
                                   "scripts/peaksearch.py on a fabio edf series, --singleThread with header Omega and "
                                   "threaded with --start/--step: pks_t*.flt and pks_t*.spt"]
        chk.notes["tolerances"] = ("raw sums exact, except I^2 (values beyond 2^24) and the omega sums (omega not "
                                   "float32-representable): (n+8)*2.3e-16*sum|terms|; moments 1e-9 rel + 1e-12 + "
                                   "2e-14*coordinate^2; .flt columns 0.5e-4 (%.4f), .spt columns 0.5e-6 (%f)")
        chk.assumptions = ["connectedpixels' label numbering is stated declaratively (components by first raster "
                           "pixel) and checked against the kernel at every replayed frame; its scan is C11's",
                           "pixel values and omega are judged as the float32 the wrappers make of them "
                           "(astype(float32), `real omega`, `real threshold`)",
                           "a not-a-number pixel is not above any threshold: background (Merge3D.tla Above); "
                           "infinite pixels are not in scope (their sums are undefined)",
                           "components whose summed intensity is 0 (negative threshold only) have no "
                           "intensity-weighted centroid: their centroid / width columns are not judged"]
        chk.rule = ("behaviours = all frame sequences of the TLC scopes (2x3/1x5/1x7/2x2, 1x3 or 1x2 x 4 at omega 0,2,2,1, "
                    "1x3 or 1x2 x 2 over -2..1 at threshold -2 exhaustive, 3x3/4x4 simulated) + hand-made + seeded random series up to "
                    "40 frames of 16x16 + the instance families counted in notes.families (value classes, shapes "
                    "to 2048, omega classes, NaN pixels) + 2x3 over {2, NaN} x 2 and {0, 2, NaN} x 1 exhaustive + the size "
                    "family of notes.large_frames (up to 40000 blobs on a frame, judged by scipy.ndimage.label); "
                    "non-trivial = at least one peak merged across frames")
        return chk.finish()
    finally:
        R.c.cimaged11_omp_set_num_threads(old_threads)


# ======================================================================================
# self-test of the binding

def selftest(R=None):
    if R is None:
        shadow = common.build_shadow("normal")
        common.use_shadow(shadow)
        R = Real()
    case = handmade_cases()[0]
    steps, final, m = model_all(case)
    if route_labelimage(R, case, steps, final, m.out) or route_kernels(R, case, steps, final, m.out):
        raise common.MachineryError("selftest: the reference case does not pass on this tree (run the check first)")

    def must_reject(what, fn):
        if fn() is None:
            raise common.MachineryError("selftest: %s was not rejected" % what)

    import copy
    # 1. one raw sum of the state after peaksearch
    s2 = copy.deepcopy(steps)
    s2[1][0]["res"][0, M.FI_] += 1
    must_reject("perturbed s_fI after peaksearch", lambda: route_labelimage(R, case, s2, final, m.out))
    must_reject("perturbed s_fI after blobproperties", lambda: route_kernels(R, case, s2, final, m.out))
    # 2. one label of the relabelled current frame
    s3 = copy.deepcopy(steps)
    s3[1][2]["lastbl"][2] += 1
    must_reject("perturbed relabelled pixel", lambda: route_labelimage(R, case, s3, final, m.out))
    s3 = copy.deepcopy(steps)
    s3[1][1]["blim"][2] += 1
    must_reject("perturbed label after bloboverlaps", lambda: route_kernels(R, case, s3, final, m.out))
    # 3. a zeroed (merged away) row of lastres
    s4 = copy.deepcopy(steps)
    s4[1][1]["lastres"][0, M.N_] = 3
    must_reject("perturbed zeroed row", lambda: route_labelimage(R, case, s4, final, m.out))
    must_reject("perturbed zeroed row (kernels)", lambda: route_kernels(R, case, s4, final, m.out))
    # 4. emitted rows: bounding box, max position, flag, id
    for idx, nm in ((M.BXO_, "bb_mx_o"), (M.MXF_, "mx_I_f"), (M.OOI_, "s_ooI")):
        o2 = [(list(r), a, b, c) for (r, a, b, c) in m.out]
        o2[0][0][idx] += 1
        if nm == "s_ooI":
            must_reject("perturbed " + nm, lambda: check_text(R, _text_of(R, case, steps, final, m), o2))
            must_reject("perturbed " + nm + " (kernels)", lambda: route_kernels(R, case, steps, final, o2))
        else:
            must_reject("perturbed " + nm, lambda: route_labelimage(R, case, steps, final, o2))
    o2 = [(list(r), a, 1 - b, c) for (r, a, b, c) in m.out]
    must_reject("perturbed onlast", lambda: route_labelimage(R, case, steps, final, o2))
    # 5. moments
    s5 = copy.deepcopy(steps)
    s5[-1][2]["lastres_exact"][0][M.SSI_] += 1
    must_reject("perturbed exact sum under compute_moments", lambda: route_labelimage(R, case, s5, final, m.out))
    # 6. the property judge
    rows = [list(r) for (r, _a, _b, _c) in m.out]
    if property_judge(case, rows) is not None:
        raise common.MachineryError("selftest: judge rejects the correct rows")
    must_reject("a peak split in two", lambda: property_judge(case, rows + [rows[0]]))
    r2 = [list(r) for r in rows]
    r2[0][M.I_] += 1
    must_reject("intensity not conserved", lambda: property_judge(case, r2))
    r2 = [list(r) for r in rows]
    r2[0][M.MXS_] += 1
    must_reject("max position outside the component", lambda: property_judge(case, r2))
    must_reject("a lost peak", lambda: property_judge(case, rows[1:]))
    # 6b. bounded (not exact) sums: omega that float32 cannot hold
    ca = make_case(5, 7, 0, 0, 1, handmade_like_frames(), "selftest approx", omegas=[0.1, 0.2, 0.3], approx=True)
    sa, fa, ma = model_all(ca)
    if route_labelimage(R, ca, sa, fa, ma.out) or route_kernels(R, ca, sa, fa, ma.out):
        raise common.MachineryError("selftest: the 0.1-step omega case does not pass on this tree")
    s6 = copy.deepcopy(sa)
    s6[-1][2]["lastres"][0, M.OOI_] *= 1 + 1e-9
    must_reject("omega^2 sum off by 1e-9 relative", lambda: route_labelimage(R, ca, s6, fa, ma.out))
    cb = dict(ca, omegas=[float(np.float32(o)) + 1e-7 for o in ca["omegas"]])       # not narrowed the same way
    sb, fb, mb = model_all(cb)
    must_reject("omega not narrowed to float32", lambda: route_labelimage(R, ca, sb, fb, mb.out))
    rows = [[float(x) for x in r] for (r, _a, _b, _c) in ma.out]
    if property_judge(ca, rows) is not None:
        raise common.MachineryError("selftest: approx judge rejects the correct rows")
    r2 = [list(r) for r in rows]
    r2[0][M.OI_] *= 1 + 1e-9
    must_reject("judge: omega sum off by 1e-9 relative", lambda: property_judge(ca, r2))
    # 6c. the 2-D output and the flip / spatial columns
    got = [[float(v) if v is not None else 0.0 for v in expected_2d(R, r)] for r in sa[0][0]["res_exact"]]
    if check_2d_rows(R, got, sa[0][0]["res_exact"]) is not None:
        raise common.MachineryError("selftest: check_2d_rows rejects the expected rows")
    g2 = [list(g) for g in got]
    g2[0][2] += 2e-6
    must_reject("2-D peak centroid off by 2e-6", lambda: check_2d_rows(R, g2, sa[0][0]["res_exact"]))
    must_reject("2-D peak missing", lambda: check_2d_rows(R, got[1:], sa[0][0]["res_exact"]))
    must_reject("2-D peaks without the spatial correction", lambda: check_2d_rows(R, got, sa[0][0]["res_exact"], affine=True))
    spt = ("\n\n# File x\n# Omega = 0.1\n# Omega = 0.100000\n# Threshold = 0.000000\n# npks = %d\n" % len(got) +
           "# Threshold level 0.000000\n# t\n" + "".join(" ".join("%f" % v for v in g) + "\n" for g in got))
    if check_spt(R, spt, ca, sa[:1], "selftest") is not None:
        raise common.MachineryError("selftest: check_spt rejects a correct stream: %s" % check_spt(R, spt, ca, sa[:1], "selftest"))
    must_reject(".spt npks", lambda: check_spt(R, spt.replace("# npks = %d" % len(got), "# npks = 99"), ca, sa[:1], "x"))
    must_reject(".spt omega", lambda: check_spt(R, spt.replace("# Omega = 0.100000", "# Omega = 0.200000"), ca, sa[:1], "x"))
    must_reject(".spt lost frame", lambda: check_spt(R, spt, ca, sa[:2], "x"))
    cf = make_case(5, 7, 0, 0, 1, handmade_like_frames(), "selftest flips")
    sf, ff, mf = model_all(cf)
    for fl in range(1, 9):
        if route_labelimage(R, cf, sf, ff, mf.out, flip=fl, affine=True) is not None:
            raise common.MachineryError("selftest: flip%d does not pass on this tree" % fl)
        text = _text_of(R, cf, sf, ff, mf, flip=fl)
        for other in range(1, 9):
            if other != fl:
                must_reject("flip%d read as flip%d" % (fl, other), lambda: check_text(R, text, mf.out, flip=other))
    must_reject("affine corrector ignored", lambda: check_text(R, _text_of(R, cf, sf, ff, mf), mf.out, affine=True))
    # 6d. the judgement used for the known finding differs from the strict one only where it should
    cn = make_case(1, 3, -2, 0, 1, [[-2, -2, -1], [1, -2, -1]], "selftest negative threshold")
    good = [[float(x) for x in r] for (r, _a, _b, _c) in M.run_model(cn["frames"], 1, 3, -2, omega_of(cn), maxfix=True).out]
    asis = [[float(x) for x in r] for (r, _a, _b, _c) in M.run_model(cn["frames"], 1, 3, -2, omega_of(cn)).out]
    if property_judge(cn, good, asis=False) is not None or property_judge(cn, asis, asis=True) is not None:
        raise common.MachineryError("selftest: negative threshold rows rejected by their own judgement")
    must_reject("max pixel 0 for a blob of -1 (strict judgement)", lambda: property_judge(cn, asis, asis=False))
    a2 = [list(r) for r in asis]
    a2[0][M.I_] += 1
    must_reject("as-is judgement: intensity", lambda: property_judge(cn, a2, asis=True))
    # 6e. not-a-number pixels: rows of a labelling that lets the NaN through (here: reads it as 7) are rejected
    cn = make_case(3, 4, 1, 0, 1, [[5, 0, 0, 0, 0, NAN, 6, 0, 0, 0, 0, 0], [0, 0, 0, 0, 0, 0, NAN, 0, 0, 0, 0, 9]],
                   "selftest NaN", dtype="float32")
    sn, fn, mn = model_all(cn)
    if route_labelimage(R, cn, sn, fn, mn.out) or route_kernels(R, cn, sn, fn, mn.out):
        raise common.MachineryError("selftest: the NaN case does not pass on this tree (run the check first)")
    rows = [[float(x) for x in r] for (r, _a, _b, _c) in mn.out]
    if len(rows) != 3 or property_judge(cn, rows) is not None:
        raise common.MachineryError("selftest: judge rejects the correct rows of the NaN case")
    c7 = dict(cn, frames=[[7 if v != v else v for v in f] for f in cn["frames"]])
    s7, f7, m7 = model_all(c7)
    must_reject("NaN read as foreground (judge)",
                lambda: property_judge(cn, [[float(x) for x in r] for (r, _a, _b, _c) in m7.out]))
    must_reject("NaN read as foreground (labelimage)", lambda: route_labelimage(R, cn, s7, f7, m7.out))
    must_reject("NaN sums", lambda: property_judge(cn, [rows[0][:1] + [NAN] + rows[0][2:]] + rows[1:]))
    # 6f. the judge of the size family
    rng = np.random.RandomState(5)
    big = BIG3D.noise(rng, 40, 3, 0.2)
    if BIG3D.drive(R, big) is not None:
        raise common.MachineryError("selftest: the small instance of the size family does not pass on this tree")
    exp, lab = BIG3D.component_rows(big["vol"], big["omegas"], big["thr"])
    full = np.zeros((len(exp), M.NROW))
    full[:, BIG3D.CORE] = exp
    om = np.asarray(big["omegas"], float)
    for j in range(len(exp)):
        o_, s_, f_ = [a[0] for a in np.nonzero((lab == j + 1) & (big["vol"] == exp[j, 12]))]
        full[j, [M.MXO_, M.MXS_, M.MXF_]] = om[o_], s_, f_
    if BIG3D.judge(full, big["vol"], big["omegas"], big["thr"]) is not None:
        raise common.MachineryError("selftest: the size judge rejects the components' own rows")
    must_reject("size judge: a lost peak", lambda: BIG3D.judge(full[1:], big["vol"], big["omegas"], big["thr"]))
    f2 = full.copy()
    f2[0, M.N_] += 1
    f2[1, M.N_] -= 1
    must_reject("size judge: a pixel moved between peaks", lambda: BIG3D.judge(f2, big["vol"], big["omegas"], big["thr"]))
    f2 = full.copy()
    f2[0, M.BXS_] += 1
    must_reject("size judge: bounding box", lambda: BIG3D.judge(f2, big["vol"], big["omegas"], big["thr"]))
    f2 = full.copy()
    f2[0, [M.MXO_, M.MXS_, M.MXF_]] = f2[1, [M.MXO_, M.MXS_, M.MXF_]]
    must_reject("size judge: maximum position of another peak", lambda: BIG3D.judge(f2, big["vol"], big["omegas"], big["thr"]))
    f2 = np.concatenate([full[2:], [full[0] + full[1]]])
    must_reject("size judge: two peaks merged", lambda: BIG3D.judge(f2, big["vol"], big["omegas"], big["thr"]))
    # 7. transcription vs TLC: a perturbed TLC record must be noticed
    res = common.run_tlc(SPEC, "%s_1x5_f2.cfg" % SPEC, workers=4, timeout=600)
    recs, _ = _parse_printed(res)
    for d in recs:
        if "npk" in d and d["k"] == "idle" and d["lastres"]:
            d["lastres"][0][3] += 1
            break
    try:
        crosscheck_steps(recs, "1x5_f2")
    except common.MachineryError:
        pass
    else:
        raise common.MachineryError("selftest: perturbed TLC observable state was not noticed by the cross-check")
    return True


def handmade_like_frames():
    return [[0, 3, 4, 0, 0, 0, 1] + [0, 5, 9, 2, 0, 0, 0] + [0] * 7 + [0, 0, 0, 0, 6, 7, 0] + [0] * 7,
            [0, 0, 2, 0, 0, 0, 1] + [0, 4, 8, 3, 0, 0, 0] + [0] * 7 + [0, 0, 0, 0, 0, 5, 1] + [0] * 7,
            [0] * 7 + [0, 0, 7, 0, 0, 0, 0] + [0] * 7 + [0, 0, 0, 0, 0, 0, 2] + [0, 0, 0, 0, 0, 0, 3]]


def _text_of(R, case, steps, final, m, flip=None):
    out = io.StringIO()
    kw = {"flipper": getattr(R.labelimage, "flip%d" % flip)} if flip is not None else {}
    li = R.labelimage.labelimage((case["ns"], case["nf"]), fileout=out, sptfile=io.StringIO(), **kw)
    for k in range(len(case["frames"])):
        li.peaksearch(_frame_array(case, k, np.float64), case["thr"], api_omega(case, k))
        li.mergelast()
    li.finalise()
    return out.getvalue()

"""C10 - finite strain tensors are objective, symmetric and exact for known deformations.

Specification : specs/Strain.tla, two machines over one algebra, binding mode A (case / behaviour oracle).
Helpers       : harness/c10_exact.py (exact fractions, oracle of one deformation), harness/c10_hist.py (histories).

Machine Spec (configs Strain_q.cfg / Strain_t.cfg) - CASES.  TLC enumerates reference lattice x reference
orientation x stretch x rotation, computes the Seth-Hill tensors E_ref(m), E_lab(m) (2m in -2,-1,1,2,3,4) in exact
rational arithmetic along the code's own path (F = ubi^T.ub0^T, even/odd branches), checks the property's laws as
invariants and prints one JSON record per case.  This module replays every record into the real code:

  grain.eps_grain / eps_grain_matrix / eps_sample / eps_sample_matrix
        reference = 6-parameter cell, = reference grain, = re-oriented reference grain, all seven m
  finite_strain.DeformationGradientTensor(arrays | grains | grain + array | array + grain): ONE object for all m,
        ref and lab interleaved and asked twice, .F .U .VRS before and after
  e6 ordering (symm_to_e6 / e6_to_symm of both modules)
  tensor_map.ubi_and_unitcell_to_eps_sample/_crystal, tensor_crystal_to_sample/_sample_to_crystal
        (vectorised over all cases, NaN-masked voxels; one (6,) cell broadcast over a (2,k,3,3) stack; bare (3,3);
        explicit dirty output buffer)
  tensor_map.TensorMap.eps_sample / eps_crystal (computed from UBI and derived from one another), eps_hydro,
        eps_devia on a two-layer map whose phases dictionary has ids 2, 5, 8.. inserted in descending order, with
        masked voxels and voxels whose phase id has no reference
  the first-order clause judged on what the code returned (all pairs of m of one route within K2.r^2)
  small-strain family (harness side, covariant: the model is exact for any rational stretch): per record one member
        S' = I + (S - I)/100 or /10^4 (strains 1e-3 / 1e-5) from python fractions (m = 0: exact Mercator series),
        judged at 1e-9 of the strain + 3e-14 through the grain routes, DeformationGradientTensor and the kernels

  DECORATION (no expected value depends on it): three of four grains of this replay carry a ref_unitcell - what
        indexing.do_index(unitcell=..) and the dataset loaders attach to every grain - equal to the reference of the
        requests or a nominal cell 0.05-0.4 % away from it, attached at construction or after the first request;
        two of three reference grains carry one too; names, filled caches; the small-strain grains carry the
        nominal cell while the request gives the refined one; TensorMaps whose phases dictionary holds nominal
        cells while the reference is handed over as an explicit dzero_unitcell map (at construction / by add_map)

Machine HSpec (configs Strain_hist_q/_hist_t [tlc -simulate, VERIF_SEED], Strain_map_t [exhaustive, thorough],
Strain_mapfail [exhaustive, both tiers], Strain_map_asis [expected violation]) - HISTORIES on one object; law: every answer is the exact tensor of the CURRENT
state SEEN FROM THE REFERENCE GIVEN IN THE REQUEST - nothing else the objects carry, nothing asked before.  Each
printed history is replayed on one real grain (+ one reference grain object, + one DeformationGradientTensor object)
or one real TensorMap (see c10_hist.py): strain requests interleaved with set_ubi, new / re-oriented reference
grains, other m and frames, reference cells of another scale k.L0 (the same grain then has the stretch S/k; k = 11/10,
9/10, lifted: 501/500, 499/500), reference grains of another cell, ref_unitcell objects attached to the grain / the
reference grain (equal to or different from the reference given, before or after the first request, at
construction), cached properties read and bookkeeping attributes set in between; DeformationGradientTensor built
from such grains; TensorMap reads of eps_sample / eps_crystal / eps_hydro / eps_devia interleaved with a new UBI map
assigned by setter / item / add_map, an explicit dzero_unitcell map handed over (construction / item / add_map, while
no strain map is cached) next to nominal cells in the phases dictionary, reads of the other computed maps, on
multi-phase maps with arbitrary phase-id dictionaries.  Grain histories are replayed a second time lifted onto the
records of machine Spec (triclinic references, Pythagorean orientations, near-by cell scales).
REQUESTS THAT RAISE (law: a request that raises leaves no trace; the object answers afterwards as if it had never been
made): the histories contain strain requests the code cannot answer - a TensorMap built without a phase_ids map (what
TensorMap.from_ubis / from_pbpmap hand out), with a phase_ids map of another shape, with a phases entry that is no
unitcell object, or holding a malformed UBI map (flattened / None) assigned on the way: eps_sample / eps_crystal /
eps_hydro / eps_devia / dzero_unitcell raise; then the map is completed (phase_ids by item / add_map, the phases entry,
an explicit dzero_unitcell map, a proper UBI map) and read; grain.eps_* with a reference that is no cell (five
parameters, None, degenerate), a singular reference grain, an m that is no multiple of 1/2; DeformationGradientTensor
from a flattened ubi / None / a singular ub0 asked for m = -1, an existing one asked for such an m - followed by the
ordinary requests.  Strain_mapfail.cfg enumerates every TensorMap history of 3 operations of this kind; those in which
a request that raised is followed by one that is answered are all replayed.  Whether the code raises is counted, not
judged (the property does not say so); the answers that follow are judged as always.

Findings: TensorMap.clear_cache kept the eps maps (repaired in /repo by e29c99a), so after a new UBI map was assigned
they still showed the old one (STALE_FINDING_ID): the model of the code as it was (Strain_map_asis.cfg) violates
MapAsIsCurrent, the counterexample and every drawn history are replayed; a failing read is in the class iff it equals,
voxel for voxel, the value that model predicts and that differs from the property's.  With a `finding` entry in
known_findings.json the class is reported as KNOWN-FINDING, otherwise as VIOLATION.
Not modelled: an explicit dzero_unitcell map handed over while strain maps are cached (add_map clears caches for
"UBI" only; the property does not say what the cached maps should show).

m = 0 (logarithmic strain) and the B matrix of the strained cell (needed for the map's U) are irrational:
they are finished here from the exact S, R, UB that the specification emits.
VERIF_TLC_WORKERS lowers the number of TLC workers of the exhaustive runs (default 16).
"""
from __future__ import print_function
import os, sys, json, math, io, contextlib, copy, random
from fractions import Fraction as Fr
import numpy as np
import common

PROP = "C10"
FINDING_ID = "C10-tensormap-eps-sample-from-crystal"
STALE_FINDING_ID = "C10-tensormap-eps-maps-survive-ubi-assignment"
MAXV_PER_ROUTE = 2


from c10_exact import (fm, fI, fmm, ft, finv, fsub, fscale, fconj, fconjT, seth_hill, f2np, is_diag, rownorm,
                       OracleMismatch, U0P, PERM, ExactState, Oracle, shrink, close, e6, MS2)
import c10_exact as X
import c10_hist as H


ALLM = [-1.0, -0.5, 0.0, 0.5, 1.0, 1.5, 2.0]


# ----------------------------------------------------------------------------------------------
# replay of records against the real code

def private_shadow():
    """common.build_shadow() keeps only the 6 most recent builds; with several checks running
    concurrently the shared directory can be pruned while this check is still importing from it
    (and the editable install of /repo would then silently take over).  Work on a private copy
    (the .so + the same symlinks) under common.scratch()."""
    import shutil
    last = None
    for attempt in range(4):
        try:
            shadow = common.build_shadow("normal")
            dst = os.path.join(common.scratch(), "shadow_c10_%d" % attempt)
            pk = os.path.join(dst, "ImageD11")
            os.makedirs(pk)
            n_so = 0
            for e in os.listdir(os.path.join(shadow, "ImageD11")):
                src = os.path.join(shadow, "ImageD11", e)
                if os.path.islink(src):
                    os.symlink(os.readlink(src), os.path.join(pk, e))
                else:
                    shutil.copy(src, os.path.join(pk, e))
                    n_so += e.endswith(".so")
            if n_so and os.path.exists(os.path.join(pk, "__init__.py")):
                return dst
            last = "incomplete shadow %s" % shadow
        except (OSError, IOError) as e:
            last = repr(e)
    raise common.MachineryError("could not take a private copy of the shadow package: %s" % last)


_loaded = []


def load_modules():
    """import everything the replay touches right after use_shadow() and make sure the python
    sources really are those of the tree under test (the shadow directory is shared between
    concurrent checks; its symlinks follow whoever built last)"""
    if _loaded:
        return
    import ImageD11.grain, ImageD11.finite_strain, ImageD11.unitcell
    import ImageD11.sinograms.tensor_map as tmod
    root = os.path.realpath(common.REPO) + os.sep
    for mod in (ImageD11.grain, ImageD11.finite_strain, ImageD11.unitcell, tmod):
        src = os.path.realpath(mod.__file__)
        if not src.startswith(root):
            raise common.MachineryError("%s was imported from %s, not from the tree under test %s" %
                                        (mod.__name__, src, root))
    _loaded.append(True)


FLOOR = 1e-12            # absolute floor of the comparisons at strains of 5-10 % (tolerance line of CONVENTIONS.md)
FLOOR_SMALL = 3e-14      # small-strain family and exact zeros: 128 ulp(1), the rounding of the O(1) entries of F
                         # (largest deviation measured on the unchanged tree: 3.3e-15)
SHRINKS = (100, 10000)   # S' = I + (S - I)/k : strains of 1e-3 and 1e-5


class Replayer(object):
    def __init__(self, perturb=None):
        load_modules()
        import ImageD11.grain, ImageD11.finite_strain, ImageD11.unitcell
        import ImageD11.sinograms.tensor_map as tmod
        self.grain = ImageD11.grain
        self.fs = ImageD11.finite_strain
        self.unitcell = ImageD11.unitcell
        self.tm = tmod
        self.perturb = perturb        # selftest hook: name of the expected value to corrupt
        self.failures = []            # (route, index, detail)
        self.ncmp = 0
        self.fam = {"small_strain_cases": 0, "small_strain_comparisons": 0, "first_order_pairs_judged": 0,
                    "first_order_pairs_bound_below_strain": 0, "one_dgt_object_all_m": 0, "dgt_mixed_arguments": 0,
                    "broadcast_single_cell_stacks": 0, "bare_3x3_calls": 0, "dirty_output_buffer_calls": 0,
                    "multi_layer_map_voxels": 0, "orphan_voxels_in_TensorMap": 0, "exact_zero_comparisons": 0,
                    # the decorate dimension (what an object carries is no argument of a strain request)
                    "grains_carrying_the_reference_cell": 0, "grains_carrying_another_cell_from_construction": 0,
                    "grains_carrying_another_cell_attached_after_first_request": 0,
                    "reference_grains_carrying_another_cell": 0, "reference_grains_carrying_their_own_cell": 0,
                    "small_strain_grains_carrying_the_nominal_cell": 0,
                    "TensorMap_explicit_dzero_map_voxels": 0}
        self.ncarried = 0
        self.index0 = 0               # --replay: position the saved record had in its run (selects its decoration)

    def mods(self):
        return {"grain": self.grain, "fs": self.fs, "unitcell": self.unitcell, "tm": self.tm}

    NEAR = (1.002, 0.9985, 1.0005, 0.996)     # a nominal phase cell next to the refined strain-free cell

    def near_cell(self, cell, i):
        k = self.NEAR[i % len(self.NEAR)]
        return [cell[0] * k, cell[1] * k, cell[2] * k, cell[3], cell[4], cell[5]]

    def carried(self, cell):
        """the unitcell object an indexer / a dataset loader attaches to the grains it hands out (grain.ref_unitcell):
        the phase's cell with a lattice symmetry or a space group number and a name"""
        self.ncarried += 1
        i = self.ncarried
        return self.unitcell.unitcell(list(cell), symmetry=["P", 1, "F", 225, "I", 194][i % 6], name="phase%d" % (i % 4))

    def cmp(self, route, idx, got, exp, m=None, floor=None):
        self.ncmp += 1
        if floor is None:
            floor = FLOOR
            if not np.asarray(exp, float).any():      # "vanish exactly": judged at the rounding floor
                floor = FLOOR_SMALL
                self.fam["exact_zero_comparisons"] += 1
        if not close(got, exp, floor=floor):
            self.failures.append((route, idx, {"m": m, "got": np.asarray(got, float).tolist(),
                                               "expected": np.asarray(exp, float).tolist()}))
            return False
        return True

    def cmp_sym(self, route, idx, t, exp, m=None, floor=FLOOR):
        self.ncmp += 1
        t = np.asarray(t, float)
        scale = np.abs(exp).max()
        if not (np.abs(t - t.T) <= 1e-9 * scale + floor).all():
            self.failures.append((route, idx, {"m": m, "got": t.tolist(), "expected": "symmetric"}))

    def first_order(self, route, idx, o, tens, floor):
        """the property's first-order clause on what the CODE returned: for all pairs m, m' the tensors of one
        route differ by at most K2.r^2 entrywise (r = max row sum of e = S - I >= spectral radius; spectral
        calculus, Strain.tla FirstOrder: |E_m - e| <= (K2/2) r^2 in the 2-norm, which no rotation changes;
        K2 = 5 for r <= 1/10, 14 for r <= 3/10)"""
        r = float(o.rn)
        k2 = 5.0 if o.rn <= Fr(1, 10) else 14.0
        bound = k2 * r * r
        ms = sorted(tens)
        worst, pair = 0.0, None
        for i in range(len(ms)):
            for j in range(i + 1, len(ms)):
                d = float(np.abs(np.asarray(tens[ms[i]]) - np.asarray(tens[ms[j]])).max())
                self.fam["first_order_pairs_judged"] += 1
                if d > worst:
                    worst, pair = d, (ms[i], ms[j])
        self.fam["first_order_pairs_bound_below_strain"] += (len(ms) * (len(ms) - 1) // 2) * (0 < bound < r)
        self.ncmp += 1
        if not worst <= bound * (1 + 1e-9) + floor:
            self.failures.append((route, idx, {"m": list(pair), "got": worst, "expected": "<= %.6g" % bound}))

    # ---- per grain routes
    def per_case(self, idx, o):
        G = self.grain.grain
        g = G(o.ubi_f)
        g0 = G(o.ubi0_f)
        g0p = G(f2np(fmm(o.L0, ft(U0P))))
        Qp = fmm(o.U0, ft(U0P))
        cell = list(o.cell)
        pert = self.perturb
        # DECORATION (no expectation below depends on it): the objects carry a ref_unitcell - as the grains of
        # indexing.do_index(unitcell=..) and of the dataset loaders do - equal to the reference of the requests or a
        # nominal cell 0.05-0.4 % away from it, attached at construction or after the first request; names, filled
        # caches
        di = idx + self.index0
        dk = di % 4                      # grain: bare | the reference cell | another cell | another cell, attached later
        rkd = (di // 4) % 3              # reference grains: bare | another cell | their own cell
        near = self.near_cell(cell, di // 12)
        if dk == 1:
            g.ref_unitcell = self.carried(cell)
            self.fam["grains_carrying_the_reference_cell"] += 1
        elif dk == 2:
            g.ref_unitcell = self.carried(near)
            g.name = "phase1:%d" % di
            self.fam["grains_carrying_another_cell_from_construction"] += 1
        if rkd == 1:
            g0.ref_unitcell = self.carried(near)
            g0p.ref_unitcell = self.carried(self.near_cell(cell, di // 12 + 1))
            g0.U, g0p.B, g0.unitcell
            self.fam["reference_grains_carrying_another_cell"] += 1
        elif rkd == 2:
            g0.ref_unitcell = self.carried(cell)
            g0p.ref_unitcell = g0.ref_unitcell
            self.fam["reference_grains_carrying_their_own_cell"] += 1
        if di % 5 == 0:
            g.U, g.B, g.unitcell, g.rmt              # caches of the grain filled before the first request
        # ONE DeformationGradientTensor object for the whole m loop (its _svd / _vrs caches are shared by every
        # m and both frames), F / U / VRS read before and after
        D = self.fs.DeformationGradientTensor(o.ubi_f, o.ub0_f)
        expF = o.Ff if pert != "F_transposed" else o.Ff.T
        self.cmp("DeformationGradientTensor.F", idx, D.F, expF)
        self.fam["one_dgt_object_all_m"] += 1
        tens_ref, tens_lab = {}, {}
        for m in ALLM:
            exp_ref = o.ref(m)
            exp_ref_cell = o.ref(m, o.U0)
            exp_ref_p = o.ref(m, Qp)
            exp_lab = o.lab(m)
            if pert == "eref" and m == 1.0:
                exp_ref = exp_ref.copy()
                exp_ref[0, 1] += 1e-6
                exp_ref[1, 0] += 1e-6
            if pert == "lab_transposed":
                exp_lab = np.dot(np.dot(o.Rf.T, o.ref(m)), o.Rf)
            # A: reference = 6 cell parameters (frame of the unrotated reference cell)
            em = g.eps_grain_matrix(cell, m)
            self.cmp("grain.eps_grain_matrix(cell)", idx, em, exp_ref_cell, m)
            self.cmp("grain.eps_grain(cell) e6", idx, g.eps_grain(np.array(cell), m), e6(exp_ref_cell), m)
            sm = g.eps_sample_matrix(cell, m)
            self.cmp("grain.eps_sample_matrix(cell)", idx, sm, exp_lab, m)
            tens_ref[m], tens_lab[m] = em, sm
            x6 = e6(exp_lab)
            if pert == "e6order":
                x6 = x6[[0, 1, 2, 4, 3, 5]]
            self.cmp("grain.eps_sample(cell) e6", idx, g.eps_sample(cell, m), x6, m)
            # B: reference = the reference grain
            self.cmp("grain.eps_grain_matrix(grain)", idx, g.eps_grain_matrix(g0, m), exp_ref, m)
            self.cmp("grain.eps_grain(grain) e6", idx, g.eps_grain(g0, m), e6(exp_ref), m)
            self.cmp("grain.eps_sample_matrix(grain)", idx, g.eps_sample_matrix(g0, m), exp_lab, m)
            self.cmp("grain.eps_sample(grain) e6", idx, g.eps_sample(g0, m), e6(exp_lab), m)
            # D: the same grain against a re-oriented reference grain: lab unchanged, ref conjugated
            self.cmp("grain.eps_grain_matrix(rotated reference grain)", idx,
                     g.eps_grain_matrix(g0p, m), exp_ref_p, m)
            self.cmp("grain.eps_sample_matrix(rotated reference grain)", idx,
                     g.eps_sample_matrix(g0p, m), exp_lab, m)
            # symmetry (exact in the property; floats: to rounding at the tensor's scale)
            self.cmp_sym("symmetry of grain.eps_grain_matrix", idx, em, exp_ref_cell, m)
            self.cmp_sym("symmetry of grain.eps_sample_matrix", idx, sm, exp_lab, m)
            # C: DeformationGradientTensor directly (the shared object, ref and lab interleaved)
            self.cmp("DeformationGradientTensor.finite_strain_ref", idx, D.finite_strain_ref(m), exp_ref, m)
            self.cmp("DeformationGradientTensor.finite_strain_lab", idx, D.finite_strain_lab(m), exp_lab, m)
            if dk == 3 and m == ALLM[0]:
                g.ref_unitcell = self.carried(near)          # attached after the first requests were answered
                self.fam["grains_carrying_another_cell_attached_after_first_request"] += 1
        # the same object again, the other way round (every cache is filled now)
        for m in reversed(ALLM):
            self.cmp("DeformationGradientTensor.finite_strain_lab [asked again]", idx, D.finite_strain_lab(m), o.lab(m), m)
            self.cmp("DeformationGradientTensor.finite_strain_ref [asked again]", idx, D.finite_strain_ref(m), o.ref(m), m)
        self.first_order("first order agreement of grain.eps_grain_matrix(cell) over m", idx, o, tens_ref, FLOOR)
        self.first_order("first order agreement of grain.eps_sample_matrix(cell) over m", idx, o, tens_lab, FLOOR)
        # defaults: m = 1/2
        self.cmp("grain.eps_grain(cell) default m", idx, g.eps_grain(cell), e6(o.ref(0.5, o.U0)))
        self.cmp("grain.eps_sample(grain) default m", idx, g.eps_sample(g0), e6(o.lab(0.5)))
        # polar decomposition (after the strains were asked) and F untouched
        self.cmp("DeformationGradientTensor.F", idx, D.F, expF)
        D2 = self.fs.DeformationGradientTensor(g, g0)
        self.cmp("DeformationGradientTensor(grain, grain).F", idx, D2.F, o.Ff)
        self.cmp("DeformationGradientTensor(grain, array).F", idx,
                 self.fs.DeformationGradientTensor(g, o.ub0_f).F, o.Ff)
        D4 = self.fs.DeformationGradientTensor(o.ubi_f, g0)
        self.cmp("DeformationGradientTensor(array, grain).F", idx, D4.F, o.Ff)
        self.cmp("DeformationGradientTensor(array, grain).finite_strain_ref", idx, D4.finite_strain_ref(1.5), o.ref(1.5), 1.5)
        self.fam["dgt_mixed_arguments"] += 2
        self.cmp("DeformationGradientTensor.U", idx, D.U, o.Rf)
        V, Rr, Ss = D.VRS
        self.cmp("DeformationGradientTensor.VRS[V]", idx, V, o.Vf)
        self.cmp("DeformationGradientTensor.VRS[R]", idx, Rr, o.Rf)
        self.cmp("DeformationGradientTensor.VRS[S]", idx, Ss, o.Sf)
        # a fresh object: polar factors BEFORE any strain was asked
        D5 = self.fs.DeformationGradientTensor(o.ubi_f, o.ub0_f)
        V, Rr, Ss = D5.VRS
        self.cmp("DeformationGradientTensor.VRS[V]", idx, V, o.Vf)
        self.cmp("DeformationGradientTensor.U", idx, D5.U, o.Rf)
        self.cmp("DeformationGradientTensor.finite_strain_lab", idx, D5.finite_strain_lab(0.0), o.lab(0.0), 0.0)
        self.cmp("DeformationGradientTensor(grain, grain) default m", idx, D2.finite_strain_lab(), o.lab(0.5))
        # e6 helpers of both modules
        t = o.lab(2.0)
        for mod, nm in ((self.grain, "grain"), (self.fs, "finite_strain")):
            v = mod.symm_to_e6(t)
            self.cmp(nm + ".symm_to_e6", idx, v, e6(t))
            self.cmp(nm + ".e6_to_symm", idx, mod.e6_to_symm(v), t)

    def per_case_small(self, idx, s):
        """small-strain member of the family (S' = I + e/k, harness-side exact fractions): exact values at
        1e-9 of the strain + FLOOR_SMALL, first-order clause on the code's output"""
        G = self.grain.grain
        g = G(s.ubi_f)
        g0 = G(s.ubi0_f)
        cell = list(s.cell)
        n0 = self.ncmp
        di = idx + self.index0
        if di % 2 == 0:
            # the usual situation: the grain knows the NOMINAL cell of its phase, the request gives the refined
            # strain-free cell (0.05-0.4 % away: more than the strains asked for here)
            g.ref_unitcell = self.carried(self.near_cell(cell, di // 2))
            self.fam["small_strain_grains_carrying_the_nominal_cell"] += 1
        if di % 3 == 0:
            g0.ref_unitcell = self.carried(self.near_cell(cell, di // 3 + 1))
        D = self.fs.DeformationGradientTensor(g if di % 4 == 0 else s.ubi_f, g0 if di % 4 == 2 else s.ub0_f)
        tr, tl, tg = {}, {}, {}
        for m in ALLM:
            exp_lab = s.lab(m)
            if self.perturb == "small" and m == 0.5:
                exp_lab = exp_lab * (1 + 1e-6)
            tr[m] = g.eps_grain_matrix(cell, m)
            tl[m] = g.eps_sample_matrix(cell, m)
            tg[m] = g.eps_grain_matrix(g0, m)
            self.cmp("small strain: grain.eps_grain_matrix(cell)", idx, tr[m], s.ref(m, s.U0), m, FLOOR_SMALL)
            self.cmp("small strain: grain.eps_sample_matrix(cell)", idx, tl[m], exp_lab, m, FLOOR_SMALL)
            self.cmp("small strain: grain.eps_grain_matrix(grain)", idx, tg[m], s.ref(m), m, FLOOR_SMALL)
            self.cmp("small strain: grain.eps_sample(grain) e6", idx, g.eps_sample(g0, m), e6(s.lab(m)), m, FLOOR_SMALL)
            self.cmp("small strain: DeformationGradientTensor.finite_strain_ref", idx, D.finite_strain_ref(m),
                     s.ref(m), m, FLOOR_SMALL)
            self.cmp_sym("small strain: symmetry of grain.eps_sample_matrix", idx, tl[m], exp_lab, m, FLOOR_SMALL)
        self.first_order("small strain: first order agreement of grain.eps_grain_matrix(cell) over m", idx, s, tr, FLOOR_SMALL)
        self.first_order("small strain: first order agreement of grain.eps_sample_matrix(cell) over m", idx, s, tl, FLOOR_SMALL)
        self.first_order("small strain: first order agreement of grain.eps_grain_matrix(grain) over m", idx, s, tg, FLOOR_SMALL)
        self.fam["small_strain_cases"] += 1
        self.fam["small_strain_comparisons"] += self.ncmp - n0

    # ---- vectorised routes (m = 1/2), all cases in one call, with masked voxels
    def batch(self, oracles, smalls=()):
        tm = self.tm
        n = len(oracles)
        pad = 3
        N = n + pad
        ubis = np.full((N, 3, 3), np.nan)
        cells = np.full((N, 6), np.nan)
        for i, o in enumerate(oracles):
            ubis[i] = o.ubi_f
            cells[i] = o.cell
        # voxel n: ubi NaN + cell NaN ; n+1 : ubi valid, cell NaN ; n+2 : ubi NaN, cell valid
        ubis[n + 1] = oracles[0].ubi_f
        cells[n + 2] = oracles[0].cell
        nan33 = np.full((3, 3), np.nan)
        es = tm.ubi_and_unitcell_to_eps_sample(ubis, cells)
        ec = tm.ubi_and_unitcell_to_eps_crystal(ubis, cells)
        # the same call into an explicit, dirty output buffer (every voxel must be written, NaN arms included)
        es_d = np.full((N, 3, 3), 7.25e300)
        ec_d = np.full((N, 3, 3), -3.5e-300)
        r1 = tm.ubi_and_unitcell_to_eps_sample(ubis, cells, es_d)
        r2 = tm.ubi_and_unitcell_to_eps_crystal(ubis, cells, ec_d)
        self.fam["dirty_output_buffer_calls"] += 2
        if r1 is not None and r1 is not es_d:
            es_d = np.asarray(r1)
        if r2 is not None and r2 is not ec_d:
            ec_d = np.asarray(r2)
        for i, o in enumerate(oracles):
            exp_lab = o.lab(0.5)
            if self.perturb == "map":
                exp_lab = exp_lab + 1e-7
            self.cmp("tensor_map.ubi_and_unitcell_to_eps_sample", i, es[i], exp_lab, 0.5)
            self.cmp("tensor_map.ubi_and_unitcell_to_eps_crystal", i, ec[i], o.ref(0.5, o.U0), 0.5)
            self.cmp("tensor_map.ubi_and_unitcell_to_eps_sample [dirty output buffer]", i, es_d[i], o.lab(0.5), 0.5)
            self.cmp("tensor_map.ubi_and_unitcell_to_eps_crystal [dirty output buffer]", i, ec_d[i], o.ref(0.5, o.U0), 0.5)
        for j in range(n, N):
            self.cmp("tensor_map.ubi_and_unitcell_to_eps_sample NaN mask", 0, es[j], nan33)
            self.cmp("tensor_map.ubi_and_unitcell_to_eps_crystal NaN mask", 0, ec[j], nan33)
            self.cmp("tensor_map.ubi_and_unitcell_to_eps_sample NaN mask [dirty output buffer]", 0, es_d[j], nan33)
            self.cmp("tensor_map.ubi_and_unitcell_to_eps_crystal NaN mask [dirty output buffer]", 0, ec_d[j], nan33)
        # call shapes: ONE (6,) reference cell broadcast over a (2, k, 3, 3) stack of the cases that share it
        # (a NaN voxel inside), and bare (3, 3) + (6,) calls
        bycell = {}
        for i, o in enumerate(oracles):
            bycell.setdefault(tuple(o.cell), []).append(i)
        for key in sorted(bycell):
            idxs = bycell[key]
            k = (len(idxs) + 2) // 2
            stack = np.full((2 * k, 3, 3), np.nan)
            for j, i in enumerate(idxs):
                stack[j] = oracles[i].ubi_f
            stack = stack.reshape(2, k, 3, 3)
            c6 = np.array(key, float)
            s1 = tm.ubi_and_unitcell_to_eps_sample(stack, c6).reshape(2 * k, 3, 3)
            c1 = tm.ubi_and_unitcell_to_eps_crystal(stack, c6).reshape(2 * k, 3, 3)
            self.fam["broadcast_single_cell_stacks"] += 1
            for j, i in enumerate(idxs):
                o = oracles[i]
                self.cmp("tensor_map.ubi_and_unitcell_to_eps_sample [one (6,) cell over a stack]", i, s1[j], o.lab(0.5), 0.5)
                self.cmp("tensor_map.ubi_and_unitcell_to_eps_crystal [one (6,) cell over a stack]", i, c1[j], o.ref(0.5, o.U0), 0.5)
            for j in range(len(idxs), 2 * k):
                self.cmp("tensor_map.ubi_and_unitcell_to_eps_sample NaN mask [one (6,) cell over a stack]", 0, s1[j], nan33)
                self.cmp("tensor_map.ubi_and_unitcell_to_eps_crystal NaN mask [one (6,) cell over a stack]", 0, c1[j], nan33)
            for i in idxs[:2]:
                o = oracles[i]
                self.fam["bare_3x3_calls"] += 1
                self.cmp("tensor_map.ubi_and_unitcell_to_eps_sample [bare (3,3)]", i,
                         tm.ubi_and_unitcell_to_eps_sample(o.ubi_f, c6), o.lab(0.5), 0.5)
                self.cmp("tensor_map.ubi_and_unitcell_to_eps_crystal [bare (3,3)]", i,
                         tm.ubi_and_unitcell_to_eps_crystal(o.ubi_f, c6), o.ref(0.5, o.U0), 0.5)
        # small-strain family through the kernels
        if smalls:
            su = np.array([s.ubi_f for _, s in smalls])
            scl = np.array([s.cell for _, s in smalls])
            ses = tm.ubi_and_unitcell_to_eps_sample(su, scl)
            sec = tm.ubi_and_unitcell_to_eps_crystal(su, scl)
            for j, (i, s) in enumerate(smalls):
                self.cmp("small strain: tensor_map.ubi_and_unitcell_to_eps_sample", i, ses[j], s.lab(0.5), 0.5, FLOOR_SMALL)
                self.cmp("small strain: tensor_map.ubi_and_unitcell_to_eps_crystal", i, sec[j], s.ref(0.5, s.U0), 0.5, FLOOR_SMALL)
                self.fam["small_strain_comparisons"] += 2
        # tensor rotations with the exact R as U, every exponent
        for m in ALLM:
            T = np.full((N, 3, 3), np.nan)
            U = np.full((N, 3, 3), np.nan)
            for i, o in enumerate(oracles):
                T[i] = o.ref(m)
                U[i] = o.Rf
            T[n + 1] = T[0]
            U[n + 2] = U[0]
            ts = tm.tensor_crystal_to_sample(T, U)
            back = tm.tensor_sample_to_crystal(ts, U)
            for i, o in enumerate(oracles):
                self.cmp("tensor_map.tensor_crystal_to_sample", i, ts[i], o.lab(m), m)
                self.cmp("tensor_map.tensor_sample_to_crystal", i, back[i], o.ref(m), m)
            for j in range(n, N):
                self.cmp("tensor_map.tensor_crystal_to_sample NaN mask", 0, ts[j], nan33)
                self.cmp("tensor_map.tensor_sample_to_crystal NaN mask", 0, back[j], nan33)
        # TensorMap objects: one phase per distinct reference cell; phase ids start at 2, leave gaps and are inserted
        # in descending order; masked voxels with phase -1; two layers (NZ = 2); two orphan voxels (valid UBI,
        # phase id without reference: NaN strains expected there and only there)
        cellkeys = []
        for o in oracles:
            k = tuple(o.cell)
            if k not in cellkeys:
                cellkeys.append(k)
        ids = [2 + 3 * i for i in range(len(cellkeys))]
        phases = {}
        for i in reversed(range(len(cellkeys))):
            phases[ids[i]] = self.unitcell.unitcell(list(cellkeys[i]))
        orphan_id = 1
        north = 2
        nx = int(math.ceil(math.sqrt((N + north) / 2.0)))
        ny = int(math.ceil((N + north) / float(2 * nx)))
        tot = 2 * nx * ny
        UBI = np.full((tot, 3, 3), np.nan)
        pid = np.full((tot,), -1, int)
        order = list(range(n))
        # voxels are interleaved with masked ones: case i sits at 0,1,3,4,6,7.. pattern if room
        slots = [s for s in range(tot)]
        masked = set(slots[2::7])                # every 7th voxel (offset 2) is masked when possible
        free = [s for s in slots if s not in masked]
        if len(free) < n + north:
            free = slots
            masked = set(slots[n + north:])
        where = free[:n]
        orphans = free[n:n + north]
        masked = set(slots) - set(where) - set(orphans)
        for i, s in zip(order, where):
            UBI[s] = oracles[i].ubi_f
            pid[s] = ids[cellkeys.index(tuple(oracles[i].cell))]
        for j, s in enumerate(orphans):
            UBI[s] = oracles[j % n].ubi_f
            pid[s] = orphan_id
        self.fam["orphan_voxels_in_TensorMap"] += len(orphans)
        self.fam["multi_layer_map_voxels"] += sum(1 for s in where if s >= nx * ny)

        def newmap():
            return tm.TensorMap(maps={"UBI": UBI.reshape(2, ny, nx, 3, 3).copy(),
                                      "phase_ids": pid.reshape(2, ny, nx).copy()},
                                phases=dict(phases))
        # the reference handed over EXPLICITLY as a dzero_unitcell map (the refined cells), while the phases dictionary
        # holds nominal cells next to them: the strains are relative to the map that was given
        nominal = {}
        for i in reversed(range(len(cellkeys))):
            nominal[ids[i]] = self.carried(self.near_cell(list(cellkeys[i]), i))
        dzm = np.full((tot, 6), np.nan)
        for i, s in zip(order, where):
            dzm[s] = oracles[i].cell
        self.fam["TensorMap_explicit_dzero_map_voxels"] += len(where)

        def newmap_nominal(explicit):
            maps = {"UBI": UBI.reshape(2, ny, nx, 3, 3).copy(), "phase_ids": pid.reshape(2, ny, nx).copy()}
            if explicit:
                maps["dzero_unitcell"] = dzm.reshape(2, ny, nx, 6).copy()
            return tm.TensorMap(maps=maps, phases=dict(nominal))
        sink = io.StringIO()
        with contextlib.redirect_stdout(sink):
            t3 = newmap_nominal(True)
            es3 = np.array(t3.eps_sample).reshape(tot, 3, 3)
            t4 = newmap_nominal(False)
            t4.U, t4.unitcell
            t4.add_map("dzero_unitcell", dzm.reshape(2, ny, nx, 6).copy())
            ec4 = np.array(t4.eps_crystal).reshape(tot, 3, 3)
        for i, s in zip(order, where):
            o = oracles[i]
            self.cmp("TensorMap.eps_sample [explicit dzero_unitcell map, nominal cells in phases]", i, es3[s], o.lab(0.5), 0.5)
            self.cmp("TensorMap.eps_crystal [dzero_unitcell map added before the first request, nominal cells in phases]",
                     i, ec4[s], o.ref(0.5, o.U0), 0.5)
        for s in sorted(masked) + list(orphans):
            self.cmp("TensorMap.eps_sample NaN mask [explicit dzero_unitcell map]", 0, es3[s], nan33)
            self.cmp("TensorMap.eps_crystal NaN mask [explicit dzero_unitcell map]", 0, ec4[s], nan33)
        with contextlib.redirect_stdout(sink):
            t1 = newmap()
            es1 = np.array(t1.eps_sample).reshape(tot, 3, 3)           # from UBI
            ec1 = np.array(t1.eps_crystal).reshape(tot, 3, 3)          # derived: U^T . eps_sample . U
            eh1 = np.array(t1.eps_hydro).reshape(tot, 3, 3)
            ed1 = np.array(t1.eps_devia).reshape(tot, 3, 3)
            t2 = newmap()
            ec2 = np.array(t2.eps_crystal).reshape(tot, 3, 3)          # from UBI
            es2 = np.array(t2.eps_sample).reshape(tot, 3, 3)           # derived: U . eps_crystal . U^T
        for i, s in zip(order, where):
            o = oracles[i]
            lab = o.lab(0.5)
            cry = o.ref(0.5, o.U0)
            Um = o.map_U()
            self.cmp("TensorMap.eps_sample [from UBI]", i, es1[s], lab, 0.5)
            self.cmp("TensorMap.eps_crystal [from UBI]", i, ec2[s], cry, 0.5)
            hyd = np.trace(lab) / 3.0 * np.eye(3)
            self.cmp("TensorMap.eps_hydro", i, eh1[s], hyd, 0.5)
            self.cmp("TensorMap.eps_devia", i, ed1[s], lab - hyd, 0.5)
            # derived maps rotate with the map's own U (= R exactly when S is diagonal and U0 = I)
            self.cmp("TensorMap.eps_crystal [rotated from eps_sample]", i, ec1[s],
                     np.dot(np.dot(Um.T, lab), Um), 0.5)
            self.cmp("TensorMap.eps_sample [rotated from eps_crystal]", i, es2[s],
                     np.dot(np.dot(Um, cry), Um.T), 0.5)
            if o.diagonal and o.U0 == fI():
                # here the rotated maps must be the per-grain tensors themselves
                self.cmp("TensorMap.eps_crystal [rotated from eps_sample]", i, ec1[s], cry, 0.5)
                self.cmp("TensorMap.eps_sample [rotated from eps_crystal]", i, es2[s], lab, 0.5)
        for s in sorted(masked):
            self.cmp("TensorMap.eps_sample NaN mask", 0, es1[s], nan33)
            self.cmp("TensorMap.eps_crystal NaN mask", 0, ec2[s], nan33)
            self.cmp("TensorMap.eps_crystal NaN mask", 0, ec1[s], nan33)
            self.cmp("TensorMap.eps_sample NaN mask", 0, es2[s], nan33)
            self.cmp("TensorMap.eps_hydro NaN mask", 0, eh1[s], nan33)
        for s in orphans:
            self.cmp("TensorMap.eps_sample [voxel whose phase id has no reference]", 0, es1[s], nan33)
            self.cmp("TensorMap.eps_crystal [voxel whose phase id has no reference]", 0, ec2[s], nan33)
            self.cmp("TensorMap.eps_crystal [voxel whose phase id has no reference]", 0, ec1[s], nan33)
            self.cmp("TensorMap.eps_sample [voxel whose phase id has no reference]", 0, es2[s], nan33)
        self.nmasked = len(masked)

    def guarded(self, what, idx, fn, *args):
        """an exception of the code under test is a failure of that route, not of the harness"""
        try:
            fn(*args)
        except common.MachineryError:
            raise
        except Exception as e:
            import traceback
            self.failures.append(("%s raised %s" % (what, type(e).__name__), idx,
                                  {"m": None, "got": traceback.format_exc()[-1500:], "expected": "no exception"}))

    def run(self, recs, small=True, small_every=1):
        oracles = [Oracle(r) for r in recs]
        smalls = []
        nsm = 0
        for i, o in enumerate(oracles):
            self.guarded("per-grain routes", i, self.per_case, i, o)
            if small and not o.identity:
                nsm += 1
                if nsm % small_every:
                    continue
                # one small-strain member per case: strains of 1e-3 (even cases) or 1e-5 (odd cases)
                s = shrink(o, SHRINKS[(i + self.index0) % 2])
                self.guarded("per-grain routes (small strain)", i, self.per_case_small, i, s)
                smalls.append((i, s))
        self.nmasked = 0
        self.guarded("vectorised routes", 0, self.batch, oracles, smalls)
        return oracles


def explained_by_wrong_direction(o, detail):
    """known-finding class: TensorMap.eps_sample derived from eps_crystal equals U^T.eps_crystal.U
    (tensor_sample_to_crystal called where tensor_crystal_to_sample is meant)"""
    Um = o.map_U()
    cry = o.ref(0.5, o.U0)
    wrong = np.dot(np.dot(Um.T, cry), Um)
    return close(np.array(detail["got"]), wrong)


# ----------------------------------------------------------------------------------------------

def parse_records(printed):
    recs, bad = [], 0
    for line in printed:
        try:
            r = json.loads(line)
            assert set(("L0", "U0", "S", "R", "ubi", "eref", "elab")) <= set(r)
            recs.append(r)
        except Exception:
            bad += 1
    return recs, bad


def tlc_workers():
    """committed value 16; VERIF_TLC_WORKERS lowers it on a crowded box (the number of simulated behaviours does
    not depend on it)"""
    try:
        return max(1, int(os.environ.get("VERIF_TLC_WORKERS", "16")))
    except ValueError:
        return 16


def run_spec(chk, cfgname, workers=None, coverage=False, timeout=1500):
    workers = workers or tlc_workers()
    cfg = os.path.join(common.SPECS, cfgname)
    res = common.run_tlc("Strain", cfg, workers=workers, coverage=coverage, timeout=timeout)
    recs, bad = parse_records(res.printed)
    if bad and res.error is None:
        res = common.run_tlc("Strain", cfg, workers=1, coverage=coverage, timeout=4 * timeout)
        recs, bad = parse_records(res.printed)
        if bad:
            raise common.MachineryError("unparsable TLC output lines (%d)" % bad)
    return res, recs


def run_hist_spec(cfgname, behaviours=None, depth=None, timeout=1500, workers=None):
    """machine HSpec: `behaviours` = number of simulated behaviours (None: exhaustive)"""
    cfg = os.path.join(common.SPECS, cfgname)
    kw = {}
    if behaviours is not None:
        workers = 4             # fixed: the behaviours drawn for one VERIF_SEED must not depend on the box
        kw = {"simulate": max(1, behaviours // workers), "depth": depth, "seed_": common.seed()}
    else:
        workers = workers or tlc_workers()
    res = common.run_tlc("Strain", cfg, workers=workers, timeout=timeout, **kw)
    recs, bad = H.parse_histories(res.printed)
    if bad and res.error is None:
        res = common.run_tlc("Strain", cfg, workers=1, timeout=4 * timeout, **kw)
        recs, bad = H.parse_histories(res.printed)
        if bad:
            raise common.MachineryError("unparsable TLC output lines (%d)" % bad)
    return res, recs


ACTIONS = ("PickRef", "PickStretch", "PickRot", "Deform", "Ref", "Lab")
INVARIANTS = ("RefLatticeOK", "PolarOK", "RefIsSethHill", "RefSym", "LabIsRotatedRef", "Objectivity",
              "LabObjectivity", "ZeroIff", "FirstOrder")
HINVARIANTS = ("HAnswersCurrent", "HPolarOK", "HDecorTracked", "HNoTrace", "MapExpCurrent", "MapRepairedCurrent",
               "MapNoTrace", "MapRaisesIffBlocked", "DzeroByKey", "DzSourceOK")
HOPS = {"grain": ("new", "set_ubi", "newref", "reorient", "decorate", "touch", "ask", "dgt", "dask", "dread",
                  "askfail", "dgtfail", "daskfail"),
        "map": ("newmap", "read", "assign", "setdz", "touch", "readfail", "repair")}


def answered_after_failure(rec):
    """a history in which a request that raised is followed by one that is answered (the witnesses of the law
    `a request that raises leaves no trace`)"""
    seen = False
    for o in rec["hist"]:
        if o["op"] in ("readfail", "askfail", "dgtfail", "daskfail"):
            seen = True
        elif seen and o["op"] in ("read", "ask", "dask"):
            return True
    return False


def judge(chk, recs, rp, oracles):
    """turn the replayer's failures into violations / known findings"""
    byroute = {}
    for route, idx, detail in rp.failures:
        byroute.setdefault(route, []).append((idx, detail))
    entry = chk.finding(FINDING_ID)
    def simplicity(f):
        o = oracles[f[0]]
        r = recs[f[0]]
        return (o.U0 != fI(), not o.diagonal, not is_diag(o.L0), int(r["R"][1]), int(r["S"][1]),
                sum(abs(int(x)) for row in r["S"][0] for x in row), f[0])
    for route in sorted(byroute):
        fails = sorted(byroute[route], key=simplicity)      # report the simplest failing case
        nrep = 0
        seen = set()
        for idx, detail in fails:
            if idx in seen:
                continue
            if entry is not None and route == "TensorMap.eps_sample [rotated from eps_crystal]" and \
                    explained_by_wrong_direction(oracles[idx], detail):
                chk.known_finding(FINDING_ID, "TensorMap.eps_sample derived from eps_crystal is rotated the "
                                  "wrong way (U^T.E.U instead of U.E.U^T)")
                continue
            if nrep < MAXV_PER_ROUTE:
                nrep += 1
                seen.add(idx)
                chk.violation("%s differs from the specification's value (m=%s; %d failing comparisons on this "
                              "route)" % (route, detail.get("m"), len(fails)),
                              {"record": recs[idx], "index": idx + rp.index0, "route": route, "detail": detail})
    return byroute


# ----------------------------------------------------------------------------------------------
# object histories (machine HSpec)

STALE_WHAT = ("TensorMap.%s still shows the tensors of a previous UBI map after a new UBI map was assigned "
              "(clear_cache keeps the eps maps)")


class HistoryRun(object):
    """binds the histories TLC printed to exact states, replays them on real objects, judges the failures"""

    def __init__(self, mods, oracles, seed, perturb=None):
        self.mods = mods
        self.rng = random.Random(1000003 * seed + 17)
        self.gr = H.GrainReplayer(mods, perturb=perturb)
        self.mr = H.MapReplayer(mods, perturb=perturb)
        self.ghist = []            # GrainHistory objects, index = history index of the replayer
        self.mbind = []            # MapBinding objects
        # deformations of machine Spec grouped by reference <<L0, U0>> (lifted grain histories) and by reference
        # cell (voxels of the maps)
        byref, bycell = {}, {}
        for o in oracles:
            d = o.describe()
            byref.setdefault(json.dumps(d["L0"]) + json.dumps(d["U0"]), []).append(o)
            bycell.setdefault(tuple(o.cell), []).append(o)
        self.refgroups = [byref[k] for k in sorted(byref)]
        self.cellgroups = [bycell[k] for k in sorted(bycell)]
        rots = []
        for o in oracles:
            if all(o.R != q for q in rots):
                rots.append(o.R)
        for q in (U0P, PERM, fmm(U0P, PERM)):
            if all(q != x for x in rots):
                rots.append(q)
        self.rots = rots

    def grain(self, rec, lift=True):
        Hc = H.GrainHistory(rec, check_ans=not rec.get("lifted"))
        self.gr.replay(len(self.ghist), Hc)
        self.ghist.append(Hc)
        if lift and self.refgroups:
            grp = self.rng.choice(self.refgroups)
            lr = H.lift_grain_history(rec, grp, self.rots, self.rng)
            if lr is not None:
                self.grain(lr, lift=False)

    def map(self, rec, nver, bind=None):
        if len(self.cellgroups) < 3 and bind is None:
            return
        B = H.MapBinding(rec, self.cellgroups, self.rng, nver, bind=bind)
        self.mr.replay(len(self.mbind), B)
        self.mbind.append(B)

    def run(self, hrecs, nver):
        for r in hrecs:
            if r["kind"] == "grain":
                self.grain(r)
            else:
                self.map(r, nver)

    def judge(self, chk):
        """violations / known finding for the history failures; returns {route: count}"""
        byroute = {}
        for route, hi, oi, d in self.gr.failures:
            byroute.setdefault(route, []).append(("grain", hi, oi, d))
        for route, hi, oi, d in self.mr.failures:
            byroute.setdefault(route, []).append(("map", hi, oi, d))
        entry = chk.finding(STALE_FINDING_ID)
        # the stale-map class (a recorded / recordable finding) is reported after everything else
        split = {}
        for route, fails in byroute.items():
            for f in fails:
                split.setdefault((bool(f[3].get("stale")), route), []).append(f)
        for _, route in sorted(split):
            fails = split[(_, route)]
            # the shortest history first
            def size(f):
                kind, hi, oi, d = f
                rec = self.ghist[hi].rec if kind == "grain" else self.mbind[hi].rec
                return (not rec.get("counterexample"), bool(rec.get("lifted")), oi, len(rec["hist"]), hi)
            nrep = 0
            seen = set()
            for kind, hi, oi, d in sorted(fails, key=size):
                if kind == "map" and d.get("stale"):
                    # structural match of the class: the value read is, voxel for voxel, the value the model of the
                    # code AS IT IS predicts (the tensor of a previous UBI map) and that differs from the property's
                    name = route.split("TensorMap.")[-1]
                    if entry is not None:
                        chk.known_finding(STALE_FINDING_ID, STALE_WHAT % "eps_sample / eps_crystal / eps_hydro / eps_devia")
                        continue
                    what = (STALE_WHAT % name) + " [%d failing reads of this map]" % len(fails)
                else:
                    what = "%s differs from the exact tensor of the object's current state (operation %d of the " \
                           "history; %d failing answers on this route)" % (route, oi, len(fails))
                if hi in seen or nrep >= (1 if d.get("stale") else MAXV_PER_ROUTE):
                    continue
                nrep += 1
                seen.add(hi)
                if kind == "grain":
                    case = {"history": self.ghist[hi].rec, "route": route, "operation": oi, "detail": d}
                else:
                    B = self.mbind[hi]
                    case = {"history": B.rec, "binding": B.to_json(), "route": route, "operation": oi, "detail": d}
                chk.violation(what, case)
        return dict((k_, len(v)) for k_, v in byroute.items())


def asis_counterexample(chk, workers=None):
    """Strain_map_asis.cfg: the model of TensorMap AS THE CODE IS violates MapAsIsCurrent; the history of the
    counterexample's last state is returned for replay on a real TensorMap"""
    cfg = os.path.join(common.SPECS, "Strain_map_asis.cfg")
    res = common.run_tlc("Strain", cfg, workers=1, timeout=900)
    chk.add_tlc("Strain_map_asis (code as it is; MapAsIsCurrent expected to be violated)", res)
    if res.violated != ["MapAsIsCurrent"] or not res.trace:
        raise common.MachineryError("Strain_map_asis: expected exactly the violation of MapAsIsCurrent, got %r\n%s" %
                                    (res.violated, res.stdout[-2000:]))
    hist = json.loads(json.dumps(common.parse_tla(res.trace[-1]["vars"]["hist"])))
    rec = {"kind": "map", "hist": hist, "counterexample": True}
    last = hist[-1]
    if last["op"] != "read" or last["asis"] == last["exp"]:
        raise common.MachineryError("Strain_map_asis: the counterexample does not end in a stale read: %r" % (last,))
    return rec


def history_vacuity(chk, hrecs, hr, tier):
    ops = {}
    for r in hrecs:
        for o in r["hist"]:
            ops[(r["kind"], o["op"])] = ops.get((r["kind"], o["op"]), 0) + 1
    for kind, names in HOPS.items():
        for nm in names:
            if not ops.get((kind, nm)):
                raise common.MachineryError("vacuity: no %s history contains the operation %s" % (kind, nm))
    chk.notes["history_operations"] = dict(("%s.%s" % k_, v) for k_, v in sorted(ops.items()))
    need_g = ("asks", "asks_m0", "ask_again_after_set_ubi_same_reference", "ask_after_reference_reoriented_in_place",
              "ask_after_new_reference_object", "dgt_objects", "dgt_mixed_argument_kinds",
              "dgt_objects_asked_for_2_or_more_m", "dgt_asked_after_set_ubi_of_its_grain", "dgt_reads",
              "lifted_histories",
              "decorations", "touches", "grains_decorated_at_construction",
              "ask_cell_while_grain_carries_another_cell",
              "ask_cell_while_grain_carries_another_cell_attached_before_first_request",
              "ask_cell_while_grain_carries_another_cell_attached_after_a_request",
              "ask_cell_while_grain_carries_the_same_cell", "ask_cell_while_reference_grain_object_carries_a_cell",
              "ask_grain_while_grain_carries_a_cell", "ask_grain_while_reference_grain_carries_another_cell",
              "dgt_from_grain_objects_carrying_another_cell", "ask_reference_grain_of_another_cell_scale",
              "ask_cell_of_another_scale_than_the_previous_request", "ask_near_cell_half_percent",
              "failed_requests_that_raised", "failed_eps_request_then_answered_request",
              "failed_dgt_request_then_answered_dgt_request")
    need_m = ("reads", "reads_after_assignment_of_a_cached_map", "reads_derived_by_rotation", "assign_setter",
              "assign_item", "assign_add_map", "dict_not_0_to_n_in_order", "dict_multi_phase", "nz_above_1",
              "orphan_voxels", "masked_voxels", "voxels_nan_in_one_version",
              "touches", "explicit_dzero_map_at_construction", "explicit_dzero_map_set_by_item",
              "explicit_dzero_map_set_by_add_map", "explicit_dzero_map_set_after_a_read",
              "reads_relative_to_explicit_map_with_other_cells_in_phases", "reads_relative_to_nominal_phase_cells",
              "failed_reads_that_raised", "failed_reads_no_phase_ids_map", "failed_reads_phase_ids_of_another_shape",
              "failed_reads_phases_entry_no_unitcell", "failed_reads_malformed_UBI",
              "failed_reads_of_dzero_unitcell_itself", "read_answered_after_failed_read_and_repair",
              "read_answered_after_failed_read_and_explicit_dzero_map", "read_answered_after_failed_read_and_proper_UBI",
              "read_answered_on_incomplete_map_with_explicit_dzero_map")
    for k_ in need_g:
        if not hr.gr.stats[k_]:
            raise common.MachineryError("vacuity: grain histories never exercised %s" % k_)
    for k_ in need_m:
        if not hr.mr.stats[k_]:
            raise common.MachineryError("vacuity: map histories never exercised %s" % k_)
    chk.notes["grain_history_classes"] = dict(hr.gr.stats)
    chk.notes["map_history_classes"] = dict(hr.mr.stats)


def run(tier, replay=None):
    chk = common.Check(PROP, tier)
    shadow = private_shadow()
    common.use_shadow(shadow)
    load_modules()
    chk.notes["tolerance"] = ("abs(x-e) <= 1e-9*max|e| + 1e-12; small-strain family and exact zeros: "
                              "abs(x-e) <= 1e-9*max|e| + 3e-14")
    if replay:
        with open(replay) as f:
            obj = json.load(f)
        case = obj["case"]
        rp = Replayer()
        if "history" in case:
            hr = HistoryRun(rp.mods(), [], common.seed())
            rec = case["history"]
            if rec["kind"] == "grain":
                hr.grain(rec, lift=False)
            else:
                hr.map(rec, case["binding"]["nver"], bind=case["binding"])
            chk.case(json.dumps(rec, sort_keys=True))
            chk.traces += 1
            hr.judge(chk)
            chk.rule = "replay of one saved history on one real object"
        else:
            rec = case["record"]
            rp.index0 = int(case.get("index", 0))
            oracles = rp.run([rec])
            chk.case(json.dumps(rec, sort_keys=True))
            chk.traces += 1
            judge(chk, [rec], rp, oracles)
            chk.rule = "replay of one saved record through every route"
        chk.exhaustive = False
        return chk.finish()

    if tier == "quick":
        res, recs = run_spec(chk, "Strain_q.cfg", coverage=False, timeout=900)
        chk.add_tlc("Strain_q exhaustive", res)
    else:
        res, recs = run_spec(chk, "Strain_t.cfg", coverage=False, timeout=3600)
        chk.add_tlc("Strain_t exhaustive", res)
        resc, recsc = run_spec(chk, "Strain_q.cfg", coverage=True, timeout=1800)
        chk.add_tlc("Strain_q with coverage", resc, require_cover=ACTIONS)
        if not resc.coverage or any(resc.coverage.get(a, (0, 0))[1] == 0 for a in ACTIONS):
            raise common.MachineryError("vacuity: coverage of actions %r" % (resc.coverage,))
        chk.notes["action_coverage"] = dict((a, list(resc.coverage[a])) for a in ACTIONS)
        if resc.violated or not resc.finished:
            raise common.MachineryError("coverage run did not finish cleanly: %r" % (resc.violated,))
        have = set(json.dumps(r, sort_keys=True) for r in recs)
        recs += [r for r in recsc if json.dumps(r, sort_keys=True) not in have]
    if res.violated:
        # design-level counterexample of the specification itself: the model or the property's
        # algebra is wrong - this is not something the code did
        raise common.MachineryError("specification invariant violated in TLC: %r\n%s" %
                                    (res.violated, res.stdout[-3000:]))
    if not res.finished:
        raise common.MachineryError("TLC did not finish: %s" % res.stdout[-2000:])
    if not recs:
        raise common.MachineryError("TLC emitted no cases")
    chk.notes["invariants_checked"] = list(INVARIANTS) + list(HINVARIANTS)

    # ---- machine HSpec: histories on one object
    nver = 3
    if tier == "quick":
        hres, hrecs = run_hist_spec("Strain_hist_q.cfg", behaviours=192, depth=16, timeout=900)
        chk.add_tlc("Strain_hist_q -simulate (seed %d)" % common.seed(), hres)
        hruns = [("Strain_hist_q", hres)]
    else:
        hres, hrecs = run_hist_spec("Strain_hist_t.cfg", behaviours=1600, depth=20, timeout=2400)
        chk.add_tlc("Strain_hist_t -simulate (seed %d)" % common.seed(), hres)
        hres2, hrecs2 = run_hist_spec("Strain_hist_q.cfg", behaviours=192, depth=16, timeout=900)
        chk.add_tlc("Strain_hist_q -simulate (seed %d)" % common.seed(), hres2)
        hres3, hrecs3 = run_hist_spec("Strain_map_t.cfg", timeout=2400)
        chk.add_tlc("Strain_map_t exhaustive", hres3)
        hruns = [("Strain_hist_t", hres), ("Strain_hist_q", hres2), ("Strain_map_t", hres3)]
        hrecs = hrecs + hrecs2
    # every history of 3 operations on a TensorMap that may be incomplete for a strain request (exhaustive): the
    # histories in which a request that raised is followed by one that is answered are all replayed, of the others
    # a seeded sample
    fres, frecs = run_hist_spec("Strain_mapfail.cfg", timeout=900)
    chk.add_tlc("Strain_mapfail exhaustive", fres)
    hruns.append(("Strain_mapfail", fres))
    wit = [r for r in frecs if answered_after_failure(r)]
    if not wit:
        raise common.MachineryError("Strain_mapfail: no history answers a request after one that raised")
    rest = [r for r in frecs if not answered_after_failure(r)]
    random.Random(common.seed() + 7).shuffle(rest)
    frecs_kept = wit + rest[:(60 if tier == "quick" else 600)]
    chk.notes["mapfail_histories"] = {"enumerated": len(frecs), "answered_after_a_request_that_raised": len(wit),
                                      "replayed": len(frecs_kept)}
    for nm, r_ in hruns:
        if r_.violated:
            raise common.MachineryError("specification invariant violated in TLC (%s): %r\n%s" %
                                        (nm, r_.violated, r_.stdout[-3000:]))
        if not r_.finished:
            raise common.MachineryError("TLC did not finish (%s): %s" % (nm, r_.stdout[-2000:]))
    nall = len(hrecs)
    hrecs = H.thin_siblings(hrecs, random.Random(common.seed()), keep=2)
    if tier == "thorough":
        hrecs += hrecs3                 # every map history of the exhaustive run
    hrecs += frecs_kept
    cex = asis_counterexample(chk)
    hrecs.append(cex)
    chk.notes["histories_printed_by_tlc"] = nall + len(frecs) + (len(hrecs3) if tier == "thorough" else 0)

    if tier == "thorough":
        selftest(recs, hrecs)
        chk.notes["selftest"] = ("perturbed expectations rejected on 5 route families, the small-strain family, "
                                 "grain and map histories + exact cross-checks")
    rp = Replayer()
    oracles = rp.run(recs, small_every=(1 if tier == "quick" else 4))
    hr = HistoryRun(rp.mods(), oracles, common.seed())
    hr.run(hrecs, nver)
    # the verdict first: a vacuity guard that trips on a broken tree (a route that raised never counted its family)
    # must find the violations already recorded (run.py then reports them, exit 1)
    byroute = judge(chk, recs, rp, oracles)
    byroute_h = hr.judge(chk)
    chk.notes["failing_routes"] = dict((k_, len(v)) for k_, v in byroute.items())
    chk.notes["failing_history_routes"] = byroute_h
    history_vacuity(chk, hrecs, hr, tier)
    # vacuity / non-triviality accounting
    cls = {"identity_stretch": 0, "diagonal_stretch": 0, "full_stretch": 0, "twentieths": 0,
           "pythagorean_rotation": 0, "two_axis_pythagorean_rotation": 0, "rotated_reference": 0, "oblique_cell": 0,
           "cell_alpha_beta_90_gamma_not_90": 0, "lab_exact_in_tlc": 0,
           "first_order_bound_below_strain": 0}
    for r, o in zip(recs, oracles):
        chk.case(json.dumps(r, sort_keys=True), nontrivial=not o.identity)
        chk.traces += 1
        cls["identity_stretch"] += o.identity
        cls["diagonal_stretch"] += (o.diagonal and not o.identity)
        cls["full_stretch"] += (not o.diagonal)
        cls["twentieths"] += (int(r["S"][1]) == 20)
        cls["pythagorean_rotation"] += (int(r["R"][1]) > 1)
        cls["two_axis_pythagorean_rotation"] += (int(r["R"][1]) == 25)
        cls["rotated_reference"] += (o.U0 != fI())
        cls["oblique_cell"] += (not is_diag(o.L0))
        cls["cell_alpha_beta_90_gamma_not_90"] += (o.mt0[0][2] == 0 and o.mt0[1][2] == 0 and o.mt0[0][1] != 0)
        cls["lab_exact_in_tlc"] += bool(r["labexact"])
        e = fsub(o.S, fI())
        rn = max(sum(abs(x) for x in row) for row in e)
        k2 = Fr(5, 2) if rn <= Fr(1, 10) else Fr(7)
        cls["first_order_bound_below_strain"] += (0 < k2 * rn * rn < rn)
    for k_, v in cls.items():
        if v == 0:
            raise common.MachineryError("vacuity: no emitted case in class %s" % k_)
    for k_, v in rp.fam.items():
        if v == 0:
            raise common.MachineryError("vacuity: harness family %s was never exercised" % k_)
    for Hc in hr.ghist:
        chk.case(json.dumps(Hc.rec, sort_keys=True))
        chk.traces += 1
    for B in hr.mbind:
        chk.case(json.dumps([B.rec, B.to_json()["shape"]], sort_keys=True))
        chk.traces += 1
    chk.notes["case_classes"] = cls
    chk.notes["harness_families"] = dict(rp.fam)
    chk.notes["comparisons"] = rp.ncmp + hr.gr.ncmp + hr.mr.ncmp
    chk.notes["masked_voxels_in_TensorMap"] = rp.nmasked
    chk.evaluations = rp.ncmp + hr.gr.ncmp + hr.mr.ncmp
    for r in recs[:2]:
        chk.sample({"S": r["S"], "R": r["R"], "L0": r["L0"], "U0": r["U0"], "eref": r["eref"][:2]})
    for r in [x for x in hrecs if x["kind"] == "grain"][:1] + [cex]:
        chk.sample({"history": [dict((k_, v) for k_, v in o.items() if k_ not in ("ans", "Q", "F", "val", "dz"))
                                for o in r["hist"]]})
    chk.rule = ("every record TLC emits for REFS x STRETCHES x ROTS (%s) is replayed through every route and "
                "every m in -1..2 (+ one small-strain member S' = I + e/100 or e/10^4 per record, thorough: per 4th record); every history "
                "of machine HSpec kept after thinning the siblings of a simulated behaviour (%s) is replayed on one "
                "real object, grain histories once more lifted to the records of machine Spec; non-trivial = "
                "stretch differs from the identity / every history" %
                ("Strain_q.cfg" if tier == "quick" else "Strain_t.cfg + Strain_q.cfg",
                 "Strain_hist_q.cfg, seeded; Strain_mapfail.cfg exhaustive: all histories answering after a request "
                 "that raised + 60 others; Strain_map_asis counterexample" if tier == "quick" else
                 "Strain_hist_t.cfg + Strain_hist_q.cfg, seeded; Strain_map_t.cfg exhaustive; Strain_mapfail.cfg "
                 "exhaustive: all histories answering after a request that raised + 600 others; Strain_map_asis "
                 "counterexample"))
    chk.exhaustive = False          # machine Spec is enumerated; the histories of machine HSpec are drawn (see rule)
    chk.assumptions = ["floating point accuracy away from the enumerated rational instances is not decided",
                       "m = 0 and the B matrix of the strained cell are finished in double precision from "
                       "the exact rationals (validated by exp(E0) = S; Mercator series in exact fractions for "
                       "the small-strain family)",
                       "histories of machine HSpec are drawn by tlc -simulate (seeded), not enumerated, except "
                       "the TensorMap histories of 4 operations in the thorough tier",
                       "a derived TensorMap strain map (eps_crystal from eps_sample or the reverse) is judged "
                       "against the rotation with the map's own Busing-Levy U, which equals the per-grain tensor "
                       "exactly only for a diagonal stretch of an unrotated reference"]
    return chk.finish()


def selftest(recs=None, hrecs=None):
    """the comparison must reject a perturbed expectation on each family of routes"""
    if recs is None:
        shadow = private_shadow()
        common.use_shadow(shadow)
        load_modules()
        res, recs = run_spec(None, "Strain_q.cfg", workers=8, timeout=900)
        if not res.finished or not recs:
            raise common.MachineryError("selftest: TLC run failed")
    if hrecs is None:
        hres, hrecs = run_hist_spec("Strain_hist_q.cfg", behaviours=64, depth=16, timeout=900, workers=8)
        if not hres.finished or not hrecs:
            raise common.MachineryError("selftest: TLC history run failed")
    # pick records with a full stretch and a Pythagorean rotation
    def suitable(r):
        Rn, Sn = r["R"][0], r["S"][0]
        return (int(r["R"][1]) > 1 and any(Rn[i][j] != Rn[j][i] for i in range(3) for j in range(i))
                and all(Sn[i][j] != 0 for i in range(3) for j in range(i))
                and len(set((Sn[0][0], Sn[1][1], Sn[2][2]))) > 1)
    pick = [r for r in recs if suitable(r)][:3]
    if not pick:
        raise common.MachineryError("selftest: no record with an asymmetric rotation and a full stretch")
    base = Replayer()
    oracles = base.run(pick)
    clean = set(rt for rt, _, _ in base.failures)
    want = {"eref": "grain.eps_grain_matrix(grain)", "lab_transposed": "grain.eps_sample_matrix(cell)",
            "e6order": "grain.eps_sample(cell) e6", "F_transposed": "DeformationGradientTensor.F",
            "map": "tensor_map.ubi_and_unitcell_to_eps_sample",
            "small": "small strain: grain.eps_sample_matrix(cell)"}
    for pert, route in want.items():
        rp = Replayer(perturb=pert)
        rp.run(pick)
        got = set(rt for rt, _, _ in rp.failures) - clean
        if route not in got:
            raise common.MachineryError("selftest: perturbation %s was not rejected on %s" % (pert, route))
    # a corrupted specification value must be caught by the exact cross-check
    bad = copy.deepcopy(pick[0])
    bad["eref"][2][0][0][0] += 1
    try:
        Oracle(bad)
    except OracleMismatch:
        pass
    else:
        raise common.MachineryError("selftest: corrupted E_ref accepted by the exact cross-check")
    # histories: an answer judged against the state BEFORE set_ubi / the map of version 1 must be rejected,
    # a corrupted answer of the specification must be caught by the exact cross-check
    allrecs = [Oracle(r) for r in recs[:400]]
    def goodg(r):
        ops = [o["op"] for o in r["hist"]]
        if r["kind"] != "grain" or "set_ubi" not in ops:
            return False
        first = (r["hist"][0]["S"], r["hist"][0]["R"])
        cur, ok = first, False
        for o in r["hist"]:
            if o["op"] == "set_ubi":
                cur = (o["S"], o["R"])
            elif o["op"] == "ask" and cur[0] != first[0] and o["m2"] != 0:
                ok = True
        return ok
    gh = [r for r in hrecs if goodg(r)][:5]
    mh = [r for r in hrecs if r["kind"] == "map" and
          any(o["op"] == "read" and o["cur"] > 1 and o["asis"] == o["exp"] for o in r["hist"])][:5]
    if not gh or not mh:
        raise common.MachineryError("selftest: no history with a question after a change of state")
    # the decorate dimension: an answer judged against the cell the grain CARRIES / against the other source of the
    # map's reference cells must be rejected
    gh2 = [r for r in hrecs if r["kind"] == "grain" and not r.get("lifted") and
           any(o["op"] == "ask" and o["rk"] == "cell" and o["m2"] != 0 and o.get("gd") and o["gd"] != o["k"]
               for o in r["hist"])][:5]
    mh2 = [r for r in hrecs if r["kind"] == "map" and (r["hist"][0].get("dzx") or any(o["op"] == "setdz" for o in r["hist"]))
           and any(o["op"] == "read" for o in r["hist"])][:5]
    if not gh2 or not mh2:
        raise common.MachineryError("selftest: no history with a request made while another cell is carried")
    for pert, recs_, attr in (("hist_state", gh, "gr"), ("map_version", mh, "mr"), ("hist_carried", gh2, "gr"),
                              ("map_reference", mh2, "mr")):
        ref_ = HistoryRun(base.mods(), allrecs, 5)
        ref_.run(recs_, 3)
        hp = HistoryRun(base.mods(), allrecs, 5, perturb=pert)
        hp.run(recs_, 3)
        before = set((f[1], f[2]) for f in getattr(ref_, attr).failures)
        after = set((f[1], f[2]) for f in getattr(hp, attr).failures)
        if not after - before:        # an answer that was accepted must now be rejected
            raise common.MachineryError("selftest: perturbation %s of a history was not rejected" % pert)
    badh = copy.deepcopy(gh[0])
    for o in badh["hist"]:
        if o["op"] == "ask" and o["m2"] != 0 and int(o["ans"][1]) != 0:
            o["ans"][0][0][0] += 1
            break
    try:
        H.GrainHistory(badh)
    except OracleMismatch:
        pass
    else:
        raise common.MachineryError("selftest: corrupted history answer accepted by the exact cross-check")
    return True

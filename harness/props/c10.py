"""C10 - finite strain tensors are objective, symmetric and exact for known deformations.

Specification : specs/Strain.tla  (configs Strain_q.cfg / Strain_t.cfg), binding mode A (case oracle).

TLC enumerates reference lattice x reference orientation x stretch x rotation, computes the Seth-Hill
tensors E_ref(m), E_lab(m) (2m in -2,-1,1,2,3,4) in exact rational arithmetic along the code's own
path (F = ubi^T.ub0^T, even/odd branches), checks the property's laws as invariants and prints one JSON
record per case.  This module replays every record into the real code:

  grain.eps_grain / eps_grain_matrix / eps_sample / eps_sample_matrix
        reference = 6-parameter cell, = reference grain, = re-oriented reference grain, all seven m
  finite_strain.DeformationGradientTensor(arrays | grains) .F .U .VRS .finite_strain_ref/lab
  e6 ordering (symm_to_e6 / e6_to_symm of both modules)
  tensor_map.ubi_and_unitcell_to_eps_sample/_crystal, tensor_crystal_to_sample/_sample_to_crystal
        (vectorised over all cases, NaN-masked voxels)
  tensor_map.TensorMap.eps_sample / eps_crystal, computed from UBI and derived from one another

m = 0 (logarithmic strain) and the B matrix of the strained cell (needed for the map's U) are irrational:
they are finished here from the exact S, R, UB that the specification emits.
"""
from __future__ import print_function
import os, sys, json, math, io, contextlib, copy
from fractions import Fraction as Fr
import numpy as np
import common

PROP = "C10"
MS2 = [-2, -1, 1, 2, 3, 4]
FINDING_ID = "C10-tensormap-eps-sample-from-crystal"
MAXV_PER_ROUTE = 2


# ----------------------------------------------------------------------------------------------
# exact 3x3 algebra on Fractions (independent re-derivation of what TLC emits)

def fm(scaled):
    num, den = scaled
    return [[Fr(int(x), int(den)) for x in row] for row in num]


def fI():
    return [[Fr(int(i == j)) for j in range(3)] for i in range(3)]


def fmm(a, b):
    return [[sum(a[i][k] * b[k][j] for k in range(3)) for j in range(3)] for i in range(3)]


def ft(a):
    return [[a[j][i] for j in range(3)] for i in range(3)]


def fdet(m):
    return (m[0][0] * (m[1][1] * m[2][2] - m[1][2] * m[2][1])
            - m[0][1] * (m[1][0] * m[2][2] - m[1][2] * m[2][0])
            + m[0][2] * (m[1][0] * m[2][1] - m[1][1] * m[2][0]))


def finv(m):
    d = fdet(m)
    c = [[None] * 3 for _ in range(3)]
    for i in range(3):
        for j in range(3):
            r = [x for x in range(3) if x != i]
            s = [x for x in range(3) if x != j]
            minor = m[r[0]][s[0]] * m[r[1]][s[1]] - m[r[0]][s[1]] * m[r[1]][s[0]]
            c[j][i] = (-1) ** (i + j) * minor / d
    return c


def fpow(m, p):
    if p < 0:
        m = finv(m)
        p = -p
    out = fI()
    for _ in range(p):
        out = fmm(out, m)
    return out


def fsub(a, b):
    return [[a[i][j] - b[i][j] for j in range(3)] for i in range(3)]


def fscale(a, k):
    return [[a[i][j] * k for j in range(3)] for i in range(3)]


def fconj(q, a):           # q a q^T
    return fmm(fmm(q, a), ft(q))


def fconjT(q, a):          # q^T a q
    return fmm(fmm(ft(q), a), q)


def seth_hill(x, m2):      # (x^m2 - I)/m2
    return fscale(fsub(fpow(x, m2), fI()), Fr(1, m2))


def f2np(a):
    return np.array([[float(x) for x in row] for row in a], float)


def is_diag(a):
    return all(a[i][j] == 0 for i in range(3) for j in range(3) if i != j)


class OracleMismatch(common.MachineryError):
    pass


# ----------------------------------------------------------------------------------------------
# the oracle: everything expected for one TLC record

U0P = [[Fr(4, 5), Fr(-3, 5), Fr(0)], [Fr(3, 5), Fr(4, 5), Fr(0)], [Fr(0), Fr(0), Fr(1)]]   # Rz(atan2(3,4))
PERM = [[Fr(0), Fr(0), Fr(1)], [Fr(1), Fr(0), Fr(0)], [Fr(0), Fr(1), Fr(0)]]


class Oracle(object):
    """exact expected values for one record (Fractions), cross-checked against TLC's numbers"""

    def __init__(self, rec):
        self.rec = rec
        L0 = [[Fr(int(x)) for x in row] for row in rec["L0"]]
        U0 = fm(rec["U0"])
        S = fm(rec["S"])
        R = fm(rec["R"])
        self.L0, self.U0, self.S, self.R = L0, U0, S, R
        self.ubi0 = fmm(L0, ft(U0))
        self.ub0 = fmm(U0, finv(L0))
        self.ubi = fmm(fmm(self.ubi0, S), ft(R))
        self.F = fmm(R, S)
        self.V = fconj(R, S)
        self.mt0 = fmm(L0, ft(L0))
        # --- the specification's values must be these (two independent exact derivations)
        for name, mine in (("ubi0", self.ubi0), ("ub0", self.ub0), ("ubi", self.ubi), ("F", self.F)):
            if fm(rec[name]) != mine:
                raise OracleMismatch("spec and harness disagree on %s for %s" % (name, json.dumps(rec)[:300]))
        if [[Fr(int(x)) for x in r] for r in rec["mt0"]] != self.mt0:
            raise OracleMismatch("spec and harness disagree on mt0")
        if fmm(ft(self.ubi), ft(self.ub0)) != self.F:
            raise OracleMismatch("F = ubi^T.ub0^T is not R.S")
        if list(rec["ms"]) != MS2:
            raise OracleMismatch("unexpected exponent list %r" % (rec["ms"],))
        self.eref = {}
        self.elab = {}
        for i, m2 in enumerate(MS2):
            e = seth_hill(S, m2)
            if fm(rec["eref"][i]) != e:
                raise OracleMismatch("spec and harness disagree on E_ref(m2=%d)" % m2)
            lab = fconj(R, e)
            if seth_hill(self.V, m2) != lab:
                raise OracleMismatch("(V^2m - I)/2m != R.E_ref.R^T in exact arithmetic, m2=%d" % m2)
            if int(rec["elab"][i][1]) != 0:
                if fm(rec["elab"][i]) != lab:
                    raise OracleMismatch("spec and harness disagree on E_lab(m2=%d)" % m2)
            elif rec.get("labexact"):
                raise OracleMismatch("labexact record without lab tensor")
            if ft(e) != e or ft(lab) != lab:
                raise OracleMismatch("asymmetric exact tensor")
            self.eref[m2] = e
            self.elab[m2] = lab
        self.identity = (S == fI())
        self.diagonal = is_diag(S)
        # --- floats
        self.Sf, self.Rf, self.U0f = f2np(S), f2np(R), f2np(U0)
        self.Vf = f2np(self.V)
        self.ubi_f, self.ubi0_f, self.ub0_f = f2np(self.ubi), f2np(self.ubi0), f2np(self.ub0)
        self.Ff = f2np(self.F)
        self.cell = cell_from_mt(self.mt0)
        # logarithmic strain (m = 0): exact for diagonal S (log of the rational diagonal),
        # eigen-decomposition of the exact symmetric S otherwise; validated by exp(E0) = S
        if self.diagonal:
            e0 = np.diag([math.log(S[i][i].numerator) - math.log(S[i][i].denominator) for i in range(3)])
        else:
            w, v = np.linalg.eigh(self.Sf)
            e0 = np.dot(v * np.log(w), v.T)
            e0 = 0.5 * (e0 + e0.T)
        from scipy.linalg import expm
        if abs(expm(e0) - self.Sf).max() > 1e-13:
            raise OracleMismatch("log strain oracle failed exp(E0) = S")
        self.e0_ref = e0
        self.e0_lab = np.dot(np.dot(self.Rf, e0), self.Rf.T)

    # expected tensors (numpy) for exponent m (float) in the frame of a reference rotated by Q
    def ref(self, m, Q=None):
        if m == 0:
            e = self.e0_ref
            if Q is not None:
                q = f2np(Q)
                e = np.dot(np.dot(q.T, e), q)
            return e
        e = self.eref[int(round(2 * m))]
        if Q is not None:
            e = fconjT(Q, e)
        return f2np(e)

    def lab(self, m):
        if m == 0:
            return self.e0_lab
        return f2np(self.elab[int(round(2 * m))])

    def map_U(self):
        """U of the strained grain as ImageD11 defines it (UB = U.B, B upper triangular from the
        strained cell): finished in floats from the exact UB and the exact reciprocal metric."""
        ub = finv(self.ubi)
        rmt = fmm(ft(ub), ub)
        B = np.linalg.cholesky(f2np(rmt)).T           # upper triangular, B^T B = rmt
        return np.dot(f2np(ub), np.linalg.inv(B))


def cell_from_mt(mt):
    a, b, c = [math.sqrt(float(mt[i][i])) for i in range(3)]
    al = math.degrees(math.acos(float(mt[1][2]) / b / c))
    be = math.degrees(math.acos(float(mt[0][2]) / a / c))
    ga = math.degrees(math.acos(float(mt[0][1]) / a / b))
    return [a, b, c, al, be, ga]


def close(x, e):
    """|x - e| <= 1e-9*scale + 1e-12, scale = largest magnitude in the expected tensor; NaN only matches NaN"""
    x = np.asarray(x, float)
    e = np.asarray(e, float)
    if x.shape != e.shape:
        return False
    nx, ne = np.isnan(x), np.isnan(e)
    if (nx != ne).any():
        return False
    if ne.all():
        return True
    scale = np.abs(e[~ne]).max()
    return bool((np.abs(x[~ne] - e[~ne]) <= 1e-9 * scale + 1e-12).all())


def e6(mat):
    return np.array([mat[0, 0], mat[0, 1], mat[0, 2], mat[1, 1], mat[1, 2], mat[2, 2]])


ALLM = [-1.0, -0.5, 0.0, 0.5, 1.0, 1.5, 2.0]


# ----------------------------------------------------------------------------------------------
# replay of records against the real code

def private_shadow():
    """common.build_shadow() keeps only the 6 most recent builds; with several checks running
    concurrently the shared directory can be pruned while this check is still importing from it
    (and the editable install of /repo would then silently take over).  Work on a private copy
    (the .so + the same symlinks) under common.scratch()."""
    import shutil
    last = None
    for attempt in range(4):
        try:
            shadow = common.build_shadow("normal")
            dst = os.path.join(common.scratch(), "shadow_c10_%d" % attempt)
            pk = os.path.join(dst, "ImageD11")
            os.makedirs(pk)
            n_so = 0
            for e in os.listdir(os.path.join(shadow, "ImageD11")):
                src = os.path.join(shadow, "ImageD11", e)
                if os.path.islink(src):
                    os.symlink(os.readlink(src), os.path.join(pk, e))
                else:
                    shutil.copy(src, os.path.join(pk, e))
                    n_so += e.endswith(".so")
            if n_so and os.path.exists(os.path.join(pk, "__init__.py")):
                return dst
            last = "incomplete shadow %s" % shadow
        except (OSError, IOError) as e:
            last = repr(e)
    raise common.MachineryError("could not take a private copy of the shadow package: %s" % last)


_loaded = []


def load_modules():
    """import everything the replay touches right after use_shadow() and make sure the python
    sources really are those of the tree under test (the shadow directory is shared between
    concurrent checks; its symlinks follow whoever built last)"""
    if _loaded:
        return
    import ImageD11.grain, ImageD11.finite_strain, ImageD11.unitcell
    import ImageD11.sinograms.tensor_map as tmod
    root = os.path.realpath(common.REPO) + os.sep
    for mod in (ImageD11.grain, ImageD11.finite_strain, ImageD11.unitcell, tmod):
        src = os.path.realpath(mod.__file__)
        if not src.startswith(root):
            raise common.MachineryError("%s was imported from %s, not from the tree under test %s" %
                                        (mod.__name__, src, root))
    _loaded.append(True)


class Replayer(object):
    def __init__(self, perturb=None):
        load_modules()
        import ImageD11.grain, ImageD11.finite_strain, ImageD11.unitcell
        import ImageD11.sinograms.tensor_map as tmod
        self.grain = ImageD11.grain
        self.fs = ImageD11.finite_strain
        self.unitcell = ImageD11.unitcell
        self.tm = tmod
        self.perturb = perturb        # selftest hook: name of the expected value to corrupt
        self.failures = []            # (route, index, detail)
        self.ncmp = 0

    def cmp(self, route, idx, got, exp, m=None):
        self.ncmp += 1
        if not close(got, exp):
            self.failures.append((route, idx, {"m": m, "got": np.asarray(got, float).tolist(),
                                               "expected": np.asarray(exp, float).tolist()}))
            return False
        return True

    def cmp_sym(self, route, idx, t, exp, m=None):
        self.ncmp += 1
        t = np.asarray(t, float)
        scale = np.abs(exp).max()
        if not (np.abs(t - t.T) <= 1e-9 * scale + 1e-12).all():
            self.failures.append((route, idx, {"m": m, "got": t.tolist(), "expected": "symmetric"}))

    # ---- per grain routes
    def per_case(self, idx, o):
        G = self.grain.grain
        g = G(o.ubi_f)
        g0 = G(o.ubi0_f)
        g0p = G(f2np(fmm(o.L0, ft(U0P))))
        Qp = fmm(o.U0, ft(U0P))
        cell = list(o.cell)
        pert = self.perturb
        for m in ALLM:
            exp_ref = o.ref(m)
            exp_ref_cell = o.ref(m, o.U0)
            exp_ref_p = o.ref(m, Qp)
            exp_lab = o.lab(m)
            if pert == "eref" and m == 1.0:
                exp_ref = exp_ref.copy()
                exp_ref[0, 1] += 1e-6
                exp_ref[1, 0] += 1e-6
            if pert == "lab_transposed":
                exp_lab = np.dot(np.dot(o.Rf.T, o.ref(m)), o.Rf)
            # A: reference = 6 cell parameters (frame of the unrotated reference cell)
            em = g.eps_grain_matrix(cell, m)
            self.cmp("grain.eps_grain_matrix(cell)", idx, em, exp_ref_cell, m)
            self.cmp("grain.eps_grain(cell) e6", idx, g.eps_grain(np.array(cell), m), e6(exp_ref_cell), m)
            sm = g.eps_sample_matrix(cell, m)
            self.cmp("grain.eps_sample_matrix(cell)", idx, sm, exp_lab, m)
            x6 = e6(exp_lab)
            if pert == "e6order":
                x6 = x6[[0, 1, 2, 4, 3, 5]]
            self.cmp("grain.eps_sample(cell) e6", idx, g.eps_sample(cell, m), x6, m)
            # B: reference = the reference grain
            self.cmp("grain.eps_grain_matrix(grain)", idx, g.eps_grain_matrix(g0, m), exp_ref, m)
            self.cmp("grain.eps_grain(grain) e6", idx, g.eps_grain(g0, m), e6(exp_ref), m)
            self.cmp("grain.eps_sample_matrix(grain)", idx, g.eps_sample_matrix(g0, m), exp_lab, m)
            self.cmp("grain.eps_sample(grain) e6", idx, g.eps_sample(g0, m), e6(exp_lab), m)
            # D: the same grain against a re-oriented reference grain: lab unchanged, ref conjugated
            self.cmp("grain.eps_grain_matrix(rotated reference grain)", idx,
                     g.eps_grain_matrix(g0p, m), exp_ref_p, m)
            self.cmp("grain.eps_sample_matrix(rotated reference grain)", idx,
                     g.eps_sample_matrix(g0p, m), exp_lab, m)
            # symmetry (exact in the property; floats: to rounding at the tensor's scale)
            self.cmp_sym("symmetry of grain.eps_grain_matrix", idx, em, exp_ref_cell, m)
            self.cmp_sym("symmetry of grain.eps_sample_matrix", idx, sm, exp_lab, m)
            # C: DeformationGradientTensor directly
            D = self.fs.DeformationGradientTensor(o.ubi_f, o.ub0_f)
            self.cmp("DeformationGradientTensor.finite_strain_ref", idx, D.finite_strain_ref(m), exp_ref, m)
            self.cmp("DeformationGradientTensor.finite_strain_lab", idx, D.finite_strain_lab(m), exp_lab, m)
        # defaults: m = 1/2
        self.cmp("grain.eps_grain(cell) default m", idx, g.eps_grain(cell), e6(o.ref(0.5, o.U0)))
        self.cmp("grain.eps_sample(grain) default m", idx, g.eps_sample(g0), e6(o.lab(0.5)))
        # polar decomposition
        D = self.fs.DeformationGradientTensor(o.ubi_f, o.ub0_f)
        expF = o.Ff if pert != "F_transposed" else o.Ff.T
        self.cmp("DeformationGradientTensor.F", idx, D.F, expF)
        D2 = self.fs.DeformationGradientTensor(g, g0)
        self.cmp("DeformationGradientTensor(grain, grain).F", idx, D2.F, o.Ff)
        self.cmp("DeformationGradientTensor.U", idx, D.U, o.Rf)
        V, Rr, Ss = D.VRS
        self.cmp("DeformationGradientTensor.VRS[V]", idx, V, o.Vf)
        self.cmp("DeformationGradientTensor.VRS[R]", idx, Rr, o.Rf)
        self.cmp("DeformationGradientTensor.VRS[S]", idx, Ss, o.Sf)
        self.cmp("DeformationGradientTensor(grain, grain) default m", idx, D2.finite_strain_lab(), o.lab(0.5))
        # e6 helpers of both modules
        t = o.lab(2.0)
        for mod, nm in ((self.grain, "grain"), (self.fs, "finite_strain")):
            v = mod.symm_to_e6(t)
            self.cmp(nm + ".symm_to_e6", idx, v, e6(t))
            self.cmp(nm + ".e6_to_symm", idx, mod.e6_to_symm(v), t)

    # ---- vectorised routes (m = 1/2), all cases in one call, with masked voxels
    def batch(self, oracles):
        tm = self.tm
        n = len(oracles)
        pad = 3
        N = n + pad
        ubis = np.full((N, 3, 3), np.nan)
        cells = np.full((N, 6), np.nan)
        for i, o in enumerate(oracles):
            ubis[i] = o.ubi_f
            cells[i] = o.cell
        # voxel n: ubi NaN + cell NaN ; n+1 : ubi valid, cell NaN ; n+2 : ubi NaN, cell valid
        ubis[n + 1] = oracles[0].ubi_f
        cells[n + 2] = oracles[0].cell
        nan33 = np.full((3, 3), np.nan)
        es = tm.ubi_and_unitcell_to_eps_sample(ubis, cells)
        ec = tm.ubi_and_unitcell_to_eps_crystal(ubis, cells)
        for i, o in enumerate(oracles):
            exp_lab = o.lab(0.5)
            if self.perturb == "map":
                exp_lab = exp_lab + 1e-7
            self.cmp("tensor_map.ubi_and_unitcell_to_eps_sample", i, es[i], exp_lab, 0.5)
            self.cmp("tensor_map.ubi_and_unitcell_to_eps_crystal", i, ec[i], o.ref(0.5, o.U0), 0.5)
        for j in range(n, N):
            self.cmp("tensor_map.ubi_and_unitcell_to_eps_sample NaN mask", 0, es[j], nan33)
            self.cmp("tensor_map.ubi_and_unitcell_to_eps_crystal NaN mask", 0, ec[j], nan33)
        # tensor rotations with the exact R as U, every exponent
        for m in ALLM:
            T = np.full((N, 3, 3), np.nan)
            U = np.full((N, 3, 3), np.nan)
            for i, o in enumerate(oracles):
                T[i] = o.ref(m)
                U[i] = o.Rf
            T[n + 1] = T[0]
            U[n + 2] = U[0]
            ts = tm.tensor_crystal_to_sample(T, U)
            back = tm.tensor_sample_to_crystal(ts, U)
            for i, o in enumerate(oracles):
                self.cmp("tensor_map.tensor_crystal_to_sample", i, ts[i], o.lab(m), m)
                self.cmp("tensor_map.tensor_sample_to_crystal", i, back[i], o.ref(m), m)
            for j in range(n, N):
                self.cmp("tensor_map.tensor_crystal_to_sample NaN mask", 0, ts[j], nan33)
                self.cmp("tensor_map.tensor_sample_to_crystal NaN mask", 0, back[j], nan33)
        # TensorMap objects: one phase per distinct reference cell, masked voxels with phase -1
        cellkeys = []
        for o in oracles:
            k = tuple(o.cell)
            if k not in cellkeys:
                cellkeys.append(k)
        phases = dict((i, self.unitcell.unitcell(list(k))) for i, k in enumerate(cellkeys))
        nx = int(math.ceil(math.sqrt(N)))
        ny = int(math.ceil(N / float(nx)))
        tot = nx * ny
        UBI = np.full((tot, 3, 3), np.nan)
        pid = np.full((tot,), -1, int)
        order = list(range(n))
        # voxels are interleaved with masked ones: case i sits at 0,1,3,4,6,7.. pattern if room
        slots = [s for s in range(tot)]
        masked = set(slots[2::7])                # every 7th voxel (offset 2) is masked when possible
        free = [s for s in slots if s not in masked]
        if len(free) < n:
            free = slots
            masked = set(slots[n:])
        where = free[:n]
        masked = set(slots) - set(where)
        for i, s in zip(order, where):
            UBI[s] = oracles[i].ubi_f
            pid[s] = cellkeys.index(tuple(oracles[i].cell))

        def newmap():
            return tm.TensorMap(maps={"UBI": UBI.reshape(1, ny, nx, 3, 3).copy(),
                                      "phase_ids": pid.reshape(1, ny, nx).copy()},
                                phases=dict(phases))
        sink = io.StringIO()
        with contextlib.redirect_stdout(sink):
            t1 = newmap()
            es1 = np.array(t1.eps_sample).reshape(tot, 3, 3)           # from UBI
            ec1 = np.array(t1.eps_crystal).reshape(tot, 3, 3)          # derived: U^T . eps_sample . U
            t2 = newmap()
            ec2 = np.array(t2.eps_crystal).reshape(tot, 3, 3)          # from UBI
            es2 = np.array(t2.eps_sample).reshape(tot, 3, 3)           # derived: U . eps_crystal . U^T
        for i, s in zip(order, where):
            o = oracles[i]
            lab = o.lab(0.5)
            cry = o.ref(0.5, o.U0)
            Um = o.map_U()
            self.cmp("TensorMap.eps_sample [from UBI]", i, es1[s], lab, 0.5)
            self.cmp("TensorMap.eps_crystal [from UBI]", i, ec2[s], cry, 0.5)
            # derived maps rotate with the map's own U (= R exactly when S is diagonal and U0 = I)
            self.cmp("TensorMap.eps_crystal [rotated from eps_sample]", i, ec1[s],
                     np.dot(np.dot(Um.T, lab), Um), 0.5)
            self.cmp("TensorMap.eps_sample [rotated from eps_crystal]", i, es2[s],
                     np.dot(np.dot(Um, cry), Um.T), 0.5)
            if o.diagonal and o.U0 == fI():
                # here the rotated maps must be the per-grain tensors themselves
                self.cmp("TensorMap.eps_crystal [rotated from eps_sample]", i, ec1[s], cry, 0.5)
                self.cmp("TensorMap.eps_sample [rotated from eps_crystal]", i, es2[s], lab, 0.5)
        for s in sorted(masked):
            self.cmp("TensorMap.eps_sample NaN mask", 0, es1[s], nan33)
            self.cmp("TensorMap.eps_crystal NaN mask", 0, ec2[s], nan33)
            self.cmp("TensorMap.eps_crystal NaN mask", 0, ec1[s], nan33)
            self.cmp("TensorMap.eps_sample NaN mask", 0, es2[s], nan33)
        self.nmasked = len(masked)

    def run(self, recs):
        oracles = [Oracle(r) for r in recs]
        for i, o in enumerate(oracles):
            self.per_case(i, o)
        self.batch(oracles)
        return oracles


def explained_by_wrong_direction(o, detail):
    """known-finding class: TensorMap.eps_sample derived from eps_crystal equals U^T.eps_crystal.U
    (tensor_sample_to_crystal called where tensor_crystal_to_sample is meant)"""
    Um = o.map_U()
    cry = o.ref(0.5, o.U0)
    wrong = np.dot(np.dot(Um.T, cry), Um)
    return close(np.array(detail["got"]), wrong)


# ----------------------------------------------------------------------------------------------

def parse_records(printed):
    recs, bad = [], 0
    for line in printed:
        try:
            r = json.loads(line)
            assert set(("L0", "U0", "S", "R", "ubi", "eref", "elab")) <= set(r)
            recs.append(r)
        except Exception:
            bad += 1
    return recs, bad


def run_spec(chk, cfgname, workers=16, coverage=False, timeout=1500):
    cfg = os.path.join(common.SPECS, cfgname)
    res = common.run_tlc("Strain", cfg, workers=workers, coverage=coverage, timeout=timeout)
    recs, bad = parse_records(res.printed)
    if bad and res.error is None:
        res = common.run_tlc("Strain", cfg, workers=1, coverage=coverage, timeout=4 * timeout)
        recs, bad = parse_records(res.printed)
        if bad:
            raise common.MachineryError("unparsable TLC output lines (%d)" % bad)
    return res, recs


ACTIONS = ("PickRef", "PickStretch", "PickRot", "Deform", "Ref", "Lab")
INVARIANTS = ("RefLatticeOK", "PolarOK", "RefIsSethHill", "RefSym", "LabIsRotatedRef", "Objectivity",
              "LabObjectivity", "ZeroIff", "FirstOrder")


def judge(chk, recs, rp, oracles):
    """turn the replayer's failures into violations / known findings"""
    byroute = {}
    for route, idx, detail in rp.failures:
        byroute.setdefault(route, []).append((idx, detail))
    entry = chk.finding(FINDING_ID)
    def simplicity(f):
        o = oracles[f[0]]
        r = recs[f[0]]
        return (o.U0 != fI(), not o.diagonal, not is_diag(o.L0), int(r["R"][1]), int(r["S"][1]),
                sum(abs(int(x)) for row in r["S"][0] for x in row), f[0])
    for route in sorted(byroute):
        fails = sorted(byroute[route], key=simplicity)      # report the simplest failing case
        nrep = 0
        seen = set()
        for idx, detail in fails:
            if idx in seen:
                continue
            if entry is not None and route == "TensorMap.eps_sample [rotated from eps_crystal]" and \
                    explained_by_wrong_direction(oracles[idx], detail):
                chk.known_finding(FINDING_ID, "TensorMap.eps_sample derived from eps_crystal is rotated the "
                                  "wrong way (U^T.E.U instead of U.E.U^T)")
                continue
            if nrep < MAXV_PER_ROUTE:
                nrep += 1
                seen.add(idx)
                chk.violation("%s differs from the specification's value (m=%s; %d failing comparisons on this "
                              "route)" % (route, detail.get("m"), len(fails)),
                              {"record": recs[idx], "route": route, "detail": detail})
    return byroute


def run(tier, replay=None):
    chk = common.Check(PROP, tier)
    shadow = private_shadow()
    common.use_shadow(shadow)
    load_modules()
    chk.notes["tolerance"] = "abs(x-e) <= 1e-9*max|e| + 1e-12"
    if replay:
        with open(replay) as f:
            obj = json.load(f)
        rec = obj["case"]["record"]
        rp = Replayer()
        oracles = rp.run([rec])
        chk.case(json.dumps(rec, sort_keys=True))
        chk.traces += 1
        judge(chk, [rec], rp, oracles)
        chk.rule = "replay of one saved record through every route"
        chk.exhaustive = False
        return chk.finish()

    if tier == "quick":
        res, recs = run_spec(chk, "Strain_q.cfg", coverage=False, timeout=600)
        chk.add_tlc("Strain_q exhaustive", res)
    else:
        res, recs = run_spec(chk, "Strain_t.cfg", coverage=False, timeout=2400)
        chk.add_tlc("Strain_t exhaustive", res)
        resc, recsc = run_spec(chk, "Strain_q.cfg", coverage=True, timeout=1200)
        chk.add_tlc("Strain_q with coverage", resc, require_cover=ACTIONS)
        if not resc.coverage or any(resc.coverage.get(a, (0, 0))[1] == 0 for a in ACTIONS):
            raise common.MachineryError("vacuity: coverage of actions %r" % (resc.coverage,))
        chk.notes["action_coverage"] = dict((a, list(resc.coverage[a])) for a in ACTIONS)
        if resc.violated or not resc.finished:
            raise common.MachineryError("coverage run did not finish cleanly: %r" % (resc.violated,))
        have = set(json.dumps(r, sort_keys=True) for r in recs)
        recs += [r for r in recsc if json.dumps(r, sort_keys=True) not in have]
    if res.violated:
        # design-level counterexample of the specification itself: the model or the property's
        # algebra is wrong - this is not something the code did
        raise common.MachineryError("specification invariant violated in TLC: %r\n%s" %
                                    (res.violated, res.stdout[-3000:]))
    if not res.finished:
        raise common.MachineryError("TLC did not finish: %s" % res.stdout[-2000:])
    if not recs:
        raise common.MachineryError("TLC emitted no cases")
    chk.notes["invariants_checked"] = list(INVARIANTS)

    if tier == "thorough":
        selftest(recs)
        chk.notes["selftest"] = "perturbed expectations rejected on 5 route families + exact cross-check"
    rp = Replayer()
    oracles = rp.run(recs)
    # vacuity / non-triviality accounting
    cls = {"identity_stretch": 0, "diagonal_stretch": 0, "full_stretch": 0, "twentieths": 0,
           "pythagorean_rotation": 0, "rotated_reference": 0, "oblique_cell": 0, "lab_exact_in_tlc": 0,
           "first_order_bound_below_strain": 0}
    for r, o in zip(recs, oracles):
        chk.case(json.dumps(r, sort_keys=True), nontrivial=not o.identity)
        chk.traces += 1
        cls["identity_stretch"] += o.identity
        cls["diagonal_stretch"] += (o.diagonal and not o.identity)
        cls["full_stretch"] += (not o.diagonal)
        cls["twentieths"] += (int(r["S"][1]) == 20)
        cls["pythagorean_rotation"] += (int(r["R"][1]) > 1)
        cls["rotated_reference"] += (o.U0 != fI())
        cls["oblique_cell"] += (not is_diag(o.L0))
        cls["lab_exact_in_tlc"] += bool(r["labexact"])
        e = fsub(o.S, fI())
        rn = max(sum(abs(x) for x in row) for row in e)
        k2 = Fr(5, 2) if rn <= Fr(1, 10) else Fr(7)
        cls["first_order_bound_below_strain"] += (0 < k2 * rn * rn < rn)
    for k_, v in cls.items():
        if v == 0:
            raise common.MachineryError("vacuity: no emitted case in class %s" % k_)
    chk.notes["case_classes"] = cls
    chk.notes["comparisons"] = rp.ncmp
    chk.notes["masked_voxels_in_TensorMap"] = rp.nmasked
    chk.evaluations = rp.ncmp
    for r in recs[:2]:
        chk.sample({"S": r["S"], "R": r["R"], "L0": r["L0"], "U0": r["U0"], "eref": r["eref"][:2]})
    byroute = judge(chk, recs, rp, oracles)
    chk.notes["failing_routes"] = dict((k_, len(v)) for k_, v in byroute.items())
    chk.rule = ("every record TLC emits for REFS x STRETCHES x ROTS (%s) is replayed through every route and "
                "every m in -1..2; non-trivial = stretch differs from the identity" %
                ("Strain_q.cfg" if tier == "quick" else "Strain_t.cfg + Strain_q.cfg"))
    chk.exhaustive = True
    chk.assumptions = ["floating point accuracy away from the enumerated rational instances is not decided",
                       "m = 0 and the B matrix of the strained cell are finished in double precision from "
                       "the exact rationals (validated by exp(E0) = S)"]
    return chk.finish()


def selftest(recs=None):
    """the comparison must reject a perturbed expectation on each family of routes"""
    if recs is None:
        shadow = private_shadow()
        common.use_shadow(shadow)
        load_modules()
        res, recs = run_spec(None, "Strain_q.cfg", workers=8, timeout=600)
        if not res.finished or not recs:
            raise common.MachineryError("selftest: TLC run failed")
    # pick records with a full stretch and a Pythagorean rotation
    def suitable(r):
        Rn, Sn = r["R"][0], r["S"][0]
        return (int(r["R"][1]) > 1 and any(Rn[i][j] != Rn[j][i] for i in range(3) for j in range(i))
                and all(Sn[i][j] != 0 for i in range(3) for j in range(i))
                and len(set((Sn[0][0], Sn[1][1], Sn[2][2]))) > 1)
    pick = [r for r in recs if suitable(r)][:3]
    if not pick:
        raise common.MachineryError("selftest: no record with an asymmetric rotation and a full stretch")
    base = Replayer()
    base.run(pick)
    clean = set(rt for rt, _, _ in base.failures)
    want = {"eref": "grain.eps_grain_matrix(grain)", "lab_transposed": "grain.eps_sample_matrix(cell)",
            "e6order": "grain.eps_sample(cell) e6", "F_transposed": "DeformationGradientTensor.F",
            "map": "tensor_map.ubi_and_unitcell_to_eps_sample"}
    for pert, route in want.items():
        rp = Replayer(perturb=pert)
        rp.run(pick)
        got = set(rt for rt, _, _ in rp.failures) - clean
        if route not in got:
            raise common.MachineryError("selftest: perturbation %s was not rejected on %s" % (pert, route))
    # a corrupted specification value must be caught by the exact cross-check
    bad = copy.deepcopy(pick[0])
    bad["eref"][2][0][0][0] += 1
    try:
        Oracle(bad)
    except OracleMismatch:
        pass
    else:
        raise common.MachineryError("selftest: corrupted E_ref accepted by the exact cross-check")
    return True

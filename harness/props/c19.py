"""C19 - scanning geometry is self-consistent; reconstructions land where it predicts.

Specification: specs/ScanGeom.tla (three machines, see its header)
  WALK   behaviours of conversion functions  -> mode B: every emitted walk is executed with the real
         functions of ImageD11.sinograms.geometry, compared after every step with the exact position
  RECON  case oracle for the filtered back-projection -> mode A: predicted pixel, shift, pad, grid,
         sinogram rows, get_voxel_idx windows; the real FBP is run as its consumers run it
  PART   todo[j::workers] -> the jobs handed to the thread pool by roi_iradon.iradon are recorded
         (harness-side wrapper, no source hook) and compared with the specification's jobs
Observed on the real FBP (specification supplies scenario + prediction): 1.5 px bound, linearity,
worker-count independence 1..16, ROI-mask independence.
"""
from __future__ import print_function
import os, sys, json, math, random, time, types, itertools
from fractions import Fraction as F
import common

PROP = "C19"
NOI = -99999
FBP_PX = 1.5          # property statement: within 1.5 pixels
ROI_FINDING = "C19-roi-mask-shift-padding"
REL = 1e-10           # FBP comparisons where only the floating point summation order may differ

WALK_ACTIONS = ["sample_to_lab_sincos", "sample_to_lab", "lab_to_sample_sincos", "lab_to_sample",
                "sample_to_step", "step_to_sample", "step_to_recon", "recon_to_step", "sample_to_recon",
                "recon_to_sample", "lab_to_step", "step_to_lab", "lab_to_recon", "recon_to_lab",
                "dty_values_grain_in_beam_sincos", "dty_values_grain_in_beam", "step_omega_to_dty",
                "recon_omega_to_dty", "step_omega_to_dtyi", "recon_omega_to_dtyi", "dty_to_dtyi",
                "dtyi_to_dty"]
RECON_ACTIONS = ["ShiftAndPad", "StepGrid", "ChoosePad", "Predict"]

M = None              # namespace of the real modules (set by _setup)
np = None


class RealCodeError(Exception):
    """the code under test raised on a valid input"""


def _setup():
    global M, np
    if M is not None:
        return M
    shadow = common.build_shadow("normal")
    common.use_shadow(shadow)
    # persistent numba cache (numba re-validates every entry against the source file stamp); importing
    # point_by_point with an empty cache costs ~30 s
    os.environ["NUMBA_CACHE_DIR"] = "/var/tmp/imaged11_verif_numba_c19"   # not under CACHE_ROOT: build_shadow prunes there
    import numpy
    np = numpy
    ns = types.SimpleNamespace()
    from ImageD11.sinograms import geometry, roi_iradon
    import ImageD11.sinograms.sinogram as sinogram
    import ImageD11.sinograms.dataset as dataset
    import ImageD11.sinograms.point_by_point as pbp
    import ImageD11.grain
    from ImageD11 import cImageD11
    ns.geometry, ns.roi_iradon, ns.sinogram, ns.dataset, ns.pbp = geometry, roi_iradon, sinogram, dataset, pbp
    ns.grain, ns.cImageD11 = ImageD11.grain, cImageD11
    M = ns
    return ns


def call(fn, *a, **k):
    try:
        return fn(*a, **k)
    except Exception as e:            # noqa - anything the code under test raises
        raise RealCodeError("%s raised %r" % (getattr(fn, "__name__", str(fn)), e))


def q(x):
    return F(int(x[0]), int(x[1]))


def fl(x):
    return float(q(x))


def close(x, e, scale):
    return abs(float(x) - float(e)) <= 1e-9 * scale + 1e-12


def parse_printed(res):
    out, bad = [], 0
    for s in res.printed:
        try:
            out.append(json.loads(s))
        except ValueError:
            bad += 1
    return out, bad


# --------------------------------------------------------------------------------------------------
# mode B: walks

ROTATING_DEG = {"sample_to_lab", "lab_to_sample", "lab_to_step", "step_to_lab", "lab_to_recon", "recon_to_lab",
                "dty_values_grain_in_beam", "step_omega_to_dty", "recon_omega_to_dty", "step_omega_to_dtyi",
                "recon_omega_to_dtyi"}


def _tie_ok(got, u):
    """u exact Fraction, half-integer: either neighbour is acceptable when the float arithmetic is inexact"""
    return got in (math.floor(u), math.ceil(u))


def replay_walk(rec, vector=False):
    """Execute one TLC behaviour with the real functions.  Returns a list of failure strings."""
    g = M.geometry
    c = rec["cfg"]
    a = c["om"]
    sn, cs = a[1] / float(a[2]), a[0] / float(a[2])
    om = math.degrees(math.atan2(a[1], a[0]))
    y0, ystep, ymin = fl(c["y0"]), fl(c["ystep"]), fl(c["ymin"])
    qy0, qystep, qymin = q(c["y0"]), q(c["ystep"]), q(c["ymin"])
    shape = tuple(c["shape"])
    frame = c["f0"]
    ex, ey = q(c["start"][0]), q(c["start"][1])
    x, y = float(ex), float(ey)
    if vector:
        x, y = np.array([x, x]), np.array([y, y])
    dty = fl(c["dty0"])
    dtyi = None
    exact = (a[2] == 1)            # all floats so far are exactly the specification's rationals
    dc, tie = c["dc"], c["tie"]
    fails = []
    pscale = max(abs(y0), abs(ymin), 1.0)

    def sc(*v):
        return max([pscale] + [float(np.max(np.abs(np.asarray(t, dtype=float)))) for t in v])

    def cmp_pos(tag, gx, gy, px, py, extra=()):
        s = sc(px, py, dty, *extra)
        for nm, gv, pv in (("x", gx, px), ("y", gy, py)):
            for v in np.atleast_1d(gv):
                if not close(v, pv, s):
                    fails.append("%s: %s = %r, specification %s (= %.17g)" % (tag, nm, float(v), pv, float(pv)))
                    return

    def check_masks(tag, frame, x, y, u):
        """dtyimask_* variants: exactly the bin dtyi_calc is selected"""
        if vector:
            return
        arr = np.arange(dc - 3, dc + 4)
        omv, snv, csv = np.full(len(arr), om), np.full(len(arr), sn), np.full(len(arr), cs)
        if frame == "sample":
            routes = [("dtyimask_from_sample", lambda: g.dtyimask_from_sample(x, y, omv, arr, y0, ystep, ymin), False),
                      ("dtyimask_from_sample_sincos",
                       lambda: g.dtyimask_from_sample_sincos(x, y, snv, csv, arr, y0, ystep, ymin), True)]
        elif frame == "step":
            routes = [("dtyimask_from_step", lambda: g.dtyimask_from_step(x, y, omv, arr, y0, ystep, ymin), False),
                      ("dtyimask_from_step_sincos",
                       lambda: g.dtyimask_from_step_sincos(x, y, snv, csv, arr, y0, ystep, ymin), True)]
        elif frame == "recon":
            routes = [("dtyimask_from_recon",
                       lambda: g.dtyimask_from_recon(x, y, omv, arr, y0, ystep, ymin, shape), False),
                      ("dtyimask_from_recon_sincos",
                       lambda: g.dtyimask_from_recon_sincos(x, y, snv, csv, arr, y0, ystep, ymin, shape), True)]
        else:
            return
        for nm, fn, is_sc in routes:
            m = np.asarray(call(fn))
            sel = [int(v) for v in arr[m]]
            if tie and not (exact and is_sc):
                ok = len(sel) == 1 and _tie_ok(sel[0], u)
            else:
                ok = sel == [dc]
            if not ok:
                fails.append("%s: %s selects dtyi %r, specification dtyi_calc = %d (tie=%s)" % (tag, nm, sel, dc, tie))

    # u = (dty_in_beam - ymin)/ystep of the physical point, exact
    P0 = (q(c["P0"][0]), q(c["P0"][1]))
    u_exact = (qy0 - P0[0] * F(a[1], a[2]) - P0[1] * F(a[0], a[2]) - qymin) / qystep
    seen_frames = set()
    diverged = False
    if frame != "lab":
        check_masks("start", frame, x, y, u_exact)
        seen_frames.add(frame)

    for k, st in enumerate(rec["op"]):
        name = st["a"]
        tag = "step %d %s" % (k + 1, name)
        px, py = q(st["p"][0]), q(st["p"][1])
        ed = q(st["d"])
        prev = (np.max(np.abs(x)), np.max(np.abs(y)))
        if name in ROTATING_DEG:
            inexact_after = True
        else:
            inexact_after = False
        # ---- frame conversions
        if name == "sample_to_lab_sincos":
            x, y = call(g.sample_to_lab_sincos, x, y, y0, dty, sn, cs)
        elif name == "sample_to_lab":
            x, y = call(g.sample_to_lab, x, y, y0, dty, om)
        elif name == "lab_to_sample_sincos":
            x, y = call(g.lab_to_sample_sincos, x, y, y0, dty, sn, cs)
        elif name == "lab_to_sample":
            x, y = call(g.lab_to_sample, x, y, y0, dty, om)
        elif name == "sample_to_step":
            x, y = call(g.sample_to_step, x, y, ystep)
        elif name == "step_to_sample":
            x, y = call(g.step_to_sample, x, y, ystep)
        elif name == "step_to_recon":
            x, y = call(g.step_to_recon, x, y, shape)
        elif name == "recon_to_step":
            x, y = call(g.recon_to_step, x, y, shape)
        elif name == "sample_to_recon":
            x, y = call(g.sample_to_recon, x, y, shape, ystep)
        elif name == "recon_to_sample":
            x, y = call(g.recon_to_sample, x, y, shape, ystep)
        elif name == "lab_to_step":
            x, y = call(g.lab_to_step, x, y, y0, dty, om, ystep)
        elif name == "step_to_lab":
            x, y = call(g.step_to_lab, x, y, y0, dty, om, ystep)
        elif name == "lab_to_recon":
            x, y = call(g.lab_to_recon, x, y, y0, dty, om, shape, ystep)
        elif name == "recon_to_lab":
            x, y = call(g.recon_to_lab, x, y, y0, dty, om, shape, ystep)
        # ---- stage moves / discretisation
        elif name == "dty_values_grain_in_beam_sincos":
            dty = call(g.dty_values_grain_in_beam_sincos, x, y, y0, sn, cs)
        elif name == "dty_values_grain_in_beam":
            dty = call(g.dty_values_grain_in_beam, x, y, y0, om)
            for alias in (g.x_y_y0_omega_to_dty, g.dtycalc):
                d2 = call(alias, om, x, y, y0)
                if not close(np.atleast_1d(d2)[0], ed, sc(ed, *prev)):
                    fails.append("%s: alias %s = %r, specification %s" % (tag, alias.__name__, d2, ed))
        elif name == "step_omega_to_dty":
            dty = call(g.step_omega_to_dty, x, y, om, y0, ystep)
        elif name == "recon_omega_to_dty":
            dty = call(g.recon_omega_to_dty, x, y, om, y0, shape, ystep)
        elif name == "step_omega_to_dtyi":
            dtyi = call(g.step_omega_to_dtyi, x, y, om, y0, ystep, ymin)
            dty = call(g.step_omega_to_dty, x, y, om, y0, ystep)
        elif name == "recon_omega_to_dtyi":
            dtyi = call(g.recon_omega_to_dtyi, x, y, om, y0, shape, ystep, ymin)
            dty = call(g.recon_omega_to_dty, x, y, om, y0, shape, ystep)
        elif name == "dty_to_dtyi":
            dtyi = call(g.dty_to_dtyi, np.asarray(dty), ystep, ymin)
        elif name == "dtyi_to_dty":
            dty = call(g.dtyi_to_dty, dtyi, ystep, ymin)
        else:
            raise common.MachineryError("unknown action %r in walk" % name)
        if inexact_after:
            exact = False
        frame = st["f"]
        # ---- compare with the specification's state
        cmp_pos(tag, x, y, px, py, extra=prev)
        dv = np.atleast_1d(dty)
        if any(not close(v, ed, sc(ed, *prev)) for v in dv):
            fails.append("%s: dty = %r, specification %s (= %.17g)" % (tag, float(dv[0]), ed, float(ed)))
        if st["ph"] >= 2:
            iv = [int(v) for v in np.atleast_1d(dtyi)]
            if st["i"] != dc:
                raise common.MachineryError("specification: dtyi %r differs from dtyi_calc %r" % (st["i"], dc))
            for v in iv:
                if tie and not exact:
                    ok = _tie_ok(v, u_exact)
                    if ok and v != st["i"]:
                        # (dty - ymin)/ystep is exactly k + 1/2 and the floats are not exact: the code may
                        # legitimately take the other neighbour; the rest of the behaviour then differs from
                        # the specification's by one bin, so the comparison stops here
                        diverged = True
                else:
                    ok = (v == st["i"])
                if not ok:
                    fails.append("%s: dtyi = %r, specification %d (tie=%s exact=%s)" % (tag, v, st["i"], tie, exact))
                    break
            if not np.issubdtype(np.asarray(dtyi).dtype, np.integer):
                fails.append("%s: dtyi has dtype %s, not an integer type" % (tag, np.asarray(dtyi).dtype))
        # ---- observations at this state
        if frame != "lab" and frame not in seen_frames:
            seen_frames.add(frame)
            check_masks(tag, frame, x, y, u_exact)
        if st["ph"] in (1, 2) and frame == "sample":
            ly = call(g.sample_to_lab_sincos, x, y, y0, dty, sn, cs)[1]
            if any(not close(v, 0.0, sc(ed, *prev)) for v in np.atleast_1d(ly)):
                fails.append("%s: lab y of the point at dty_values_grain_in_beam is %r, not 0" % (tag, ly))
        if st["ph"] == 3:
            back = call(g.dty_to_dtyi, np.asarray(dty), ystep, ymin)
            if [int(v) for v in np.atleast_1d(back)] != [int(v) for v in np.atleast_1d(dtyi)]:
                fails.append("%s: dty_to_dtyi(dtyi_to_dty(%r)) = %r" % (tag, dtyi, back))
            if frame == "sample":
                ly = call(g.sample_to_lab_sincos, x, y, y0, dty, sn, cs)[1]
                if any(abs(float(v)) > 0.5 * ystep * (1 + 1e-9) + 1e-12 for v in np.atleast_1d(ly)):
                    fails.append("%s: after dtyi_to_dty(dty_to_dtyi) the point is %r from the beam (> ystep/2)" % (tag, ly))
        if fails or diverged:
            break
    return fails


def walk_key(rec):
    c = rec["cfg"]
    return (tuple(c["om"]), tuple(map(tuple, c["P0"])), tuple(c["y0"]), tuple(c["ystep"]), tuple(c["shape"]),
            c["f0"], tuple(c["dty0"]), tuple(c["ymin"]), tuple(s["a"] for s in rec["op"]))


def walk_nontrivial(rec):
    fr = [rec["cfg"]["f0"]] + [s["f"] for s in rec["op"]]
    return len(set(fr)) < len(fr)       # some frame is visited again (a cycle or a stage move)


def judge_walk(chk, rec, idx):
    vec = bool(idx % 2)
    try:
        fails = replay_walk(rec, vector=vec)
    except RealCodeError as e:
        fails = [str(e)]
    chk.case(walk_key(rec), nontrivial=walk_nontrivial(rec))
    chk.traces += 1
    if fails:
        chk.violation("walk %s from %s at omega=%s: %s" % ("->".join(s["a"] for s in rec["op"]), rec["cfg"]["f0"],
                                                            rec["cfg"]["om"], fails[0]),
                      {"kind": "walk", "vector": vec, "rec": rec, "failures": fails})
    return fails


# --------------------------------------------------------------------------------------------------
# partition of the angles over the workers

class _Recorder(object):
    def __init__(self):
        self.jobs = []

    def namespace(self):
        import concurrent.futures as cf
        rec = self

        class Pool(object):
            def __init__(self, max_workers=None, *a, **k):
                self.mw = max_workers
                self.p = cf.ThreadPoolExecutor(max_workers=max_workers)

            def __enter__(self):
                return self

            def __exit__(self, *a):
                self.p.shutdown()
                return False

            def map(self, fn, jobs, *a, **k):
                jobs = [list(j) for j in jobs]
                rec.jobs.append((self.mw, jobs))
                return self.p.map(fn, jobs)

            def submit(self, fn, job, *a, **k):
                try:
                    rec.jobs.append((self.mw, [list(job)]))
                except TypeError:
                    pass
                return self.p.submit(fn, job, *a, **k)

            def shutdown(self, *a, **k):
                self.p.shutdown()
        fut = types.SimpleNamespace(**{k: getattr(cf, k) for k in dir(cf) if not k.startswith("_")})
        fut.ThreadPoolExecutor = Pool
        return types.SimpleNamespace(futures=fut)


def recorded_iradon(sino, theta, workers, **kw):
    """run roi_iradon.iradon with the thread pool replaced by a recording one"""
    ri = M.roi_iradon
    r = _Recorder()
    old = ri.concurrent
    ri.concurrent = r.namespace()
    try:
        out = call(ri.iradon, sino, theta, workers=workers, **kw)
    finally:
        ri.concurrent = old
    return out, r.jobs


def part_case(rec):
    """rec = {n, w, jobs}: the jobs given to the pool are the specification's; the result does not depend on w"""
    n, w = rec["n"], rec["w"]
    rng = np.random.default_rng(1000 * n + w)
    ny = 9 + (n % 2)
    sino = rng.integers(0, 5, size=(ny, n)).astype(float)
    theta = np.linspace(0.0, 180.0, n, endpoint=False)
    fails = []
    ref = call(M.roi_iradon.iradon, sino, theta, workers=1, output_size=ny + 3,
               projection_shifts=np.full(sino.shape, 0.25))
    out, jobs = recorded_iradon(sino, theta, w, output_size=ny + 3, projection_shifts=np.full(sino.shape, 0.25))
    if w >= 2:
        if len(jobs) == 1 and jobs[0][1] is not None:
            got = jobs[0][1]
            if got != rec["jobs"]:
                fails.append("jobs handed to the pool for n=%d workers=%d are %r, specification %r" %
                             (n, w, got, rec["jobs"]))
        elif len(jobs) > 1:
            got = [j[1][0] for j in jobs]
            if sorted(map(tuple, got)) != sorted(map(tuple, rec["jobs"])):
                fails.append("jobs submitted for n=%d workers=%d are %r, specification %r" % (n, w, got, rec["jobs"]))
    else:
        if rec["jobs"] != [list(range(n))]:
            raise common.MachineryError("specification: Partition(n,1) is not the identity")
    s = float(np.abs(ref).max())
    d = float(np.abs(out - ref).max())
    if not d <= REL * s + 1e-300:
        fails.append("iradon(workers=%d) differs from workers=1 by %.3g (max %.3g) for %d angles" % (w, d, s, n))
    return fails, len(jobs)


# --------------------------------------------------------------------------------------------------
# mode A: reconstruction cases

def point_sino(c):
    """point-grain sinogram built with the module's own functions"""
    g = M.geometry
    sx, sy, y0, ystep, ymin = fl(c["sx"]), fl(c["sy"]), fl(c["y0"]), fl(c["ystep"]), fl(c["ymin"])
    ny, scan = c["ny"], c["scan"]
    omega = np.arange(0, scan, 1.0)
    dty = call(g.dty_values_grain_in_beam, sx, sy, y0, omega)
    dtyi = call(g.dty_to_dtyi, dty, ystep, ymin)
    sino = np.zeros((ny, len(omega)), dtype=float)
    inside = (dtyi >= 0) & (dtyi < ny)
    sino[dtyi[inside], np.arange(len(omega))[inside]] = 1.0
    return sino, omega, dty, dtyi, int((~inside).sum())


def peak_distance(recon, pred):
    mx = recon.max()
    ii, jj = np.nonzero(recon == mx)
    d = np.hypot(ii - pred[0], jj - pred[1])
    k = int(np.argmin(d))
    return float(d[k]), (int(ii[k]), int(jj[k])), len(ii)


def recon_case(rec, level=0):
    """One specification case against the real code.  level 0: FBP + geometry functions;
    level 1: + consumers (GrainSinogram.recon, PBPRefine.setmap/setmask), workers, ROI masks, linearity.
    Returns (failures, info)."""
    g, ri = M.geometry, M.roi_iradon
    c, r = rec["cfg"], rec["rec"]
    sx, sy, y0, ystep, ymin = fl(c["sx"]), fl(c["sy"]), fl(c["y0"]), fl(c["ystep"]), fl(c["ymin"])
    ny, scan = c["ny"], c["scan"]
    fails = []
    info = {}
    big = max(abs(y0), abs(ymin), abs(fl(c["ymax"])), 1.0)
    # -- shift and pad
    shift, pad = call(g.sino_shift_and_pad, y0, ny, ymin, ystep)
    if not close(shift, q(r["shift"]), max(ny, abs(fl(r["shift"])))):
        fails.append("sino_shift_and_pad: shift = %r, specification %s" % (shift, q(r["shift"])))
    if int(pad) != r["ownpad"]:
        fails.append("sino_shift_and_pad: pad = %r, specification %d" % (pad, r["ownpad"]))
    # -- grid
    ybincens = ymin + np.arange(ny) * ystep
    gridn = None
    for gs, first, last, cnt in r["grids"]:
        pts = call(g.step_grid_from_ybincens, ybincens, ystep, gs, y0)
        ints = sorted(set(int(p[0]) for p in pts))
        exp = list(range(first, last + 1, gs))
        if len(exp) != cnt:
            raise common.MachineryError("specification grid count inconsistent")
        want = [(i, j) for i in exp for j in exp]
        if [(int(p[0]), int(p[1])) for p in pts] != want:
            fails.append("step_grid_from_ybincens(gridstep=%d): ints %r..%r (%d points), specification %d..%d step %d"
                         % (gs, ints[:1], ints[-1:], len(pts), first, last, gs))
        if gs == 1:
            gridn = int(round(math.sqrt(len(pts))))
    # -- the pad the consumer passes
    if c["padmode"] == "own":
        usepad = int(pad)
    elif c["padmode"] == "own3":
        usepad = int(pad) + 3
    else:
        usepad = gridn - ny            # PBPRefine.setmask: self.sx_grid.shape[0] - whole_sample_sino.shape[0]
    if usepad != r["pad"]:
        fails.append("pad handed to run_iradon (%s) = %r, specification %d" % (c["padmode"], usepad, r["pad"]))
    # -- sinogram rows / voxel windows at the exact angles
    sn = np.array([a["a"][1] / float(a["a"][2]) for a in r["ang"]])
    cs = np.array([a["a"][0] / float(a["a"][2]) for a in r["ang"]])
    dib = np.atleast_1d(call(g.dty_values_grain_in_beam_sincos, sx, sy, y0, sn, cs))
    rows = np.atleast_1d(call(g.dty_to_dtyi, dib, ystep, ymin))
    qymin, qystep = q(c["ymin"]), q(c["ystep"])
    for k, a in enumerate(r["ang"]):
        exact = a["a"][2] == 1
        if not close(dib[k], q(a["dib"]), big):
            fails.append("dty_values_grain_in_beam_sincos at %s = %r, specification %s" % (a["a"], dib[k], q(a["dib"])))
        u = (q(a["dib"]) - qymin) / qystep
        ok = (int(rows[k]) == a["row"]) if (exact or not a["tie"]) else _tie_ok(int(rows[k]), u)
        if not ok:
            fails.append("dty_to_dtyi at %s = %r, specification %d (tie=%s)" % (a["a"], rows[k], a["row"], a["tie"]))
    # get_voxel_idx over (angle k) x (row i) "peaks"
    kk, ii = np.meshgrid(np.arange(len(r["ang"])), np.arange(ny), indexing="ij")
    kk, ii = kk.ravel(), ii.ravel()
    idx, ydist = call(M.pbp.get_voxel_idx, float(y0), float(sx), float(sy), sn[kk], cs[kk],
                      ymin + ii * ystep, float(ystep))
    got = set(int(v) for v in idx)
    for k, a in enumerate(r["ang"]):
        exact = a["a"][2] == 1
        for i in range(ny):
            flat = k * ny + i
            inside = a["vlo"] <= i <= a["vhi"]
            edge = a["vtie"] and i in (a["vlo"], a["vhi"])
            if edge and not exact:
                continue
            if inside != (flat in got):
                fails.append("get_voxel_idx at %s row %d: selected=%s, specification window %d..%d (edge tie=%s)" %
                             (a["a"], i, flat in got, a["vlo"], a["vhi"], a["vtie"]))
                break
    # -- the reconstruction
    sino, omega, dty, dtyi, nout = point_sino(c)
    if nout:
        fails.append("%d of %d projections of a point inside the scanned disc fall outside the sinogram" % (nout, len(omega)))
    recon = call(ri.run_iradon, sino, omega, pad=usepad, shift=shift)
    if recon.shape != (r["outsize"], r["outsize"]):
        fails.append("run_iradon output shape %r, specification %d" % (recon.shape, r["outsize"]))
    pred = (fl(r["pred"][0]), fl(r["pred"][1]))
    pi, pj = call(g.sample_to_recon, sx, sy, recon.shape, ystep)
    if not (close(pi, pred[0], r["outsize"]) and close(pj, pred[1], r["outsize"])):
        fails.append("sample_to_recon on the reconstruction shape = (%r, %r), specification (%s, %s)" %
                     (pi, pj, q(r["pred"][0]), q(r["pred"][1])))
    dist, where, nmax = peak_distance(recon, pred)
    info["dist"] = dist
    if not dist <= FBP_PX:
        fails.append("reconstruction peaks at %r, %.3f px from the predicted (%.3f, %.3f) [ny=%d pad=%d shift=%r scan=%d]"
                     % (where, dist, pred[0], pred[1], ny, usepad, shift, scan))
    bx, by = call(g.recon_to_sample, where[0], where[1], recon.shape, ystep)
    if not math.hypot(bx - sx, by - sy) <= FBP_PX * ystep * (1 + 1e-9):
        fails.append("recon_to_sample(peak) = (%r, %r) is more than 1.5 steps from the grain (%r, %r)" % (bx, by, sx, sy))
    if level >= 1 and not fails:
        fails += _recon_extras(rec, sino, omega, dty, shift, usepad, recon, pred, where)
        # class of the known-finding candidate: only ROI comparisons fail
        info["roi_only"] = bool(fails) and all(f.startswith("ROI mask") for f in fails)
    return fails, info


def _maxdiff(a, b):
    return float(np.abs(np.asarray(a) - np.asarray(b)).max())


def _recon_extras(rec, sino, omega, dty, shift, usepad, recon, pred, where):
    g, ri = M.geometry, M.roi_iradon
    c, r = rec["cfg"], rec["rec"]
    y0, ystep, ymin, ny = fl(c["y0"]), fl(c["ystep"]), fl(c["ymin"]), c["ny"]
    fails = []
    s = float(np.abs(recon).max())
    tol = REL * s
    n = recon.shape[0]
    seed = (c["pq"][0] * 131 + c["pq"][1] * 17 + c["offh"] * 7 + ny) & 0xffff
    rng = np.random.default_rng(seed)
    # iradon called directly as run_iradon calls it
    direct = call(ri.iradon, sino, theta=omega, mask=None, output_size=ny + usepad,
                  projection_shifts=np.full(sino.shape, shift), filter_name="hamming",
                  interpolation="linear", workers=1)
    if _maxdiff(direct, recon) > tol:
        fails.append("iradon(...) and run_iradon(...) differ by %.3g" % _maxdiff(direct, recon))
    # -- worker count 1..16
    for w in range(2, 17):
        rw = call(ri.run_iradon, sino, omega, pad=usepad, shift=shift, workers=w)
        d = _maxdiff(rw, recon)
        if not d <= tol:
            fails.append("run_iradon(workers=%d) differs from workers=1 by %.3g (max %.3g)" % (w, d, s))
            break
    # -- ROI masks
    masks = {}
    m = np.zeros((n, n), bool)
    i0, i1 = max(where[0] - 2, 0), min(where[0] + 3, n)
    j0, j1 = max(where[1] - 2, 0), min(where[1] + 3, n)
    m[i0:i1, j0:j1] = True
    masks["peak neighbourhood"] = m
    m = np.zeros((n, n), bool)
    a0, a1 = sorted(rng.integers(0, n, 2))
    b0, b1 = sorted(rng.integers(0, n, 2))
    m[a0:a1 + 1, b0:b1 + 1] = True
    masks["sub-rectangle"] = m
    masks["random"] = rng.random((n, n)) < 0.3
    masks["single pixel"] = np.zeros((n, n), bool)
    masks["single pixel"][where] = True
    masks["all"] = np.ones((n, n), bool)
    for nm, m in masks.items():
        for w in (1, 3):
            rm = call(ri.run_iradon, sino, omega, pad=usepad, shift=shift, workers=w, mask=m)
            if rm.shape != recon.shape:
                fails.append("ROI mask %s: shape %r" % (nm, rm.shape))
                continue
            din = _maxdiff(rm[m], recon[m]) if m.any() else 0.0
            dout = float(np.abs(rm[~m]).max()) if (~m).any() else 0.0
            if not din <= tol or dout != 0.0:
                fails.append("ROI mask '%s' (workers=%d, shift=%r): inside differs from the full reconstruction by %.3g, "
                             "outside max %.3g (max of the reconstruction %.3g)" % (nm, w, shift, din, dout, s))
                break
    # -- linearity: integer combinations of two sparse integer sinograms
    s2 = np.zeros_like(sino)
    pts = rng.integers(0, sino.size, 25)
    s2.flat[pts] = rng.integers(1, 6, len(pts))
    r2 = call(ri.run_iradon, s2, omega, pad=usepad, shift=shift)
    for (ca, cb) in ((1, 1), (2, -3), (5, 7)):
        rc = call(ri.run_iradon, ca * sino + cb * s2, omega, pad=usepad, shift=shift)
        lin = ca * recon + cb * r2
        sc_ = abs(ca) * s + abs(cb) * float(np.abs(r2).max())
        d = _maxdiff(rc, lin)
        if not d <= REL * sc_:
            fails.append("FBP not linear: R(%d a + %d b) differs from %d R(a) + %d R(b) by %.3g (scale %.3g)" %
                         (ca, cb, ca, cb, d, sc_))
    # -- consumer 1: GrainSinogram.recon, parameters set as in nbGui/S3DXRD/tomo_2_map.ipynb
    ybincens = ymin + np.arange(ny) * ystep
    if c["padmode"] != "pbp":
        ds = call(M.dataset.DataSet)
        ds.ybincens = ybincens
        ds.ystep = ystep
        gs = call(M.sinogram.GrainSinogram, M.grain.grain(np.eye(3)), ds)
        gs.ssino, gs.sinoangles = sino, omega
        sh2, pad2 = call(g.sino_shift_and_pad, y0, len(ds.ybincens), min(ds.ybincens), ds.ystep)
        if c["padmode"] == "own3":
            pad2 = pad2 + 3
        call(gs.update_recon_parameters, y0=y0, shift=sh2, pad=pad2)
        for w in (1, 4):
            rg = call(gs.recon, method="iradon", workers=w)
            if rg.shape != recon.shape or _maxdiff(rg, recon) > tol:
                fails.append("GrainSinogram.recon(workers=%d) differs from run_iradon with the module's shift and pad" % w)
            elif peak_distance(rg, pred)[0] > FBP_PX:
                fails.append("GrainSinogram.recon peaks %.3f px from the prediction" % peak_distance(rg, pred)[0])
        msk = np.zeros((n, n), bool)
        msk[i0:i1, j0:j1] = True
        call(gs.update_recon_parameters, mask=msk)
        rg = call(gs.recon, method="iradon", workers=2)
        if _maxdiff(rg[msk], recon[msk]) > tol or np.abs(rg[~msk]).max() != 0:
            fails.append("ROI mask: GrainSinogram.recon with recon_mask differs from the full reconstruction inside the mask")
    else:
        # -- consumer 2: PBPRefine.setmap / setmask
        pb = M.pbp
        scan = c["scan"]
        dset = types.SimpleNamespace(ybincens=ybincens, ystep=ystep,
                                     ybinedges=ymin - ystep / 2 + np.arange(ny + 1) * ystep,
                                     obincens=np.arange(0, scan, 1.0), obinedges=np.arange(0, scan + 1, 1.0) - 0.5,
                                     refmapfile=None, refpeaksfile=None, refoutfile=None, refmanfile=None)
        ref = call(pb.PBPRefine, dset, "phase", y0=y0)
        grid = call(g.step_grid_from_ybincens, ybincens, ystep, 1, y0)
        pmap = types.SimpleNamespace(i=np.array([p[0] for p in grid]), j=np.array([p[1] for p in grid]))
        call(ref.setmap, pmap)
        if ref.sx_grid.shape != recon.shape:
            fails.append("PBPRefine.setmap grid shape %r, specification %d" % (ref.sx_grid.shape, r["outsize"]))
        else:
            ai, aj = np.mgrid[:n, :n]
            gx, gy = call(g.recon_to_sample, ai, aj, ref.sx_grid.shape, ystep)
            if _maxdiff(gx, ref.sx_grid) > 1e-9 * n * ystep or _maxdiff(gy, ref.sy_grid) > 1e-9 * n * ystep:
                fails.append("PBPRefine sx_grid/sy_grid are not recon_to_sample of the pixel indices")
        ref.icolf = types.SimpleNamespace(dty=np.asarray(dty), omega=omega)
        captured = []
        real = pb.run_iradon

        def spy(*a, **k):
            out = real(*a, **k)
            captured.append((a, k, out))
            return out
        pb.run_iradon = spy
        try:
            call(ref.setmask, manual_threshold=None, doplot=False, use_icolf=True)
        finally:
            pb.run_iradon = real
        if len(captured) != 1:
            fails.append("PBPRefine.setmask did not call run_iradon once")
        else:
            rp = captured[0][2]
            if rp.shape != recon.shape:
                fails.append("PBPRefine.setmask reconstruction shape %r, grid %r" % (rp.shape, recon.shape))
            else:
                dd, wh, _ = peak_distance(rp, pred)
                if not dd <= FBP_PX:
                    fails.append("PBPRefine.setmask reconstruction peaks at %r, %.3f px from the predicted (%.3f, %.3f)"
                                 % (wh, dd, pred[0], pred[1]))
                if ref.mask.shape != recon.shape:
                    fails.append("PBPRefine.mask shape %r" % (ref.mask.shape,))
    return fails


def recon_key(rec):
    c = rec["cfg"]
    return (c["ny"], c["offh"], tuple(c["pq"]), tuple(c["ystep"]), c["scan"], c["padmode"], c["yminmode"])


def _pool_recon(args):
    rec, level = args
    try:
        fails, info = recon_case(rec, level)
    except RealCodeError as e:
        fails, info = [str(e)], {}
    return fails, info


def run_recon_cases(chk, recs, levels, procs=8):
    """levels[i] = 0 / 1.  FBP cases are independent: fork a few processes."""
    import multiprocessing as mp
    worst = 0.0
    items = list(zip(recs, levels))
    results = None
    if procs > 1 and len(items) > 64:
        # compile the numba kernel once, before forking
        call(M.pbp.get_voxel_idx, 0.0, 0.0, 0.0, np.zeros(2), np.ones(2), np.zeros(2), 1.0)
        try:
            ctx = mp.get_context("fork")
            with ctx.Pool(procs) as pool:
                results = pool.map(_pool_recon, items, chunksize=8)
        except (OSError, ValueError):
            results = None
    if results is None:
        results = [_pool_recon(it) for it in items]
    for (rec, level), (fails, info) in zip(items, results):
        c = rec["cfg"]
        chk.case(recon_key(rec), nontrivial=(c["pq"] != [0, 0] or c["offh"] != 0))
        chk.traces += 1
        worst = max(worst, info.get("dist", 0.0))
        if fails:
            what = ("point grain at (%s, %s) y0 offset %s/2 steps ny=%d ystep=%s scan=%d pad=%s: %s" %
                    (q(c["sx"]), q(c["sy"]), c["offh"], c["ny"], q(c["ystep"]), c["scan"], c["padmode"], fails[0]))
            # structural match of the known-finding class: nothing but ROI comparisons fail, and the
            # specification says the interpolation grid of this case is not increasing (XiZeroCharacterised)
            if info.get("roi_only") and not rec["rec"]["ximono"] and chk.finding(ROI_FINDING):
                chk.known_finding(ROI_FINDING, "ROI-restricted FBP differs from the full FBP where |shift| >= 1 "
                                               "(zero-padded projection shifts make np.interp's grid non-increasing)")
            else:
                chk.violation(what, {"kind": "recon", "level": level, "rec": rec, "failures": fails})
    return worst


# --------------------------------------------------------------------------------------------------

def _tlc(chk, label, cfg, actions=None, **kw):
    kw.setdefault("workers", 16)
    kw.setdefault("timeout", 1500)
    res = common.run_tlc("ScanGeom", os.path.join(common.SPECS, cfg), coverage=True, **kw)
    if res.violated:
        # the specification is static: its invariants do not depend on the tree under test
        raise common.MachineryError("TLC run %s: invariant %s violated in the specification itself\n%s" %
                                    (label, res.violated, res.stdout[-3000:]))
    chk.add_tlc(label, res, require_cover=actions or ())
    recs, bad = parse_printed(res)
    if bad:
        res = common.run_tlc("ScanGeom", os.path.join(common.SPECS, cfg), **dict(kw, workers=1))
        recs, bad = parse_printed(res)
        if bad or res.error:
            raise common.MachineryError("TLC output of %s could not be parsed (%d lines)" % (label, bad))
    if not recs:
        raise common.MachineryError("TLC run %s emitted nothing" % label)
    return recs


def run(tier, replay=None):
    _setup()
    if replay:
        return do_replay(replay)
    chk = common.Check(PROP, tier)
    rnd = random.Random(common.seed())
    thorough = tier == "thorough"

    # ---- PART
    parts = _tlc(chk, "ScanGeom part n<=12 w<=16", "ScanGeom_part.cfg", actions=["TakeJob"], timeout=300)
    nrec = 0
    for rec in parts:
        try:
            fails, nj = part_case(rec)
        except RealCodeError as e:
            fails, nj = [str(e)], 0
        nrec += (nj > 0)
        chk.case(("part", rec["n"], rec["w"]), nontrivial=rec["w"] >= 2 and rec["n"] >= 2)
        chk.traces += 1
        if fails:
            chk.violation("angle partition n=%d workers=%d: %s" % (rec["n"], rec["w"], fails[0]),
                          {"kind": "part", "rec": rec, "failures": fails})
    chk.notes["partition_cases_with_recorded_jobs"] = nrec

    # ---- WALK (mode B)
    walks = _tlc(chk, "ScanGeom walk depth 4 " + ("thorough" if thorough else "quick"),
                 "ScanGeom_walk_t.cfg" if thorough else "ScanGeom_walk_q.cfg", actions=WALK_ACTIONS)
    nsim = 4000 if thorough else 800
    sim = _tlc(chk, "ScanGeom walk simulate depth 8", "ScanGeom_walk_sim.cfg", actions=None,
               simulate=max(nsim // 16, 1), depth=9, seed_=common.seed())
    seen = set()
    allw = []
    for rec in walks + sim:
        k = walk_key(rec)
        if k not in seen:
            seen.add(k)
            allw.append(rec)
    t0 = time.time()
    for i, rec in enumerate(allw):
        judge_walk(chk, rec, i)
        if i < 2:
            chk.sample({"walk": rec})
    chk.notes["walks_replayed"] = len(allw)
    chk.notes["walk_replay_s"] = round(time.time() - t0, 1)

    # ---- RECON (mode A)
    cases = _tlc(chk, "ScanGeom recon " + ("all offsets" if thorough else "7 offsets"),
                 "ScanGeom_recon.cfg" if thorough else "ScanGeom_recon_q.cfg", actions=RECON_ACTIONS)
    cases.sort(key=recon_key)
    if not thorough:
        cases = rnd.sample(cases, min(700, len(cases)))
    nlevel1 = 160 if thorough else 24
    pick = set(rnd.sample(range(len(cases)), min(nlevel1, len(cases))))
    levels = [1 if i in pick else 0 for i in range(len(cases))]
    t0 = time.time()
    worst = run_recon_cases(chk, cases, levels)
    chk.sample({"recon_case": cases[0]})
    chk.notes["fbp_cases"] = len(cases)
    chk.notes["fbp_cases_with_workers_roi_linearity_consumers"] = sum(levels)
    chk.notes["fbp_worst_distance_px"] = round(worst, 4)
    chk.notes["fbp_s"] = round(time.time() - t0, 1)
    chk.notes["tolerances"] = {"positions": "1e-9*scale+1e-12", "fbp_peak_px": FBP_PX, "fbp_rel": REL}
    chk.notes["workers_exercised"] = list(range(1, 17))

    chk.rule = ("walks: every behaviour of 4 conversions TLC enumerates from every frame (+ seeded simulated walks of 8), "
                "non-trivial = a frame is visited twice; recon: every (position in the scanned disc, y0 offset, ystep, ny, "
                "scan, pad mode, ymin) case of the specification%s, non-trivial = off-axis point or off-centre y0; "
                "partition: every (n<=12, workers<=16)" % ("" if thorough else " at 7 offsets, seeded sample of 700"))
    chk.exhaustive = bool(thorough)
    chk.assumptions = ["1.5 px bound, linearity, worker and ROI independence are observed on the real FBP at the "
                       "specification's cases; the specification supplies the predicted pixel and the partition lemma",
                       "exact instances: omega in right/Pythagorean angles, lengths in half/quarter steps"]
    if thorough:
        selftest()
    return chk.finish()


# --------------------------------------------------------------------------------------------------

def do_replay(path):
    with open(path) as f:
        obj = json.load(f)
    case = obj["case"]
    kind = case["kind"]
    try:
        if kind == "walk":
            fails = replay_walk(case["rec"], vector=case.get("vector", False))
        elif kind == "recon":
            fails, _ = recon_case(case["rec"], level=case.get("level", 0))
        elif kind == "part":
            fails, _ = part_case(case["rec"])
        else:
            raise common.MachineryError("unknown replay kind %r" % kind)
    except RealCodeError as e:
        fails = [str(e)]
    if fails:
        for s in fails[:5]:
            print("  " + s)
        print("VIOLATION property=%s replay=%s" % (PROP, path))
        return 1
    print("%s replay: the saved case passes on the current tree" % PROP)
    return 0


def selftest():
    """the comparisons must reject a perturbed expectation"""
    _setup()
    import copy
    scr = common.scratch()
    res = common.run_tlc("ScanGeom", os.path.join(common.SPECS, "ScanGeom_walk_q.cfg"), workers=4, timeout=600)
    walks, _ = parse_printed(res)
    if not walks:
        raise common.MachineryError("selftest: no walks")
    good = [w for w in walks if any(s["ph"] >= 2 for s in w["op"]) and not w["cfg"]["tie"]][0]
    if replay_walk(good):
        raise common.MachineryError("selftest: reference walk does not pass")
    w = copy.deepcopy(good)
    n, d = w["op"][1]["p"][0]
    w["op"][1]["p"][0] = [n * 1000 + d, d * 1000]          # + 1/1000
    if not replay_walk(w):
        raise common.MachineryError("selftest: perturbed walk position not rejected")
    w = copy.deepcopy(good)
    for s in w["op"]:
        if s["ph"] >= 2:
            s["i"] += 1
    w["cfg"]["dc"] += 1
    if not replay_walk(w):
        raise common.MachineryError("selftest: perturbed dtyi not rejected")
    res = common.run_tlc("ScanGeom", os.path.join(common.SPECS, "ScanGeom_part.cfg"), workers=2, timeout=300)
    parts, _ = parse_printed(res)
    p = copy.deepcopy([r for r in parts if r["n"] == 7 and r["w"] == 3][0])
    if part_case(p)[0]:
        raise common.MachineryError("selftest: reference partition does not pass")
    p["jobs"][0][1], p["jobs"][1][1] = p["jobs"][1][1], p["jobs"][0][1]
    if not part_case(p)[0]:
        raise common.MachineryError("selftest: perturbed partition not rejected")
    res = common.run_tlc("ScanGeom", os.path.join(common.SPECS, "ScanGeom_recon_q.cfg"), workers=8, timeout=900)
    cases, _ = parse_printed(res)
    c0 = [c for c in cases if c["cfg"]["pq"] == [30, 21] and c["cfg"]["offh"] == 7][0]
    if recon_case(c0)[0]:
        raise common.MachineryError("selftest: reference recon case does not pass")
    c = copy.deepcopy(c0)
    n, d = c["rec"]["pred"][0]
    c["rec"]["pred"][0] = [n + 3 * d, d]                    # + 3 px
    if not recon_case(c)[0]:
        raise common.MachineryError("selftest: perturbed predicted pixel not rejected")
    c = copy.deepcopy(c0)
    c["rec"]["shift"] = [c["rec"]["shift"][0] + c["rec"]["shift"][1], c["rec"]["shift"][1]]
    if not recon_case(c)[0]:
        raise common.MachineryError("selftest: perturbed shift not rejected")
    c = copy.deepcopy(c0)
    c["rec"]["ang"][4]["vhi"] += 1
    if not recon_case(c)[0]:
        raise common.MachineryError("selftest: perturbed voxel window not rejected")
    return True

"""C19 - scanning geometry is self-consistent; reconstructions land where it predicts.

Specification: specs/ScanGeom.tla (three machines, see its header)
  WALK   behaviours of conversion functions  -> mode B: every emitted walk is executed with the real
         functions of ImageD11.sinograms.geometry, compared after every step with the exact position.
         Array arguments: the walks that differ only in the angle form a group, element i of every array
         (position, omega / sin / cos, dty) belongs to walk i (distinct elements); scalar arguments: every
         third walk.  omega is passed as the specification's angle -1 / 0 / +1 whole turns.  Steps 1/10 and
         3/7 (not binary fractions: no float exact; an exact half-integer may round to either neighbour).
         REPEAT LAW (FunctionOfCurrentValues: every operation is a function of the current VALUES of its arguments,
         not of earlier calls or of the identity of an array): the machine has the caller's actions set_omega
         (omega changed IN PLACE to the next angle: same array object, other contents; sin / cos likewise) and repeat
         (the argument objects get the values of the last call back, in place, and the function is called again)
         in ScanGeom_walk_rep*.cfg and in the simulated walks; and the array arguments (position, omega, sin, cos,
         dty, dtyi) of ALL groups of one size are the same objects for the whole run, rewritten in place from call
         to call, results written back into them.  A saved violation carries the group that used the objects before.
  RECON  case oracle for the filtered back-projection -> mode A: predicted pixel, shift, pad, grid,
         sinogram rows, get_voxel_idx windows, the exact (sx, sy, y0) a fit of the in-beam dty has to return
         (fit_sine_wave / sx_sy_y0_from_dty_omega); the real FBP is run as its consumers run it.  With ystep
         1/10 the integers the code takes with ceil / floor of an exact integer may fall on the far side
         (pad + 1, grid + 1 each side); the prediction is then made for the actual shape (step + shape // 2).
  PART   [todo[j::stride] for j < pool]: the partition law for EVERY (stride, pool size) pair; the code's
         law is stride = pool = workers (None / < 1: cores_available()).  The pool size and the jobs handed
         to the thread pool by roi_iradon.iradon are recorded (harness-side wrapper, no source hook) in this
         process for every (n, workers) and in CHILD PROCESSES (harness/c19_child.py) whose cpu affinity
         mask is restricted to 1, 2, 3 cpus, with and without the variables of a batch allocation
         (OMP_NUM_THREADS, SLURM_*, NUMBER_OF_PROCESSORS), for workers 1..16 and None: the recorded jobs must
         be a record of the specification that is a partition, and every reconstruction (small sinograms,
         full-size point grains through run_iradon and GrainSinogram.recon) must equal the one-worker one.
Observed on the real FBP (specification supplies scenario + prediction): 1.5 px bound (also for the scan
described with omega + 360 k, in decreasing 2 degree steps, with an offset start), linearity, worker-count
independence 1..16 and None, ROI-mask independence (incl. the empty mask), for float64 and float32 sinograms
(REL32), and - harness-side families, the model does not mention interpolant or filter - the relational
clauses for interpolation linear / nearest / cubic x filter ramp / shepp-logan / cosine / hamming / hann /
None, projection_shifts None, output_size None; GrainSinogram.recon(projections=subset).
The repeat law on the FBP (harness-side): every case runs run_iradon a third time at the end (bit-identical to the
first, one worker), every option combination is called again after the worker / ROI runs and once more after the
other combinations at the same padded size, the consumers' hamming / linear call after all of them; the other
description of the scan is written IN PLACE into the omega array of the first sinogram (then restored in place and the
first sinogram asked again), the in-beam dty of every description compared with y0 - sx sin - sy cos of the current
contents computed here.
Recorded, not judged (outside the statement): integer sinograms (raise), workers = 0 / -1,
fit_sample_position_from_recon, peak distance with nearest / cubic interpolation.
"""
from __future__ import print_function
import os, sys, json, math, random, time, types, itertools
from fractions import Fraction as F
import common

PROP = "C19"
NOI = -99999
FBP_PX = 1.5          # property statement: within 1.5 pixels
ROI_FINDING = "C19-roi-mask-shift-padding"
REL = 1e-10           # FBP comparisons where only the floating point summation order may differ
REL32 = 1e-5          # the same for float32 sinograms (the reconstruction is accumulated in float32)
FIT_REL = 1e-6        # fit_sine_wave: an iterative least-squares fit of exact data (scipy tolerances 1e-8)
INTERPS = ["linear", "nearest", "cubic"]
FILTERS = ["ramp", "shepp-logan", "cosine", "hamming", "hann", None]

REPEAT_ACTIONS = ["set_omega", "repeat"]        # WRepeat = TRUE: ScanGeom_walk_rep*.cfg, ScanGeom_walk_sim.cfg
WALK_ACTIONS = ["sample_to_lab_sincos", "sample_to_lab", "lab_to_sample_sincos", "lab_to_sample",
                "sample_to_step", "step_to_sample", "step_to_recon", "recon_to_step", "sample_to_recon",
                "recon_to_sample", "lab_to_step", "step_to_lab", "lab_to_recon", "recon_to_lab",
                "dty_values_grain_in_beam_sincos", "dty_values_grain_in_beam", "step_omega_to_dty",
                "recon_omega_to_dty", "step_omega_to_dtyi", "recon_omega_to_dtyi", "dty_to_dtyi",
                "dtyi_to_dty"]
RECON_ACTIONS = ["ShiftAndPad", "StepGrid", "ChoosePad", "Predict"]

M = None              # namespace of the real modules (set by _setup)
np = None


class RealCodeError(Exception):
    """the code under test raised on a valid input"""


def _setup():
    global M, np
    if M is not None:
        return M
    shadow = common.build_shadow("normal")
    common.use_shadow(shadow)
    # persistent numba cache (numba re-validates every entry against the source file stamp); importing
    # point_by_point with an empty cache costs ~30 s
    os.environ["NUMBA_CACHE_DIR"] = "/var/tmp/imaged11_verif_numba_c19"   # not under CACHE_ROOT: build_shadow prunes there
    import numpy
    np = numpy
    ns = types.SimpleNamespace()
    from ImageD11.sinograms import geometry, roi_iradon
    import ImageD11.sinograms.sinogram as sinogram
    import ImageD11.sinograms.dataset as dataset
    import ImageD11.sinograms.point_by_point as pbp
    import ImageD11.grain
    from ImageD11 import cImageD11
    ns.geometry, ns.roi_iradon, ns.sinogram, ns.dataset, ns.pbp = geometry, roi_iradon, sinogram, dataset, pbp
    ns.grain, ns.cImageD11 = ImageD11.grain, cImageD11
    ns.shadow = shadow
    M = ns
    return ns


def call(fn, *a, **k):
    try:
        return fn(*a, **k)
    except Exception as e:            # noqa - anything the code under test raises
        raise RealCodeError("%s raised %r" % (getattr(fn, "__name__", str(fn)), e))


def q(x):
    return F(int(x[0]), int(x[1]))


def fl(x):
    return float(q(x))


def close(x, e, scale):
    return abs(float(x) - float(e)) <= 1e-9 * scale + 1e-12


def parse_printed(res):
    out, bad = [], 0
    for s in res.printed:
        try:
            out.append(json.loads(s))
        except ValueError:
            bad += 1
    return out, bad


# --------------------------------------------------------------------------------------------------
# mode B: walks

ROTATING_DEG = {"sample_to_lab", "lab_to_sample", "lab_to_step", "step_to_lab", "lab_to_recon", "recon_to_lab",
                "dty_values_grain_in_beam", "step_omega_to_dty", "recon_omega_to_dty", "step_omega_to_dtyi",
                "recon_omega_to_dtyi"}


def _tie_ok(got, u):
    """u exact Fraction, half-integer: either neighbour is acceptable when the float arithmetic is inexact"""
    return got in (math.floor(u), math.ceil(u))


def dyadic(x):
    """x = [num, den] reduced: the float of x is exact (for the small numerators of the specification)"""
    d = int(x[1])
    return d & (d - 1) == 0


_WALK_BUFFERS = {}


def _walk_buffers(K):
    """the array arguments of every walk group of K elements: one object per role for the whole run"""
    if K not in _WALK_BUFFERS:
        b = {k: np.zeros(K) for k in ("x", "y", "om", "sn", "cs", "dty")}
        b["dtyi"] = np.zeros(K, dtype=np.int64)
        _WALK_BUFFERS[K] = b
    return _WALK_BUFFERS[K]


def _om0(rec):
    """the angle a walk starts with (cfg.om of an emitted walk is the angle it ends with)"""
    return rec["cfg"].get("om0", rec["cfg"]["om"])


def replay_walk(recs, vector=False, turns=None):
    """Execute TLC behaviours with the real functions.  Returns a list of failure strings.
    recs: one record (scalar arguments), or - vector=True - a list of records that differ only in the angle
    (same lengths, start frame and action names): element i of every array argument (position, omega / sin / cos,
    dty) belongs to recs[i], so the elements of the vectors are distinct.  turns[i] whole turns are added to the
    omega of element i where it is passed in degrees (the specification's angles are classes mod 360)."""
    g = M.geometry
    if isinstance(recs, dict):
        recs = [recs, recs] if vector else [recs]
    if not vector and len(recs) != 1:
        raise common.MachineryError("scalar walk with %d records" % len(recs))
    K = len(recs)
    turns = list(turns) if turns is not None else [0] * K
    c = recs[0]["cfg"]
    names = [st["a"] for st in recs[0]["op"]]
    for r in recs[1:]:
        c2 = r["cfg"]
        if [st["a"] for st in r["op"]] != names or any(c2[k] != c[k] for k in ("y0", "ystep", "ymin", "shape", "f0", "dty0", "P0")):
            raise common.MachineryError("walk group mixes configurations")

    def A(vals):
        return np.array(vals, dtype=float) if vector else vals[0]

    B = _walk_buffers(K) if vector else None

    def A(vals, key):
        """scalar walks: the number.  Array walks: the ONE array object of this role for every group of K elements,
        rewritten in place (the functions see the same objects again and again, only the contents differ)"""
        if not vector:
            return vals[0]
        B[key][:] = vals
        return B[key]

    def put(key, v):
        """a result becomes the argument of the next call: written into the persistent object of its role"""
        if not vector:
            return v
        v = np.asarray(v)
        if v.shape not in ((K,), (), (1,)):
            raise RealCodeError("result of shape %r for arguments of %d elements" % (v.shape, K))
        if key == "dtyi" and not np.issubdtype(v.dtype, np.integer):
            return v                      # reported below (dtype check); not forced into the integer buffer
        B[key][:] = v
        return B[key]

    def angle_args(angs):
        return (A([a[1] / float(a[2]) for a in angs], "sn"), A([a[0] / float(a[2]) for a in angs], "cs"),
                A([math.degrees(math.atan2(a[1], a[0])) + 360.0 * t for a, t in zip(angs, turns)], "om"))

    angs = [_om0(r) for r in recs]
    sn, cs, om = angle_args(angs)
    y0, ystep, ymin = fl(c["y0"]), fl(c["ystep"]), fl(c["ymin"])
    qy0, qystep, qymin = q(c["y0"]), q(c["ystep"]), q(c["ymin"])
    shape = tuple(c["shape"])
    frame = c["f0"]
    x = A([float(q(r["cfg"]["start"][0])) for r in recs], "x")
    y = A([float(q(r["cfg"]["start"][1])) for r in recs], "y")
    dty = A([fl(c["dty0"])] * K, "dty")
    dtyi = None
    # all floats so far are exactly the specification's rationals (lengths are multiples of ystep / 2)
    exact = [(a[2] == 1) and dyadic(c["ystep"]) for a in angs]
    # cfg.om / dc / tie of an emitted walk are the final ones (they move with set_omega): start from om0 / dc0 / tie0
    dcs = [r["cfg"].get("dc0", r["cfg"]["dc"]) for r in recs]
    ties = [r["cfg"].get("tie0", r["cfg"]["tie"]) for r in recs]
    fails = []
    pscale = max(abs(y0), abs(ymin), 1.0)

    def el(v):
        """the K elements of a result"""
        v = np.asarray(v)
        if v.ndim == 0 or v.shape == (1,):
            return [v.reshape(-1)[0]] * K
        if v.shape != (K,):
            raise RealCodeError("result of shape %r for arguments of %d elements" % (v.shape, K))
        return list(v)

    def sc(*v):
        return max([pscale] + [float(np.max(np.abs(np.asarray(t, dtype=float)))) for t in v])

    def cmp_pos(tag, gx, gy, pxs, pys, extra=()):
        s = sc([float(t) for t in pxs], [float(t) for t in pys], dty, *extra)
        for nm, gv, pv in (("x", gx, pxs), ("y", gy, pys)):
            for i, v in enumerate(el(gv)):
                if not close(v, pv[i], s):
                    fails.append("%s: %s%s = %r, specification %s (= %.17g)" %
                                 (tag, nm, "[%d]" % i if vector else "", float(v), pv[i], float(pv[i])))
                    return

    def check_masks(tag, frame, x, y, u):
        """dtyimask_* variants: exactly the bin dtyi_calc is selected"""
        if vector:
            return
        dc, tie = dcs[0], ties[0]
        arr = np.arange(dc - 3, dc + 4)
        omv, snv, csv = np.full(len(arr), om), np.full(len(arr), sn), np.full(len(arr), cs)
        if frame == "sample":
            routes = [("dtyimask_from_sample", lambda: g.dtyimask_from_sample(x, y, omv, arr, y0, ystep, ymin), False),
                      ("dtyimask_from_sample_sincos",
                       lambda: g.dtyimask_from_sample_sincos(x, y, snv, csv, arr, y0, ystep, ymin), True)]
        elif frame == "step":
            routes = [("dtyimask_from_step", lambda: g.dtyimask_from_step(x, y, omv, arr, y0, ystep, ymin), False),
                      ("dtyimask_from_step_sincos",
                       lambda: g.dtyimask_from_step_sincos(x, y, snv, csv, arr, y0, ystep, ymin), True)]
        elif frame == "recon":
            routes = [("dtyimask_from_recon",
                       lambda: g.dtyimask_from_recon(x, y, omv, arr, y0, ystep, ymin, shape), False),
                      ("dtyimask_from_recon_sincos",
                       lambda: g.dtyimask_from_recon_sincos(x, y, snv, csv, arr, y0, ystep, ymin, shape), True)]
        else:
            return
        for nm, fn, is_sc in routes:
            m = np.asarray(call(fn))
            sel = [int(v) for v in arr[m]]
            if tie and not (exact[0] and is_sc):
                ok = len(sel) == 1 and _tie_ok(sel[0], u[0])
            else:
                ok = sel == [dc]
            if not ok:
                fails.append("%s: %s selects dtyi %r, specification dtyi_calc = %d (tie=%s)" % (tag, nm, sel, dc, tie))

    # u = (dty_in_beam - ymin)/ystep of the physical point, exact
    P0 = (q(c["P0"][0]), q(c["P0"][1]))

    def u_of(angs):
        return [(qy0 - P0[0] * F(a[1], a[2]) - P0[1] * F(a[0], a[2]) - qymin) / qystep for a in angs]
    u_exact = u_of(angs)
    seen_frames = set()
    diverged = False
    if frame != "lab":
        check_masks("start", frame, x, y, u_exact)
        seen_frames.add(frame)

    def apply(name, x, y, dty, dtyi, tag, eds, prev):
        """one function of geometry.py on the current argument objects -> (x, y, dty, dtyi)"""
        # ---- frame conversions
        if name == "sample_to_lab_sincos":
            x, y = call(g.sample_to_lab_sincos, x, y, y0, dty, sn, cs)
        elif name == "sample_to_lab":
            x, y = call(g.sample_to_lab, x, y, y0, dty, om)
        elif name == "lab_to_sample_sincos":
            x, y = call(g.lab_to_sample_sincos, x, y, y0, dty, sn, cs)
        elif name == "lab_to_sample":
            x, y = call(g.lab_to_sample, x, y, y0, dty, om)
        elif name == "sample_to_step":
            x, y = call(g.sample_to_step, x, y, ystep)
        elif name == "step_to_sample":
            x, y = call(g.step_to_sample, x, y, ystep)
        elif name == "step_to_recon":
            x, y = call(g.step_to_recon, x, y, shape)
        elif name == "recon_to_step":
            x, y = call(g.recon_to_step, x, y, shape)
        elif name == "sample_to_recon":
            x, y = call(g.sample_to_recon, x, y, shape, ystep)
        elif name == "recon_to_sample":
            x, y = call(g.recon_to_sample, x, y, shape, ystep)
        elif name == "lab_to_step":
            x, y = call(g.lab_to_step, x, y, y0, dty, om, ystep)
        elif name == "step_to_lab":
            x, y = call(g.step_to_lab, x, y, y0, dty, om, ystep)
        elif name == "lab_to_recon":
            x, y = call(g.lab_to_recon, x, y, y0, dty, om, shape, ystep)
        elif name == "recon_to_lab":
            x, y = call(g.recon_to_lab, x, y, y0, dty, om, shape, ystep)
        # ---- stage moves / discretisation
        elif name == "dty_values_grain_in_beam_sincos":
            dty = call(g.dty_values_grain_in_beam_sincos, x, y, y0, sn, cs)
        elif name == "dty_values_grain_in_beam":
            dty = call(g.dty_values_grain_in_beam, x, y, y0, om)
            for alias in (g.x_y_y0_omega_to_dty, g.dtycalc):
                d2 = call(alias, om, x, y, y0)
                for i, v in enumerate(el(d2)):
                    if not close(v, eds[i], sc([float(e) for e in eds], *prev)):
                        fails.append("%s: alias %s = %r, specification %s" % (tag, alias.__name__, d2, eds[i]))
                        break
        elif name == "step_omega_to_dty":
            dty = call(g.step_omega_to_dty, x, y, om, y0, ystep)
        elif name == "recon_omega_to_dty":
            dty = call(g.recon_omega_to_dty, x, y, om, y0, shape, ystep)
        elif name == "step_omega_to_dtyi":
            dtyi = call(g.step_omega_to_dtyi, x, y, om, y0, ystep, ymin)
            dty = call(g.step_omega_to_dty, x, y, om, y0, ystep)
        elif name == "recon_omega_to_dtyi":
            dtyi = call(g.recon_omega_to_dtyi, x, y, om, y0, shape, ystep, ymin)
            dty = call(g.recon_omega_to_dty, x, y, om, y0, shape, ystep)
        elif name == "dty_to_dtyi":
            dtyi = call(g.dty_to_dtyi, np.asarray(dty), ystep, ymin)
        elif name == "dtyi_to_dty":
            dty = call(g.dtyi_to_dty, dtyi, ystep, ymin)
        else:
            raise common.MachineryError("unknown action %r in walk" % name)
        return x, y, dty, dtyi

    def snap(v):
        return None if v is None else (np.array(v, copy=True) if vector else v)

    last = None                  # (function name, values of x, y, dty, dtyi at its call)
    for k, name in enumerate(names):
        sts = [r["op"][k] for r in recs]
        st = sts[0]
        tag = "step %d %s" % (k + 1, name)
        pxs, pys = [q(t["p"][0]) for t in sts], [q(t["p"][1]) for t in sts]
        eds = [q(t["d"]) for t in sts]
        prev = (np.max(np.abs(x)), np.max(np.abs(y)))
        if name == "set_omega":
            # the caller changes the angle in place: the SAME objects (array walks) with other contents
            angs = [t["om"] for t in sts]
            sn, cs, om = angle_args(angs)
            exact = [e and a[2] == 1 for e, a in zip(exact, angs)]
            dcs, ties = [t["dc"] for t in sts], [t["tie"] for t in sts]
            u_exact = u_of(angs)
            dtyi = None
            seen_frames = set()
            rname = name
        elif name == "repeat":
            # the argument objects get the values of the last call back (in place) and the function is called again
            if last is None:
                raise common.MachineryError("repeat without a call before it")
            rname, vx, vy, vd, vi = last
            tag = "step %d repeat of %s" % (k + 1, rname)
            x, y, dty = put("x", vx), put("y", vy), put("dty", vd)
            dtyi = None if vi is None else put("dtyi", vi)
            prev = (np.max(np.abs(x)), np.max(np.abs(y)))
            x, y, dty, dtyi = apply(rname, x, y, dty, dtyi, tag, eds, prev)
            x, y, dty = put("x", x), put("y", y), put("dty", dty)
        else:
            rname = name
            last = (name, snap(x), snap(y), snap(dty), snap(dtyi))
            x, y, dty, dtyi = apply(name, x, y, dty, dtyi, tag, eds, prev)
            x, y, dty = put("x", x), put("y", y), put("dty", dty)
        raw_dtyi = dtyi
        if dtyi is not None:
            dtyi = put("dtyi", dtyi)
        inexact_after = rname in ROTATING_DEG
        if inexact_after:
            exact = [False] * K
        frame = st["f"]
        # ---- compare with the specification's state
        cmp_pos(tag, x, y, pxs, pys, extra=prev)
        sd = sc([float(e) for e in eds], *prev)
        for i, v in enumerate(el(dty)):
            if not close(v, eds[i], sd):
                fails.append("%s: dty%s = %r, specification %s (= %.17g)" % (tag, "[%d]" % i if vector else "", float(v),
                                                                             eds[i], float(eds[i])))
                break
        if st["ph"] >= 2:
            iv = [int(v) for v in el(dtyi)]
            for i, v in enumerate(iv):
                if sts[i]["i"] != dcs[i]:
                    raise common.MachineryError("specification: dtyi %r differs from dtyi_calc %r" % (sts[i]["i"], dcs[i]))
                if ties[i] and not exact[i]:
                    ok = _tie_ok(v, u_exact[i])
                    if ok and v != sts[i]["i"]:
                        # (dty - ymin)/ystep is exactly k + 1/2 and the floats are not exact: the code may
                        # legitimately take the other neighbour; the rest of the behaviour then differs from
                        # the specification's by one bin, so the comparison stops here
                        diverged = True
                else:
                    ok = (v == sts[i]["i"])
                if not ok:
                    fails.append("%s: dtyi%s = %r, specification %d (tie=%s exact=%s)" %
                                 (tag, "[%d]" % i if vector else "", v, sts[i]["i"], ties[i], exact[i]))
                    break
            if not np.issubdtype(np.asarray(raw_dtyi).dtype, np.integer):
                fails.append("%s: dtyi has dtype %s, not an integer type" % (tag, np.asarray(raw_dtyi).dtype))
        # ---- observations at this state
        if frame != "lab" and frame not in seen_frames:
            seen_frames.add(frame)
            check_masks(tag, frame, x, y, u_exact)
        if st["ph"] in (1, 2) and frame == "sample":
            ly = call(g.sample_to_lab_sincos, x, y, y0, dty, sn, cs)[1]
            if any(not close(v, 0.0, sd) for v in np.atleast_1d(ly)):
                fails.append("%s: lab y of the point at dty_values_grain_in_beam is %r, not 0" % (tag, ly))
        if st["ph"] == 3:
            back = call(g.dty_to_dtyi, np.asarray(dty), ystep, ymin)
            if [int(v) for v in np.atleast_1d(back)] != [int(v) for v in np.atleast_1d(dtyi)]:
                fails.append("%s: dty_to_dtyi(dtyi_to_dty(%r)) = %r" % (tag, dtyi, back))
            if frame == "sample":
                ly = call(g.sample_to_lab_sincos, x, y, y0, dty, sn, cs)[1]
                if any(abs(float(v)) > 0.5 * ystep * (1 + 1e-9) + 1e-12 for v in np.atleast_1d(ly)):
                    fails.append("%s: after dtyi_to_dty(dty_to_dtyi) the point is %r from the beam (> ystep/2)" % (tag, ly))
        if fails or diverged:
            break
    return fails


def walk_key(rec):
    c = rec["cfg"]
    return (tuple(_om0(rec)), tuple(map(tuple, c["P0"])), tuple(c["y0"]), tuple(c["ystep"]), tuple(c["shape"]),
            c["f0"], tuple(c["dty0"]), tuple(c["ymin"]), tuple(s["a"] for s in rec["op"]))


def walk_nontrivial(rec):
    fr = [rec["cfg"]["f0"]] + [s["f"] for s in rec["op"]]
    return len(set(fr)) < len(fr)       # some frame is visited again (a cycle or a stage move)


def group_key(rec):
    """walks that differ only in the angle"""
    c = rec["cfg"]
    return (tuple(map(tuple, c["P0"])), tuple(c["y0"]), tuple(c["ystep"]), tuple(c["shape"]),
            c["f0"], tuple(c["dty0"]), tuple(c["ymin"]), tuple(s["a"] for s in rec["op"]))


_LAST_GROUP = {}


def _walk_violation(chk, recs, vec, turns, fails, before=None):
    rec = recs[0]
    chk.violation("walk %s from %s at omega=%s%s: %s" % ("->".join(s["a"] for s in rec["op"]), rec["cfg"]["f0"],
                                                         [_om0(r) for r in recs] if vec else _om0(rec),
                                                         " (+%s turns)" % turns if any(turns) else "", fails[0]),
                  {"kind": "walk", "vector": vec, "recs": recs, "turns": turns, "failures": fails,
                   "before": None if before is None else {"recs": before[0], "turns": before[1]}})


def judge_walk(chk, rec, idx):
    """scalar arguments; omega of the degree routes shifted by -1 / 0 / +1 whole turns"""
    turns = [idx % 3 - 1]
    try:
        fails = replay_walk(rec, vector=False, turns=turns)
    except RealCodeError as e:
        fails = [str(e)]
    if fails:
        _walk_violation(chk, [rec], False, turns, fails)
    return fails


def judge_group(chk, recs, idx):
    """array arguments with one element per record of the group (distinct positions / omega / dty per element)"""
    recs = list(recs) if len(recs) > 1 else [recs[0], recs[0]]
    turns = [(idx + i) % 3 - 1 for i in range(len(recs))]
    try:
        fails = replay_walk(recs, vector=True, turns=turns)
    except RealCodeError as e:
        fails = [str(e)]
    if fails:
        # the argument objects are shared by the groups of one size: the group that used them before is part of the case
        _walk_violation(chk, recs, True, turns, fails, before=_LAST_GROUP.get(len(recs)))
    _LAST_GROUP[len(recs)] = (recs, turns)
    return fails


# --------------------------------------------------------------------------------------------------
# partition of the projections over the workers (PART machine), in this process and in restricted children

PART_REQUESTS = list(range(1, 17)) + [None, -1]      # judged: 1..16 and None (= cores_available()); -1 observed only
PART_MAXN = 17                                        # PMaxN of ScanGeom_part.cfg
PART_NS_QUICK = [1, 2, 3, 5, 8, 12, 16, 17]
# what a batch system exports for a small allocation; the count differs from the affinity mask in both directions
BATCH_ENV_COUNT = {1: 4, 2: 1, 3: 2, None: 2}


def batch_env(k):
    v = str(BATCH_ENV_COUNT[k])
    return {"OMP_NUM_THREADS": v, "SLURM_CPUS_PER_TASK": v, "SLURM_JOB_CPUS_PER_NODE": v, "SLURM_CPUS_ON_NODE": v,
            "NUMBER_OF_PROCESSORS": v, "OPENBLAS_NUM_THREADS": v, "MKL_NUM_THREADS": v}


def usable_cpus():
    return len(os.sched_getaffinity(0)) if hasattr(os, "sched_getaffinity") else (os.cpu_count() or 1)


class PartTable(object):
    """the records EmitPart printed: (n, w = stride, p = pool size) -> jobs, ok, ndrop, ndup, law"""

    def __init__(self, parts):
        self.rec, self.byjobs = {}, {}
        for r in parts:
            self.rec[(r["n"], r["w"], r["p"])] = r
            self.byjobs.setdefault((r["n"], self.jkey(r["jobs"])), []).append(r)
        self.maxw = max(r["w"] for r in parts)
        self.maxn = max(r["n"] for r in parts)

    @staticmethod
    def jkey(jobs):
        return tuple(tuple(int(i) for i in j) for j in jobs)

    def law(self, n, req, cores):
        """the record the code's law (EffWorkers / PoolOf / StrideOf of the specification) selects"""
        eff = cores if (req is None or req < 1) else req
        r = self.rec.get((n, eff, eff))
        if r is not None and not (r["law"] and r["ok"]):
            raise common.MachineryError("specification: the law record (n=%d, w=p=%d) is not a partition" % (n, eff))
        return r


def part_judged(req):
    return req is None or 1 <= req <= 16


def judge_part_row(tab, row, cores, where=""):
    """row = {n, req, pool, jobs, diff, scale[, raised]} recorded from the real iradon on `cores` usable cpus.
    Returns (failures, info)."""
    n, req = row["n"], row["req"]
    info = {"recorded": False, "law": None, "obs": None}
    fails = []
    if row.get("raised"):
        msg = "iradon(workers=%r) with %d projections%s raised %s" % (req, n, where, row["raised"])
        if part_judged(req):
            fails.append(msg)
        else:
            info["obs"] = msg
        return fails, info
    jobs = row.get("jobs")
    law = tab.law(n, req, cores)
    if jobs is not None and law is not None:
        info["recorded"] = True
        if [list(j) for j in jobs] == law["jobs"]:
            info["law"] = True
        else:
            same = tab.byjobs.get((n, tab.jkey(jobs)))
            if same is None:
                fails.append("workers=%r%s: the jobs handed to the pool for %d projections are %r: not [todo[j::w] for j < p] "
                             "for any stride w and pool size p of the specification (its law gives w = p = %d: %r)" %
                             (req, where, n, jobs, law["w"], law["jobs"]))
            elif not same[0]["ok"]:
                r = same[0]
                fails.append("workers=%r%s: iradon handed [todo[j::%d] for j < %d] to a pool of %r for %d projections; the "
                             "specification's record (n=%d, stride=%d, pool=%d) is not a partition: %d projections dropped, "
                             "%d taken twice (its law gives stride = pool = %d)" %
                             (req, where, r["w"], r["p"], row.get("pool"), n, n, r["w"], r["p"], r["ndrop"], r["ndup"],
                              law["w"]))
            else:
                info["law"] = False              # a partition of the specification, reached by another (w, p) pair
    s, d = row.get("scale", 0.0), row.get("diff")
    if d is None or not d <= REL * s + 1e-300:
        msg = ("iradon(workers=%r)%s differs from workers=1 by %.3g (max of the reconstruction %.3g) for %d projections"
               % (req, where, float("nan") if d is None else d, s, n))
        if part_judged(req):
            fails.append(msg)
        else:
            info["obs"] = msg
    return fails, info


def part_row_inprocess(n, req):
    """the small sinogram of n projections through the real iradon in THIS process"""
    import c19_child
    ri = M.roi_iradon
    sino, theta, ny = c19_child.part_sino(np, n)
    kw = dict(output_size=ny + 3, projection_shifts=np.full(sino.shape, 0.25))
    ref = call(ri.iradon, sino, theta, workers=1, **kw)
    row = {"n": n, "req": req, "scale": float(np.abs(ref).max())}
    try:
        out, jobs = c19_child.recorded(ri, ri.iradon, sino, theta, workers=req, **kw)
        fj = c19_child.flat_jobs(jobs)
        row["pool"], row["jobs"] = fj if fj else (None, None)
        row["diff"] = float(np.abs(out - ref).max())
    except Exception as e:             # noqa - anything the code under test raises
        row["raised"] = repr(e)[:300]
    return row


def part_case(rec, tab=None):
    """rec = law record {n, w, p = w, jobs, ...}: the jobs given to the pool in this process are the
    specification's and the result does not depend on w.  Returns (failures, jobs were recorded)."""
    if tab is None:
        tab = PartTable([rec])
    if rec["w"] == 1 and rec["jobs"] != [list(range(rec["n"]))]:
        raise common.MachineryError("specification: todo[0::1] is not the identity")
    row = part_row_inprocess(rec["n"], rec["w"])
    fails, info = judge_part_row(tab, row, usable_cpus())
    return fails, info["recorded"]


def child_tasks(recon_cases, thorough, seed):
    """(task, environment) for every restricted child.  Masks of 1, 2, 3 cpus and the unrestricted mask, each with
    and without the variables of a batch allocation."""
    ns = list(range(1, PART_MAXN + 1)) if thorough else PART_NS_QUICK
    have = usable_cpus()
    tasks = []
    for k in (1, 2, 3, None):
        if k is not None and k > have:
            continue
        if thorough:
            envs = (None, "batch") if k is not None else ("batch",)
        else:                                   # quick: each mask once, the environments alternate with the seed
            envs = ("batch",) if (k is None or (seed + k) % 2) else (None,)
        for env in envs:
            t = {"affinity": k, "pick": seed * 7 + (k or 0), "ns": ns, "requests": PART_REQUESTS,
                 "recon_requests": PART_REQUESTS if thorough else [1, 2, 3, 4, 5, 8, 16, None],
                 "recon": [c["cfg"] for c in recon_cases], "consumers": True, "envname": env or "plain"}
            tasks.append((t, batch_env(k) if env else {}))
    return tasks


def start_children(tasks):
    import subprocess
    scr = common.scratch()
    procs = []
    here = os.path.join(os.path.dirname(os.path.dirname(os.path.abspath(__file__))), "c19_child.py")
    for i, (t, env_extra) in enumerate(tasks):
        tf, of = os.path.join(scr, "c19_child_%d.json" % i), os.path.join(scr, "c19_child_%d.out.json" % i)
        with open(tf, "w") as f:
            json.dump(t, f)
        env = dict(os.environ)
        for k in batch_env(None):
            env.pop(k, None)
        env.update(env_extra)
        env["NUMBA_CACHE_DIR"] = os.environ.get("NUMBA_CACHE_DIR", "/var/tmp/imaged11_verif_numba_c19")
        p = subprocess.Popen([sys.executable, here, M.shadow, tf, of], env=env, stdout=subprocess.PIPE,
                             stderr=subprocess.STDOUT, text=True)
        procs.append((p, t, env_extra, of))
    return procs


def collect_children(procs, timeout=1500):
    out = []
    t0 = time.time()
    for p, t, env_extra, of in procs:
        try:
            so, _ = p.communicate(timeout=max(timeout - (time.time() - t0), 60))
        except Exception:                                   # noqa
            p.kill()
            raise common.MachineryError("restricted child (affinity %r) did not finish" % t["affinity"])
        if not os.path.exists(of):
            raise common.MachineryError("restricted child (affinity %r) wrote no result\n%s" % (t["affinity"], so[-2000:]))
        res = json.load(open(of))
        if res.get("error"):
            raise common.MachineryError("restricted child (affinity %r): %s" % (t["affinity"], res["error"]))
        out.append((t, env_extra, res))
    return out


def judge_child(tab, t, env_extra, res, recon_cases):
    """-> list of (what, replay object), counters"""
    cores = res["mask"] if res.get("mask") else res["cores_available"]
    cnt = {"rows": 0, "recorded": 0, "capped_requests": 0, "law_differs": 0, "obs": []}
    if t["affinity"] and res.get("mask") != min(t["affinity"], usable_cpus()):
        raise common.MachineryError("child affinity mask is %r, asked for %r" % (res.get("mask"), t["affinity"]))
    if res["cores_available"] != cores:
        cnt["obs"].append("cImageD11.cores_available() = %d in a process with %d cpus in its mask" % (res["cores_available"], cores))
        cores = res["cores_available"]
    where = " in a process with %d usable cpu%s (%s environment)" % (cores, "" if cores == 1 else "s", t["envname"])
    bad = []
    first = {}
    for row in res["part"]:
        fails, info = judge_part_row(tab, row, cores, where)
        cnt["rows"] += 1
        cnt["recorded"] += bool(info["recorded"])
        cnt["law_differs"] += info["law"] is False
        if row["req"] is not None and row["req"] > cores:
            cnt["capped_requests"] += 1
        if info["obs"]:
            cnt["obs"].append(info["obs"])
        if fails:
            first.setdefault(("part", row["n"]), (fails, row))
    for (kind, n), (fails, row) in sorted(first.items())[:3]:
        bad.append(("worker sweep%s, %d projections: %s" % (where, n, fails[0]),
                    {"kind": "child", "task": dict(t, ns=[n], requests=[row["req"]], recon=[]), "env": env_extra,
                     "failures": fails}))
    firstr = {}
    for row in res["recon"]:
        c = recon_cases[row["case"]]
        cnt["rows"] += 1
        fails = judge_recon_row(c, row, where)
        if fails and part_judged(row["req"]):
            firstr.setdefault(row["case"], (fails, row))
        elif fails:
            cnt["obs"].append(fails[0])
    for ci, (fails, row) in sorted(firstr.items())[:2]:
        c = recon_cases[ci]["cfg"]
        bad.append(("point grain at (%s, %s) ny=%d scan=%d%s: %s" % (q(c["sx"]), q(c["sy"]), c["ny"], c["scan"], where, fails[0]),
                    {"kind": "child", "task": dict(t, ns=[], requests=[row["req"]], recon=[c]), "env": env_extra,
                     "rec": recon_cases[ci], "failures": fails}))
    return bad, cnt


def judge_recon_row(rec, row, where):
    """a full-size reconstruction of a RECON case in a child: equal to the one-worker one, peak where predicted"""
    fails = []
    if row.get("raised"):
        return ["run_iradon(workers=%r)%s raised %s" % (row["req"], where, row["raised"])]
    s = row["scale"]
    for key, nm in (("diff", "run_iradon"), ("diff_gs", "GrainSinogram.recon")):
        if key in row and not row[key] <= REL * s:
            fails.append("%s(workers=%r)%s differs from run_iradon(workers=1) by %.3g (max of the reconstruction %.3g)" %
                         (nm, row["req"], where, row[key], s))
    if row.get("covered") is False:
        fails.append("run_iradon(workers=%r)%s: the jobs handed to the pool (%r jobs, pool of %r) do not cover every "
                     "projection once" % (row["req"], where, row.get("njobs"), row.get("pool")))
    pred = pred_for_shape(rec, row["shape"][0])
    d = math.hypot(row["peak"][0] - pred[0], row["peak"][1] - pred[1])
    if not d <= FBP_PX:
        fails.append("reconstruction%s peaks at %r, %.3f px from the predicted (%.3f, %.3f)" % (where, row["peak"], d, pred[0], pred[1]))
    return fails


# --------------------------------------------------------------------------------------------------
# mode A: reconstruction cases

def point_sino(c, omega=None, dtype=float):
    """point-grain sinogram built with the module's own functions (omega: default arange(0, scan, 1.0))"""
    import c19_child
    return call(c19_child.point_sino, np, M.geometry, c, omega, dtype)


def pred_for_shape(rec, o):
    """the specification's predicted pixel (SampleToRecon = step coordinates + shape // 2) on an o x o reconstruction"""
    r = rec["rec"]
    d = o // 2 - r["outsize"] // 2
    return (fl(r["pred"][0]) + d, fl(r["pred"][1]) + d)


def peak_distance(recon, pred):
    mx = recon.max()
    ii, jj = np.nonzero(recon == mx)
    d = np.hypot(ii - pred[0], jj - pred[1])
    k = int(np.argmin(d))
    return float(d[k]), (int(ii[k]), int(jj[k])), len(ii)


def recon_case(rec, level=0, ordinal=None):
    """One specification case against the real code.  level 0: FBP + geometry functions + fit + one other
    description of the scan; level 1: + consumers (GrainSinogram.recon, PBPRefine.setmap/setmask), workers,
    ROI masks, linearity, iradon options (chosen by ordinal), float32.
    Returns (failures, info)."""
    g, ri = M.geometry, M.roi_iradon
    c, r = rec["cfg"], rec["rec"]
    sx, sy, y0, ystep, ymin = fl(c["sx"]), fl(c["sy"]), fl(c["y0"]), fl(c["ystep"]), fl(c["ymin"])
    ny, scan = c["ny"], c["scan"]
    fails = []
    info = {}
    if ordinal is not None:
        info["ordinal"] = ordinal
    big = max(abs(y0), abs(ymin), abs(fl(c["ymax"])), 1.0)
    # every length of the case is a multiple of ystep / 4: with a step that is not a binary fraction no float of
    # the implementation is exact, and where the exact value sits on a ceil / floor / round boundary either side
    # is a correct answer (the specification's integer, or its neighbour on the far side)
    inexact = not dyadic(c["ystep"])
    info["inexact"] = inexact
    # -- shift and pad
    shift, pad = call(g.sino_shift_and_pad, y0, ny, ymin, ystep)
    if not close(shift, q(r["shift"]), max(ny, abs(fl(r["shift"])))):
        fails.append("sino_shift_and_pad: shift = %r, specification %s" % (shift, q(r["shift"])))
    padtie = inexact and (2 * q(r["shift"])).denominator == 1         # pad = ceil(2 |shift|) + 1
    if int(pad) != r["ownpad"] and not (padtie and int(pad) == r["ownpad"] + 1):
        fails.append("sino_shift_and_pad: pad = %r, specification %d" % (pad, r["ownpad"]))
    # -- grid
    ybincens = ymin + np.arange(ny) * ystep
    gridn = None
    qy0, qys = q(c["y0"]), q(c["ystep"])
    gridtie = inexact and (max(abs(q(c["ymin"]) - qy0), abs(q(c["ymax"]) - qy0)) / qys).denominator == 1
    for gs, first, last, cnt in r["grids"]:
        pts = call(g.step_grid_from_ybincens, ybincens, ystep, gs, y0)
        ints = sorted(set(int(p[0]) for p in pts))
        if len(range(first, last + 1, gs)) != cnt or first != r["glo"]:
            raise common.MachineryError("specification grid count inconsistent")
        lo = ints[0] if ints else None
        if lo == first or (gridtie and lo == first - 1):
            exp = list(range(lo, -lo + 1, gs))            # ints = range(floor(-L), ceil(L) + 1, gridstep)
        else:
            exp = list(range(first, last + 1, gs))
        want = [(i, j) for i in exp for j in exp]
        if [(int(p[0]), int(p[1])) for p in pts] != want:
            fails.append("step_grid_from_ybincens(gridstep=%d): ints %r..%r (%d points), specification %d..%d step %d"
                         % (gs, ints[:1], ints[-1:], len(pts), first, last, gs))
        if gs == 1:
            gridn = int(round(math.sqrt(len(pts))))
    # -- the pad the consumer passes
    if c["padmode"] == "own":
        usepad, slack = int(pad), (1 if padtie else 0)
    elif c["padmode"] == "own3":
        usepad, slack = int(pad) + 3, (1 if padtie else 0)
    else:
        usepad, slack = gridn - ny, (2 if gridtie else 0)    # PBPRefine.setmask: self.sx_grid.shape[0] - whole_sample_sino.shape[0]
    if usepad not in (r["pad"], r["pad"] + slack):
        fails.append("pad handed to run_iradon (%s) = %r, specification %d" % (c["padmode"], usepad, r["pad"]))
    info["pad_other_side"] = usepad != r["pad"]
    # -- sinogram rows / voxel windows at the exact angles
    sn = np.array([a["a"][1] / float(a["a"][2]) for a in r["ang"]])
    cs = np.array([a["a"][0] / float(a["a"][2]) for a in r["ang"]])
    dib = np.atleast_1d(call(g.dty_values_grain_in_beam_sincos, sx, sy, y0, sn, cs))
    rows = np.atleast_1d(call(g.dty_to_dtyi, dib, ystep, ymin))
    qymin, qystep = q(c["ymin"]), q(c["ystep"])
    for k, a in enumerate(r["ang"]):
        exact = a["a"][2] == 1 and not inexact
        if not close(dib[k], q(a["dib"]), big):
            fails.append("dty_values_grain_in_beam_sincos at %s = %r, specification %s" % (a["a"], dib[k], q(a["dib"])))
        u = (q(a["dib"]) - qymin) / qystep
        ok = (int(rows[k]) == a["row"]) if (exact or not a["tie"]) else _tie_ok(int(rows[k]), u)
        if not ok:
            fails.append("dty_to_dtyi at %s = %r, specification %d (tie=%s)" % (a["a"], rows[k], a["row"], a["tie"]))
    # get_voxel_idx over (angle k) x (row i) "peaks"
    kk, ii = np.meshgrid(np.arange(len(r["ang"])), np.arange(ny), indexing="ij")
    kk, ii = kk.ravel(), ii.ravel()
    idx, ydist = call(M.pbp.get_voxel_idx, float(y0), float(sx), float(sy), sn[kk], cs[kk],
                      ymin + ii * ystep, float(ystep))
    got = set(int(v) for v in idx)
    for k, a in enumerate(r["ang"]):
        exact = a["a"][2] == 1 and not inexact
        for i in range(ny):
            flat = k * ny + i
            inside = a["vlo"] <= i <= a["vhi"]
            edge = a["vtie"] and i in (a["vlo"], a["vhi"])
            if edge and not exact:
                continue
            if inside != (flat in got):
                fails.append("get_voxel_idx at %s row %d: selected=%s, specification window %d..%d (edge tie=%s)" %
                             (a["a"], i, flat in got, a["vlo"], a["vhi"], a["vtie"]))
                break
    # -- the reconstruction
    sino, omega, dty, dtyi, nout = point_sino(c)
    if nout:
        fails.append("%d of %d projections of a point inside the scanned disc fall outside the sinogram" % (nout, len(omega)))
    recon = call(ri.run_iradon, sino, omega, pad=usepad, shift=shift)
    if recon.shape != (ny + usepad, ny + usepad) or recon.shape[0] not in (r["outsize"], r["outsize"] + slack):
        fails.append("run_iradon output shape %r, specification %d" % (recon.shape, r["outsize"]))
    pred = pred_for_shape(rec, recon.shape[0])
    pi, pj = call(g.sample_to_recon, sx, sy, recon.shape, ystep)
    if not (close(pi, pred[0], r["outsize"]) and close(pj, pred[1], r["outsize"])):
        fails.append("sample_to_recon on the reconstruction shape = (%r, %r), specification (%.17g, %.17g)" %
                     (pi, pj, pred[0], pred[1]))
    dist, where, nmax = peak_distance(recon, pred)
    info["dist"] = dist
    if not dist <= FBP_PX:
        fails.append("reconstruction peaks at %r, %.3f px from the predicted (%.3f, %.3f) [ny=%d pad=%d shift=%r scan=%d]"
                     % (where, dist, pred[0], pred[1], ny, usepad, shift, scan))
    bx, by = call(g.recon_to_sample, where[0], where[1], recon.shape, ystep)
    if not math.hypot(bx - sx, by - sy) <= FBP_PX * ystep * (1 + 1e-9):
        fails.append("recon_to_sample(peak) = (%r, %r) is more than 1.5 steps from the grain (%r, %r)" % (bx, by, sx, sy))
    # -- the inverse of dty_values_grain_in_beam: the fit of (sx, sy, y0) to the in-beam dty of the scan returns
    #    what the specification solves exactly from three projections (FitInverts)
    want = [fl(v) for v in r["fit"]]
    fscale = max([abs(v) for v in want] + [abs(ymin), abs(fl(c["ymax"])), ystep])
    fits = [("sx_sy_y0_from_dty_omega(dty, omega)", lambda: g.sx_sy_y0_from_dty_omega(dty, omega))]
    if level >= 1:
        fits.append(("fit_sine_wave(omega, dty, (0.5, 0.5, 0), weights=1)",
                     lambda: g.fit_sine_wave(omega, dty, (0.5, 0.5, 0), weights=np.ones(len(omega)))))
    for nm, fn in fits:
        got = [float(v) for v in call(fn)]
        info["fit_err"] = max(info.get("fit_err", 0.0), max(abs(a - b) for a, b in zip(got, want)) / fscale)
        if not all(abs(a - b) <= FIT_REL * fscale for a, b in zip(got, want)):
            fails.append("%s = %r for the in-beam dty of the point, specification (sx, sy, y0) = (%s, %s, %s)" %
                         (nm, got, q(r["fit"][0]), q(r["fit"][1]), q(r["fit"][2])))
    # -- other descriptions of the same scan: whole turns added to omega, a 2 degree scan run backwards, an offset start
    variant = (c["pq"][0] + c["pq"][1] + c["offh"] + ny + c["scan"] // 180) % 3
    rngv = np.random.default_rng((c["pq"][0] * 131 + c["pq"][1] * 17 + c["offh"] * 7 + ny) & 0xffff)
    # REPEAT LAW (ScanGeom.tla): where the other description has as many projections it is written IN PLACE into the
    # omega array the first sinogram was built from (omega += ...): the same object, other contents
    om_first = omega.copy()

    def dty_expected(om_):           # the in-beam dty of the point, computed here from the current contents
        return y0 - sx * np.sin(np.radians(om_)) - sy * np.cos(np.radians(om_))

    def dty_follows(what, got, om_):
        if np.shape(got) != np.shape(om_) or not np.abs(np.asarray(got) - dty_expected(om_)).max() <= 1e-9 * big + 1e-12:
            fails.append("dty_values_grain_in_beam for %s differs from y0 - sx sin(omega) - sy cos(omega) of the CURRENT "
                         "contents of omega by %.3g" % (what, float(np.abs(np.asarray(got) - dty_expected(om_)).max())
                                                        if np.shape(got) == np.shape(om_) else float("nan")))
    dty_follows("the scan 0, 1, ...", dty, omega)
    if variant == 0:
        omega += 360.0 * rngv.integers(-1, 2, len(omega))
        om2, vname = omega, "omega + 360 k, k in {-1, 0, 1} per projection (in place)"
    elif variant == 1:
        om2, vname = np.arange(scan - 1.0, -0.5, -2.0), "omega = scan-1, scan-3, ... (2 degree steps, decreasing)"
    else:
        omega += 0.37
        om2, vname = omega, "omega = 0.37, 1.37, ... (in place)"
    sino2, _, dty2, _, nout2 = point_sino(c, om2)
    dty_follows("the scan described as " + vname, dty2, om2)
    rec2 = call(ri.run_iradon, sino2, om2, pad=usepad, shift=shift)
    d2, wh2, _ = peak_distance(rec2, pred)
    # ... and back (in place again): the same call as the first one, after other calls
    omega[:] = om_first
    sino3, _, dty3, _, _ = point_sino(c, omega)
    if not (np.array_equal(sino3, sino) and np.array_equal(np.asarray(dty3), np.asarray(dty))):
        fails.append("the sinogram / in-beam dty of the scan 0, 1, ... asked again (omega array restored in place after %s) "
                     "differs from the first answer" % vname)
    recon3 = call(ri.run_iradon, sino, omega, pad=usepad, shift=shift)
    if recon3.shape != recon.shape or not np.array_equal(recon3, recon):
        fails.append("run_iradon called again with the same sinogram, angles, pad and shift (third FBP of this size in the "
                     "process) differs from its first result by %.3g (max %.3g)" %
                     (_maxdiff(recon3, recon) if recon3.shape == recon.shape else float("nan"), float(np.abs(recon).max())))
    info["variant"] = variant
    info["dist"] = max(dist, d2)
    if nout2 or not d2 <= FBP_PX:
        fails.append("scan described as %s: reconstruction peaks at %r, %.3f px from the predicted (%.3f, %.3f); %d "
                     "projections outside the sinogram" % (vname, wh2, d2, pred[0], pred[1], nout2))
    if level >= 1 and not fails:
        fails += _recon_extras(rec, sino, omega, dty, shift, usepad, recon, pred, where, info)
        # class of the known-finding candidate: only ROI comparisons fail
        info["roi_only"] = bool(fails) and all(f.startswith("ROI mask") for f in fails)
    return fails, info


def _maxdiff(a, b):
    return float(np.abs(np.asarray(a) - np.asarray(b)).max())


def _roi_masks(n, where, rng, few=False):
    masks = {}
    m = np.zeros((n, n), bool)
    i0, i1 = max(where[0] - 2, 0), min(where[0] + 3, n)
    j0, j1 = max(where[1] - 2, 0), min(where[1] + 3, n)
    m[i0:i1, j0:j1] = True
    masks["peak neighbourhood"] = m
    m = np.zeros((n, n), bool)
    a0, a1 = sorted(rng.integers(0, n, 2))
    b0, b1 = sorted(rng.integers(0, n, 2))
    m[a0:a1 + 1, b0:b1 + 1] = True
    masks["sub-rectangle"] = m
    if few:
        return masks
    masks["random"] = rng.random((n, n)) < 0.3
    masks["single pixel"] = np.zeros((n, n), bool)
    masks["single pixel"][where] = True
    masks["all"] = np.ones((n, n), bool)
    masks["empty"] = np.zeros((n, n), bool)
    return masks


def _options_run(tag, sino, s2, omega, kw, rng, peak, rel, heavy):
    """the relational clauses of the statement on iradon(**kw): independent of the worker count and of an ROI mask,
    linear in the sinogram.  kw = every option but workers and mask."""
    ri = M.roi_iradon
    fails = []
    base = call(ri.iradon, sino, theta=omega, workers=1, **kw)
    s = float(np.abs(base).max())
    n = base.shape[0]
    ws = [3, None] if heavy else [2, 5, 16, None, int(rng.integers(2, 17))]
    for w in ws:
        rw = call(ri.iradon, sino, theta=omega, workers=w, **kw)
        if rw.shape != base.shape or not _maxdiff(rw, base) <= rel * s:
            fails.append("%s: workers=%r differs from workers=1 by %.3g (max %.3g)" % (tag, w, _maxdiff(rw, base), s))
            break
    where = np.unravel_index(int(np.argmax(base)), base.shape) if peak is None else peak
    where = (min(int(where[0]), n - 1), min(int(where[1]), n - 1))
    for nm, m in _roi_masks(n, where, rng, few=True).items():
        for w in ((3,) if heavy else (1, 3)):
            rm = call(ri.iradon, sino, theta=omega, workers=w, mask=m, **kw)
            din = _maxdiff(rm[m], base[m]) if m.any() else 0.0
            dout = float(np.abs(rm[~m]).max()) if (~m).any() else 0.0
            if rm.shape != base.shape or not din <= rel * s or dout != 0.0:
                fails.append("%s: ROI mask '%s' (workers=%d): inside differs from the full reconstruction by %.3g, "
                             "outside max %.3g (max of the reconstruction %.3g)" % (tag, nm, w, din, dout, s))
                break
    fails += _again(tag, base, sino, omega, kw, 1 if heavy else 2, "after the worker / ROI runs")
    r2 = call(ri.iradon, s2, theta=omega, workers=1, **kw)
    for (ca, cb) in (((2, -3),) if heavy else ((1, 1), (2, -3))):
        rc = call(ri.iradon, (ca * sino + cb * s2).astype(sino.dtype), theta=omega, workers=1, **kw)
        sc_ = abs(ca) * s + abs(cb) * float(np.abs(r2).max())
        d = _maxdiff(rc, ca * base + cb * r2)
        if not d <= rel * sc_:
            fails.append("%s: not linear: R(%d a + %d b) differs from %d R(a) + %d R(b) by %.3g (scale %.3g)" %
                         (tag, ca, cb, ca, cb, d, sc_))
    return fails, base


def _again(tag, first, sino, omega, kw, times, when):
    """REPEAT LAW for the FBP: the same call (one worker: one summation order) again gives the first result, bit for bit"""
    out = []
    for t in range(times):
        rb = call(M.roi_iradon.iradon, sino, theta=omega, workers=1, **kw)
        if rb.shape != first.shape or not np.array_equal(rb, first):
            out.append("%s: the same call again (%s, repeat %d) differs from its first result by %.3g (max %.3g): the FBP is "
                       "not a function of its arguments alone" % (tag, when, t + 1, _maxdiff(rb, first) if rb.shape == first.shape
                                                                  else float("nan"), float(np.abs(first).max())))
            break
    return out


def _recon_extras(rec, sino, omega, dty, shift, usepad, recon, pred, where, info):
    g, ri = M.geometry, M.roi_iradon
    c, r = rec["cfg"], rec["rec"]
    y0, ystep, ymin, ny = fl(c["y0"]), fl(c["ystep"]), fl(c["ymin"]), c["ny"]
    fails = []
    s = float(np.abs(recon).max())
    tol = REL * s
    n = recon.shape[0]
    seed = (c["pq"][0] * 131 + c["pq"][1] * 17 + c["offh"] * 7 + ny) & 0xffff
    rng = np.random.default_rng(seed)
    # iradon called directly as run_iradon calls it
    direct = call(ri.iradon, sino, theta=omega, mask=None, output_size=ny + usepad,
                  projection_shifts=np.full(sino.shape, shift), filter_name="hamming",
                  interpolation="linear", workers=1)
    if _maxdiff(direct, recon) > tol:
        fails.append("iradon(...) and run_iradon(...) differ by %.3g" % _maxdiff(direct, recon))
    # -- worker count 1..16, and None (= cImageD11.cores_available() workers)
    for w in list(range(2, 17)) + [None]:
        rw = call(ri.run_iradon, sino, omega, pad=usepad, shift=shift, workers=w)
        d = _maxdiff(rw, recon)
        if not d <= tol:
            fails.append("run_iradon(workers=%r) differs from workers=1 by %.3g (max %.3g)" % (w, d, s))
            break
    # -- ROI masks
    i0, i1 = max(where[0] - 2, 0), min(where[0] + 3, n)
    j0, j1 = max(where[1] - 2, 0), min(where[1] + 3, n)
    masks = _roi_masks(n, where, rng)
    for nm, m in masks.items():
        for w in (1, 3):
            rm = call(ri.run_iradon, sino, omega, pad=usepad, shift=shift, workers=w, mask=m)
            if rm.shape != recon.shape:
                fails.append("ROI mask %s: shape %r" % (nm, rm.shape))
                continue
            din = _maxdiff(rm[m], recon[m]) if m.any() else 0.0
            dout = float(np.abs(rm[~m]).max()) if (~m).any() else 0.0
            if not din <= tol or dout != 0.0:
                fails.append("ROI mask '%s' (workers=%d, shift=%r): inside differs from the full reconstruction by %.3g, "
                             "outside max %.3g (max of the reconstruction %.3g)" % (nm, w, shift, din, dout, s))
                break
    # -- linearity: integer combinations of two sparse integer sinograms
    s2 = np.zeros_like(sino)
    pts = rng.integers(0, sino.size, 25)
    s2.flat[pts] = rng.integers(1, 6, len(pts))
    r2 = call(ri.run_iradon, s2, omega, pad=usepad, shift=shift)
    for (ca, cb) in ((1, 1), (2, -3), (5, 7)):
        rc = call(ri.run_iradon, ca * sino + cb * s2, omega, pad=usepad, shift=shift)
        lin = ca * recon + cb * r2
        sc_ = abs(ca) * s + abs(cb) * float(np.abs(r2).max())
        d = _maxdiff(rc, lin)
        if not d <= REL * sc_:
            fails.append("FBP not linear: R(%d a + %d b) differs from %d R(a) + %d R(b) by %.3g (scale %.3g)" %
                         (ca, cb, ca, cb, d, sc_))
    # -- the options of iradon the consumers leave at their defaults: interpolation, filter, no shifts, no output size
    #    (the model is covariant in them: PART / the frame laws do not mention the interpolant or the filter);
    #    judged: the relational clauses; the 1.5 px bound where the interpolation is linear and a filter is applied
    j = info.get("ordinal", seed)
    obs = info.setdefault("obs", [])
    runs = info.setdefault("option_runs", [])
    shifts = np.full(sino.shape, shift)
    combos = [(INTERPS[j % 3], FILTERS[(j // 3) % 6], True, True),             # ordinals 0..17: every pair once
              (INTERPS[(j + 1) % 3], FILTERS[(j // 3 + 3) % 6], True, True),
              ("linear", FILTERS[(j + 1) % 6], j % 2 == 0, j % 4 >= 2)]
    firsts = []                  # (tag, sinogram, angles, options, first result) of every option combination
    for interp, filt, with_shift, with_size in combos:
        kw = dict(filter_name=filt, interpolation=interp)
        if with_shift:
            kw["projection_shifts"] = shifts
        if with_size:
            kw["output_size"] = ny + usepad
        tag = "iradon(%s)" % ", ".join("%s=%s" % (k, "<shift>" if k == "projection_shifts" else repr(v)) for k, v in sorted(kw.items()))
        if interp == "linear":
            f2, base = _options_run(tag, sino, s2, omega, kw, rng, where if (with_shift and with_size) else None, REL, False)
            firsts.append((tag, sino, omega, dict(kw), base))
        else:
            # scipy's interp1d is slow: every third projection (the relational clauses do not need the whole scan)
            kw["projection_shifts"] = shifts[:, ::3]
            f2, base = _options_run(tag + " on every third projection", sino[:, ::3], s2[:, ::3], omega[::3], kw, rng,
                                    where, REL, heavy=(interp == "cubic"))
            firsts.append((tag, sino[:, ::3], omega[::3], dict(kw), base))
        fails += f2
        runs.append((interp, str(filt), with_shift, with_size))
        if not with_shift:
            # no shifts at all is a shift of zero
            rz = call(ri.iradon, sino, theta=omega, workers=1, **dict(kw, projection_shifts=np.zeros(sino.shape)))
            if rz.shape != base.shape or _maxdiff(rz, base) > REL * float(np.abs(base).max()):
                fails.append("%s differs from the same call with projection_shifts = 0 by %.3g" % (tag, _maxdiff(rz, base)))
        if with_shift and with_size and filt is not None:
            dd, wh, _ = peak_distance(base, pred)
            if interp == "linear":
                if not dd <= FBP_PX:
                    fails.append("%s peaks at %r, %.3f px from the predicted (%.3f, %.3f)" % (tag, wh, dd, pred[0], pred[1]))
            else:
                info["worst_nonlinear_interp_px"] = max(info.get("worst_nonlinear_interp_px", 0.0), dd)
    # -- REPEAT LAW: every option combination once more after the others (another filter / interpolant at the same padded
    #    size was used in between), and the consumers' own combination (hamming, linear) after all of them
    for tag, sn_, om_, kw_, base in firsts:
        fails += _again(tag, base, sn_, om_, kw_, 1, "after the other option combinations")
    fails += _again("iradon as run_iradon calls it", direct, sino, omega,
                    dict(mask=None, output_size=ny + usepad, projection_shifts=np.full(sino.shape, shift),
                         filter_name="hamming", interpolation="linear"), 1, "after the option combinations")
    info["fbp_repeats"] = info.get("fbp_repeats", 0) + len(firsts) + 1
    # -- float32 sinograms (the reconstruction is float32: tolerance REL32); integer sinograms are not an input
    #    kind of the statement (the consumers build float sinograms): what happens is recorded, not judged
    sino32, s232 = sino.astype(np.float32), s2.astype(np.float32)
    f2, base32 = _options_run("iradon(float32 sinogram)", sino32, s232, omega,
                              dict(filter_name="hamming", interpolation="linear", projection_shifts=shifts, output_size=ny + usepad),
                              rng, where, REL32, heavy=True)
    fails += f2
    if base32.shape != recon.shape or not _maxdiff(base32, recon) <= REL32 * s:
        fails.append("float32 sinogram: reconstruction differs from the float64 one by %.3g (max %.3g)" % (_maxdiff(base32, recon), s))
    elif not peak_distance(base32, pred)[0] <= FBP_PX:
        fails.append("float32 sinogram: peak %.3f px from the prediction" % peak_distance(base32, pred)[0])
    info["float32"] = info.get("float32", 0) + 1
    for what, fn in (("int64 sinogram", lambda: ri.run_iradon(sino.astype(np.int64), omega, pad=usepad, shift=shift)),
                     ("workers=0", lambda: ri.run_iradon(sino, omega, pad=usepad, shift=shift, workers=0)),
                     ("workers=-1", lambda: ri.run_iradon(sino, omega, pad=usepad, shift=shift, workers=-1))):
        try:
            ro = fn()
            obs.append("%s: returns %s, differs from the float64 one-worker reconstruction by %.3g of its maximum" %
                       (what, ro.dtype, _maxdiff(ro, recon) / s))
        except Exception as e:              # noqa - recorded only
            obs.append("%s: raises %s" % (what, repr(e)[:160]))
    try:
        bl = g.fit_sample_position_from_recon(recon, ystep)
        info["blob_steps"] = None if bl is None else math.hypot(bl[0] - fl(c["sx"]), bl[1] - fl(c["sy"])) / ystep
    except Exception as e:                  # noqa - recorded only
        obs.append("fit_sample_position_from_recon raises %s" % repr(e)[:160])
    # -- consumer 1: GrainSinogram.recon, parameters set as in nbGui/S3DXRD/tomo_2_map.ipynb
    ybincens = ymin + np.arange(ny) * ystep
    if c["padmode"] != "pbp":
        ds = call(M.dataset.DataSet)
        ds.ybincens = ybincens
        ds.ystep = ystep
        gs = call(M.sinogram.GrainSinogram, M.grain.grain(np.eye(3)), ds)
        gs.ssino, gs.sinoangles = sino, omega
        sh2, pad2 = call(g.sino_shift_and_pad, y0, len(ds.ybincens), min(ds.ybincens), ds.ystep)
        if c["padmode"] == "own3":
            pad2 = pad2 + 3
        call(gs.update_recon_parameters, y0=y0, shift=sh2, pad=pad2)
        for w in (1, 4):
            rg = call(gs.recon, method="iradon", workers=w)
            if rg.shape != recon.shape or _maxdiff(rg, recon) > tol:
                fails.append("GrainSinogram.recon(workers=%d) differs from run_iradon with the module's shift and pad" % w)
            elif peak_distance(rg, pred)[0] > FBP_PX:
                fails.append("GrainSinogram.recon peaks %.3f px from the prediction" % peak_distance(rg, pred)[0])
        msk = np.zeros((n, n), bool)
        msk[i0:i1, j0:j1] = True
        call(gs.update_recon_parameters, mask=msk)
        rg = call(gs.recon, method="iradon", workers=2)
        if _maxdiff(rg[msk], recon[msk]) > tol or np.abs(rg[~msk]).max() != 0:
            fails.append("ROI mask: GrainSinogram.recon with recon_mask differs from the full reconstruction inside the mask")
        # a subset of the projections (the `projections` argument) is the FBP of those columns
        gs.recon_mask = None
        sub = np.sort(rng.choice(len(omega), size=max(len(omega) // 3, 2), replace=False))
        rg = call(gs.recon, method="iradon", workers=3, projections=sub)
        rs = call(ri.run_iradon, sino[:, sub], omega[sub], pad=usepad, shift=shift)
        if rg.shape != rs.shape or _maxdiff(rg, rs) > REL * float(np.abs(rs).max()):
            fails.append("GrainSinogram.recon(projections=subset) differs from run_iradon on those columns by %.3g" % _maxdiff(rg, rs))
        info["projection_subsets"] = info.get("projection_subsets", 0) + 1
    else:
        # -- consumer 2: PBPRefine.setmap / setmask
        pb = M.pbp
        scan = c["scan"]
        dset = types.SimpleNamespace(ybincens=ybincens, ystep=ystep,
                                     ybinedges=ymin - ystep / 2 + np.arange(ny + 1) * ystep,
                                     obincens=np.arange(0, scan, 1.0), obinedges=np.arange(0, scan + 1, 1.0) - 0.5,
                                     refmapfile=None, refpeaksfile=None, refoutfile=None, refmanfile=None)
        ref = call(pb.PBPRefine, dset, "phase", y0=y0)
        grid = call(g.step_grid_from_ybincens, ybincens, ystep, 1, y0)
        pmap = types.SimpleNamespace(i=np.array([p[0] for p in grid]), j=np.array([p[1] for p in grid]))
        call(ref.setmap, pmap)
        if ref.sx_grid.shape != recon.shape:
            fails.append("PBPRefine.setmap grid shape %r, specification %d" % (ref.sx_grid.shape, r["outsize"]))
        else:
            ai, aj = np.mgrid[:n, :n]
            gx, gy = call(g.recon_to_sample, ai, aj, ref.sx_grid.shape, ystep)
            if _maxdiff(gx, ref.sx_grid) > 1e-9 * n * ystep or _maxdiff(gy, ref.sy_grid) > 1e-9 * n * ystep:
                fails.append("PBPRefine sx_grid/sy_grid are not recon_to_sample of the pixel indices")
        ref.icolf = types.SimpleNamespace(dty=np.asarray(dty), omega=omega)
        captured = []
        real = pb.run_iradon

        def spy(*a, **k):
            out = real(*a, **k)
            captured.append((a, k, out))
            return out
        pb.run_iradon = spy
        try:
            call(ref.setmask, manual_threshold=None, doplot=False, use_icolf=True)
        finally:
            pb.run_iradon = real
        if len(captured) != 1:
            fails.append("PBPRefine.setmask did not call run_iradon once")
        else:
            rp = captured[0][2]
            if rp.shape != recon.shape:
                fails.append("PBPRefine.setmask reconstruction shape %r, grid %r" % (rp.shape, recon.shape))
            else:
                dd, wh, _ = peak_distance(rp, pred)
                if not dd <= FBP_PX:
                    fails.append("PBPRefine.setmask reconstruction peaks at %r, %.3f px from the predicted (%.3f, %.3f)"
                                 % (wh, dd, pred[0], pred[1]))
                if ref.mask.shape != recon.shape:
                    fails.append("PBPRefine.mask shape %r" % (ref.mask.shape,))
    return fails


def recon_key(rec):
    c = rec["cfg"]
    return (c["ny"], c["offh"], tuple(c["pq"]), tuple(c["ystep"]), c["scan"], c["padmode"], c["yminmode"])


def _pool_recon(args):
    rec, level, ordinal = args
    try:
        fails, info = recon_case(rec, level, ordinal)
    except RealCodeError as e:
        fails, info = [str(e)], {}
    return fails, info


def run_recon_cases(chk, recs, levels, procs=8):
    """levels[i] = 0 / 1.  FBP cases are independent: fork a few processes."""
    import multiprocessing as mp
    worst = 0.0
    ordinals, k = [], 0
    for lv in levels:
        ordinals.append(k if lv else None)
        k += bool(lv)
    items = list(zip(recs, levels, ordinals))
    results = None
    if procs > 1 and len(items) > 64:
        # compile the numba kernel once, before forking
        call(M.pbp.get_voxel_idx, 0.0, 0.0, 0.0, np.zeros(2), np.ones(2), np.zeros(2), 1.0)
        try:
            ctx = mp.get_context("fork")
            with ctx.Pool(procs) as pool:
                results = pool.map(_pool_recon, items, chunksize=4)
        except (OSError, ValueError):
            results = None
    if results is None:
        results = [_pool_recon(it) for it in items]
    agg = {"inexact": 0, "pad_other_side": 0, "fit_err": 0.0, "variants": [0, 0, 0], "option_runs": {}, "float32": 0,
           "projection_subsets": 0, "fbp_repeats": 0, "worst_nonlinear_interp_px": 0.0, "blob_none": 0, "blob_worst_steps": 0.0, "blob": 0,
           "obs": {}}
    for (rec, level, _), (fails, info) in zip(items, results):
        c = rec["cfg"]
        chk.case(recon_key(rec), nontrivial=(c["pq"] != [0, 0] or c["offh"] != 0))
        chk.traces += 1
        worst = max(worst, info.get("dist", 0.0))
        agg["inexact"] += bool(info.get("inexact"))
        agg["pad_other_side"] += bool(info.get("pad_other_side"))
        agg["fit_err"] = max(agg["fit_err"], info.get("fit_err", 0.0))
        if "variant" in info:
            agg["variants"][info["variant"]] += 1
        for o in info.get("option_runs", []):
            agg["option_runs"]["/".join(map(str, o))] = agg["option_runs"].get("/".join(map(str, o)), 0) + 1
        for k in ("float32", "projection_subsets", "fbp_repeats"):
            agg[k] += info.get(k, 0)
        agg["worst_nonlinear_interp_px"] = max(agg["worst_nonlinear_interp_px"], info.get("worst_nonlinear_interp_px", 0.0))
        if "blob_steps" in info:
            agg["blob"] += 1
            if info["blob_steps"] is None:
                agg["blob_none"] += 1
            else:
                agg["blob_worst_steps"] = max(agg["blob_worst_steps"], info["blob_steps"])
        for o in info.get("obs", []):
            o = o.split(", differs")[0]
            agg["obs"][o] = agg["obs"].get(o, 0) + 1
        if fails:
            what = ("point grain at (%s, %s) y0 offset %s/2 steps ny=%d ystep=%s scan=%d pad=%s: %s" %
                    (q(c["sx"]), q(c["sy"]), c["offh"], c["ny"], q(c["ystep"]), c["scan"], c["padmode"], fails[0]))
            # structural match of the known-finding class: nothing but ROI comparisons fail, and the
            # specification says the interpolation grid of this case is not increasing (XiZeroCharacterised)
            if info.get("roi_only") and not rec["rec"]["ximono"] and chk.finding(ROI_FINDING):
                chk.known_finding(ROI_FINDING, "ROI-restricted FBP differs from the full FBP where |shift| >= 1 "
                                               "(zero-padded projection shifts make np.interp's grid non-increasing)")
            else:
                chk.violation(what, {"kind": "recon", "level": level, "ordinal": info.get("ordinal"), "rec": rec,
                                     "failures": fails})
    return worst, agg


# --------------------------------------------------------------------------------------------------

def _tlc(chk, label, cfg, actions=None, **kw):
    kw.setdefault("workers", int(os.environ.get("C19_TLC_WORKERS", "16")))      # development knob on a shared box
    kw.setdefault("timeout", 1500)
    if os.environ.get("C19_TLC_HEAP"):                                           # development knob (box short of memory)
        kw.setdefault("heap", os.environ["C19_TLC_HEAP"])
    res = common.run_tlc("ScanGeom", os.path.join(common.SPECS, cfg), coverage=True, **kw)
    if res.violated:
        # the specification is static: its invariants do not depend on the tree under test
        raise common.MachineryError("TLC run %s: invariant %s violated in the specification itself\n%s" %
                                    (label, res.violated, res.stdout[-3000:]))
    chk.add_tlc(label, res, require_cover=actions or ())
    recs, bad = parse_printed(res)
    if bad:
        res = common.run_tlc("ScanGeom", os.path.join(common.SPECS, cfg), **dict(kw, workers=1))
        recs, bad = parse_printed(res)
        if bad or res.error:
            raise common.MachineryError("TLC output of %s could not be parsed (%d lines)" % (label, bad))
    if not recs:
        raise common.MachineryError("TLC run %s emitted nothing" % label)
    return recs


def run_part(chk, parts):
    """PART in this process: every (n, workers) of the code's law"""
    tab = PartTable(parts)
    nrec = 0
    for rec in sorted((r for r in parts if r["law"]), key=lambda r: (r["n"], r["w"])):
        try:
            fails, recorded_ = part_case(rec, tab)
        except RealCodeError as e:
            fails, recorded_ = [str(e)], False
        nrec += bool(recorded_)
        chk.case(("part", rec["n"], rec["w"]), nontrivial=rec["w"] >= 2 and rec["n"] >= 2)
        chk.traces += 1
        if fails:
            chk.violation("angle partition n=%d workers=%d: %s" % (rec["n"], rec["w"], fails[0]),
                          {"kind": "part", "rec": rec, "failures": fails})
    # workers=None in this process
    for n in (5, PART_MAXN):
        row = part_row_inprocess(n, None)
        fails, info = judge_part_row(tab, row, usable_cpus(), " in this process")
        chk.case(("part-none", n))
        if fails:
            chk.violation("angle partition n=%d workers=None: %s" % (n, fails[0]),
                          {"kind": "part", "n": n, "req": None, "failures": fails})
    chk.notes["partition_pairs_in_specification"] = len(parts)
    chk.notes["partition_pairs_not_a_partition"] = sum(1 for r in parts if not r["ok"])
    chk.notes["partition_cases_with_recorded_jobs"] = nrec
    return tab


def judge_children(chk, tab, children, recon_cases):
    notes = []
    for t, env_extra, res in children:
        bad, cnt = judge_child(tab, t, env_extra, res, recon_cases)
        chk.case(("child", t["affinity"], t["envname"]))
        chk.traces += cnt["rows"]
        chk.evaluations += cnt["rows"]
        for what, obj in bad:
            chk.violation(what, obj)
        notes.append({"cpus_in_mask": res.get("mask"), "environment": t["envname"], "sweeps": cnt["rows"],
                      "sweeps_with_recorded_jobs": cnt["recorded"], "requests_above_usable_cpus": cnt["capped_requests"],
                      "partition_by_another_pair": cnt["law_differs"], "observations": sorted(set(cnt["obs"]))[:6]})
    chk.notes["restricted_children"] = notes
    if children and not any(n["requests_above_usable_cpus"] and n["sweeps_with_recorded_jobs"] for n in notes):
        raise common.MachineryError("vacuity: no child ran a worker count above its usable cpus with recorded jobs")


def run(tier, replay=None):
    _setup()
    if replay:
        return do_replay(replay)
    chk = common.Check(PROP, tier)
    rnd = random.Random(common.seed())
    thorough = tier == "thorough"

    # ---- PART
    parts = _tlc(chk, "ScanGeom part n<=17 stride<=16 pool<=16", "ScanGeom_part.cfg", actions=["TakeJob"], timeout=900)
    tab = run_part(chk, parts)

    # ---- RECON (mode A): the specification's cases
    cases = _tlc(chk, "ScanGeom recon " + ("all offsets" if thorough else "7 offsets"),
                 "ScanGeom_recon.cfg" if thorough else "ScanGeom_recon_q.cfg", actions=RECON_ACTIONS)
    cases.sort(key=recon_key)
    # the worker sweep again in processes with a restricted CONFIGURATION (cpu affinity, batch environment);
    # they run beside the rest of the check on their 1..3 cpus
    own = [c for c in cases if c["cfg"]["padmode"] == "own" and c["cfg"]["pq"] != [0, 0]]
    child_cases = [rnd.choice([c for c in own if c["cfg"]["scan"] == 180 and c["cfg"]["ny"] == 40]),
                   rnd.choice([c for c in own if c["cfg"]["scan"] == 360 and c["cfg"]["ny"] == 41])]
    procs = start_children(child_tasks(child_cases, thorough, common.seed()))
    try:
        if not thorough:
            cases = rnd.sample(cases, min(700, len(cases)))
        nlevel1 = 160 if thorough else 24
        pick = set(rnd.sample(range(len(cases)), min(nlevel1, len(cases))))
        levels = [1 if i in pick else 0 for i in range(len(cases))]
        t0 = time.time()
        worst, agg = run_recon_cases(chk, cases, levels)
        chk.sample({"recon_case": cases[0]})
        chk.notes["fbp_cases"] = len(cases)
        chk.notes["fbp_cases_with_workers_roi_linearity_consumers_options_float32"] = sum(levels)
        chk.notes["fbp_worst_distance_px"] = round(worst, 4)
        chk.notes["fbp_s"] = round(time.time() - t0, 1)
        chk.notes["fbp_cases_step_not_a_binary_fraction"] = agg["inexact"]
        chk.notes["fbp_cases_pad_on_the_far_side_of_a_boundary"] = agg["pad_other_side"]
        chk.notes["fit_sine_wave_cases"] = len(cases)
        chk.notes["fit_sine_wave_worst_relative_error"] = float("%.3g" % agg["fit_err"])
        chk.notes["scan_descriptions"] = {"omega + 360 k": agg["variants"][0], "2 degree steps decreasing": agg["variants"][1],
                                          "offset start": agg["variants"][2]}
        chk.notes["iradon_option_runs (interpolation/filter/shifts given/output_size given)"] = agg["option_runs"]
        chk.notes["float32_cases"] = agg["float32"]
        chk.notes["projection_subset_cases"] = agg["projection_subsets"]
        chk.notes["fbp_option_combinations_called_again_after_the_others"] = agg["fbp_repeats"]
        chk.notes["fbp_cases_called_again (run_iradon third call bit-identical, omega rewritten in place)"] = len(cases)
        chk.notes["observations"] = {
            "not judged": agg["obs"],
            "worst peak distance with nearest / cubic interpolation (px)": round(agg["worst_nonlinear_interp_px"], 3),
            "fit_sample_position_from_recon": {"cases": agg["blob"], "returned None": agg["blob_none"],
                                               "worst distance from the grain (steps)": round(agg["blob_worst_steps"], 3)}}

        # ---- WALK (mode B)
        walks = _tlc(chk, "ScanGeom walk depth 4 " + ("thorough" if thorough else "quick"),
                     "ScanGeom_walk_t.cfg" if thorough else "ScanGeom_walk_q.cfg", actions=WALK_ACTIONS)
        # the same machine with the caller's actions: omega changed IN PLACE (set_omega), the last call again (repeat)
        reps = _tlc(chk, "ScanGeom walk depth 4 with set_omega / repeat " + ("5 combos" if thorough else "2 combos"),
                    "ScanGeom_walk_rep_t.cfg" if thorough else "ScanGeom_walk_rep.cfg", actions=WALK_ACTIONS + REPEAT_ACTIONS)
        reps = [r for r in reps if any(s_["a"] in REPEAT_ACTIONS for s_ in r["op"])]      # the others are in `walks`
        if not thorough:
            reps = rnd.sample(reps, min(6000, len(reps)))
        nsim = 4000 if thorough else 800
        sim = _tlc(chk, "ScanGeom walk simulate depth 8", "ScanGeom_walk_sim.cfg", actions=None,
                   simulate=max(nsim // 16, 1), depth=9, seed_=common.seed())
        seen = set()
        allw = []
        for rec in walks + reps + sim:
            k = walk_key(rec)
            if k not in seen:
                seen.add(k)
                allw.append(rec)
        t0 = time.time()
        groups = {}
        nscalar = ninexact = 0
        nrep = {"set_omega": 0, "repeat": 0}
        for i, rec in enumerate(allw):
            chk.case(walk_key(rec), nontrivial=walk_nontrivial(rec))
            chk.traces += 1
            groups.setdefault(group_key(rec), []).append(rec)
            ninexact += not dyadic(rec["cfg"]["ystep"])
            nrep["set_omega"] += any(s_["a"] == "set_omega" for s_ in rec["op"])
            nrep["repeat"] += any(s_["a"] == "repeat" for s_ in rec["op"])
            if i % 3 == 0:
                judge_walk(chk, rec, i // 3)
                nscalar += 1
            if i < 2:
                chk.sample({"walk": rec})
        ndistinct = 0
        for gi, (gk, recs) in enumerate(sorted(groups.items())):
            judge_group(chk, recs, gi)
            ndistinct += len(recs) > 1
        chk.notes["walks_replayed"] = len(allw)
        chk.notes["walks_with_scalar_arguments"] = nscalar
        chk.notes["walk_groups_with_array_arguments"] = len(groups)
        chk.notes["walk_groups_with_distinct_elements"] = ndistinct
        chk.notes["walks_step_not_a_binary_fraction"] = ninexact
        chk.notes["walks_with_omega_changed_in_place"] = nrep["set_omega"]
        chk.notes["walks_with_a_repeated_call"] = nrep["repeat"]
        chk.notes["array_argument_objects"] = "one per role and group size for the whole run, rewritten in place"
        if min(nrep.values()) == 0:
            raise common.MachineryError("vacuity: no walk with set_omega / repeat")
        chk.notes["walk_replay_s"] = round(time.time() - t0, 1)
    except BaseException:
        for p in procs:
            p[0].kill()
        raise
    judge_children(chk, tab, collect_children(procs), child_cases)

    chk.notes["tolerances"] = {"positions": "1e-9*scale+1e-12", "fbp_peak_px": FBP_PX, "fbp_rel": REL,
                               "fbp_rel_float32": REL32, "fit_rel": FIT_REL}
    chk.notes["workers_exercised"] = list(range(1, 17)) + ["None"]

    chk.rule = ("walks: every behaviour of 4 conversions TLC enumerates from every frame (+ seeded simulated walks of 8), "
                "each with scalar (every third one) and array arguments (groups that differ in the angle), "
                "non-trivial = a frame is visited twice; recon: every (position in the scanned disc, y0 offset, ystep, ny, "
                "scan, pad mode, ymin) case of the specification%s, non-trivial = off-axis point or off-centre y0; "
                "partition: every (n<=17, workers<=16) in this process, and requests 1..16 / None in children restricted "
                "to 1, 2, 3 cpus" % ("" if thorough else " at 7 offsets, seeded sample of 700"))
    chk.exhaustive = bool(thorough)
    chk.assumptions = ["1.5 px bound, linearity, worker and ROI independence are observed on the real FBP at the "
                       "specification's cases; the specification supplies the predicted pixel, the exact fit and the "
                       "partition law for every (stride, pool size) pair",
                       "exact instances: omega in right/Pythagorean angles, lengths in half/quarter steps of "
                       "1/2, 1, 3, 1/10, 3/7",
                       "the restricted configurations are emulated with os.sched_setaffinity and environment variables "
                       "in child processes"]
    if thorough:
        selftest()
    return chk.finish()


# --------------------------------------------------------------------------------------------------

def _part_table_now():
    res = common.run_tlc("ScanGeom", os.path.join(common.SPECS, "ScanGeom_part.cfg"),
                         workers=int(os.environ.get("C19_TLC_WORKERS", "4")), timeout=900)
    parts, bad = parse_printed(res)
    if bad or not parts or res.violated or res.error:
        raise common.MachineryError("TLC run of the PART machine failed")
    return PartTable(parts)


def do_replay(path):
    with open(path) as f:
        obj = json.load(f)
    case = obj["case"]
    kind = case["kind"]
    try:
        if kind == "walk":
            recs = case["recs"] if "recs" in case else case["rec"]
            vec = case.get("vector", False)
            if vec and case.get("before"):
                try:                         # the group that used the shared argument objects before this one
                    replay_walk(case["before"]["recs"], vector=True, turns=case["before"]["turns"])
                except RealCodeError:
                    pass
            fails = replay_walk(recs if vec else (recs[0] if isinstance(recs, list) else recs), vector=vec,
                                turns=case.get("turns"))
        elif kind == "recon":
            fails, _ = recon_case(case["rec"], level=case.get("level", 0), ordinal=case.get("ordinal"))
        elif kind == "part":
            tab = _part_table_now()
            if "rec" in case:
                fails, _ = part_case(case["rec"], tab)
            else:
                fails, _ = judge_part_row(tab, part_row_inprocess(case["n"], case["req"]), usable_cpus(), " in this process")
        elif kind == "child":
            tab = _part_table_now()
            recs = [case["rec"]] if "rec" in case else []
            children = collect_children(start_children([(case["task"], case.get("env", {}))]))
            t, env_extra, res = children[0]
            bad, _ = judge_child(tab, t, env_extra, res, recs)
            fails = [w for w, _ in bad]
        else:
            raise common.MachineryError("unknown replay kind %r" % kind)
    except RealCodeError as e:
        fails = [str(e)]
    if fails:
        for s in fails[:5]:
            print("  " + s)
        print("VIOLATION property=%s replay=%s" % (PROP, path))
        return 1
    print("%s replay: the saved case passes on the current tree" % PROP)
    return 0


def selftest():
    """the comparisons must reject a perturbed expectation"""
    _setup()
    import copy
    nw = int(os.environ.get("C19_TLC_WORKERS", "8"))
    res = common.run_tlc("ScanGeom", os.path.join(common.SPECS, "ScanGeom_walk_q.cfg"), workers=nw, timeout=900)
    walks, _ = parse_printed(res)
    if not walks:
        raise common.MachineryError("selftest: no walks")
    good = [w for w in walks if any(s["ph"] >= 2 for s in w["op"]) and not w["cfg"]["tie"]][0]
    if replay_walk(good):
        raise common.MachineryError("selftest: reference walk does not pass")
    w = copy.deepcopy(good)
    n, d = w["op"][1]["p"][0]
    w["op"][1]["p"][0] = [n * 1000 + d, d * 1000]          # + 1/1000
    if not replay_walk(w):
        raise common.MachineryError("selftest: perturbed walk position not rejected")
    w = copy.deepcopy(good)
    for s in w["op"]:
        if s["ph"] >= 2:
            s["i"] += 1
    w["cfg"]["dc"] += 1
    if "dc0" in w["cfg"]:
        w["cfg"]["dc0"] += 1          # (replay_walk takes the initial dtyi_calc from dc0)
    if not replay_walk(w):
        raise common.MachineryError("selftest: perturbed dtyi not rejected")
    # a group with distinct elements: perturbing the expectation of the SECOND element only must be noticed
    grp = [x for x in walks if group_key(x) == group_key(good)]
    if len(grp) < 2:
        raise common.MachineryError("selftest: no walk group")
    if replay_walk(grp, vector=True, turns=[1, -1] + [0] * (len(grp) - 2)):
        raise common.MachineryError("selftest: reference walk group does not pass")
    g2 = copy.deepcopy(grp)
    n, d = g2[1]["op"][-1]["d"]
    g2[1]["op"][-1]["d"] = [n * 1000 + d, d * 1000]
    if not replay_walk(g2, vector=True):
        raise common.MachineryError("selftest: perturbed element of a walk group not rejected")
    # partition
    res = common.run_tlc("ScanGeom", os.path.join(common.SPECS, "ScanGeom_part.cfg"), workers=nw, timeout=900)
    parts, _ = parse_printed(res)
    tab = PartTable(parts)
    p = copy.deepcopy(tab.rec[(7, 3, 3)])
    if part_case(p, tab)[0]:
        raise common.MachineryError("selftest: reference partition does not pass")
    p["jobs"][0][1], p["jobs"][1][1] = p["jobs"][1][1], p["jobs"][0][1]
    if not part_case(p, PartTable([p]))[0]:
        raise common.MachineryError("selftest: perturbed partition not rejected")
    # what a pool capped below the stride would hand over: the specification's record says it is no partition
    capped = tab.rec[(7, 5, 2)]
    row = {"n": 7, "req": 5, "pool": 2, "jobs": capped["jobs"], "diff": 0.0, "scale": 1.0}
    f, _ = judge_part_row(tab, row, 2)
    if capped["ok"] or capped["ndrop"] != 3 or not f or "not a partition" not in f[0]:
        raise common.MachineryError("selftest: jobs of a capped pool not rejected")
    row = {"n": 7, "req": 5, "pool": 5, "jobs": tab.rec[(7, 5, 5)]["jobs"], "diff": 0.5, "scale": 1.0}
    if not judge_part_row(tab, row, 2)[0]:
        raise common.MachineryError("selftest: differing reconstruction not rejected")
    res = common.run_tlc("ScanGeom", os.path.join(common.SPECS, "ScanGeom_recon_q.cfg"), workers=nw, timeout=900)
    cases, _ = parse_printed(res)
    c0 = [c for c in cases if c["cfg"]["pq"] == [30, 21] and c["cfg"]["offh"] == 7 and dyadic(c["cfg"]["ystep"])][0]
    if recon_case(c0)[0]:
        raise common.MachineryError("selftest: reference recon case does not pass")
    c = copy.deepcopy(c0)
    n, d = c["rec"]["pred"][0]
    c["rec"]["pred"][0] = [n + 3 * d, d]                    # + 3 px
    if not recon_case(c)[0]:
        raise common.MachineryError("selftest: perturbed predicted pixel not rejected")
    c = copy.deepcopy(c0)
    c["rec"]["shift"] = [c["rec"]["shift"][0] + c["rec"]["shift"][1], c["rec"]["shift"][1]]
    if not recon_case(c)[0]:
        raise common.MachineryError("selftest: perturbed shift not rejected")
    c = copy.deepcopy(c0)
    c["rec"]["ang"][4]["vhi"] += 1
    if not recon_case(c)[0]:
        raise common.MachineryError("selftest: perturbed voxel window not rejected")
    c = copy.deepcopy(c0)
    n, d = c["rec"]["fit"][2]
    c["rec"]["fit"][2] = [n * 1000 + d, d * 1000]           # y0 + 1/1000
    f = recon_case(c)[0]
    if not f or "specification (sx, sy, y0)" not in f[0]:
        raise common.MachineryError("selftest: perturbed fit not rejected")
    # a step that is not a binary fraction: the far side of a boundary is accepted, two away is not
    c1 = [c for c in cases if not dyadic(c["cfg"]["ystep"]) and c["cfg"]["padmode"] == "own" and c["cfg"]["pq"] == [13, -7]][0]
    if recon_case(c1)[0]:
        raise common.MachineryError("selftest: reference recon case (ystep 1/10) does not pass")
    c = copy.deepcopy(c1)
    c["rec"]["ownpad"] -= 2
    if not recon_case(c)[0]:
        raise common.MachineryError("selftest: perturbed pad (ystep 1/10) not rejected")
    return True

"""C05 - two indexed reflections determine the correct orientation (Busing-Levy).

Specification  specs/Orient.tla  (see its header): exact integer reciprocal metrics of named lattices,
rings = makerings' rings (runs of Q values whose d* lie within the ring tolerance of the ring's first member: shells
of one Q for the small forms, several families of UNEQUAL d* for the pseudo-symmetric forms ortM / triM / tetN / monN,
where |g| of a reflection is not the ring's d*), exact cosines N / sqrt(Q(ha) Q(hb)) compared as fractions, the block
machine of unitcell.filter_pairs transcribed branch by branch (with the block ends as written, `len(c2as) - 1`, and
repaired), "indexes the same" by its meaning (a member of Aut+(G), computed by brute force, maps one hkl pair on the
other), orient()'s nearest / crange lookup and ubi_equiv's de-duplication.  Instance set = named lattices (25, three
of them long-axis forms, four with merged rings) x Scales: the cell (id, k) is the lattice `id` with every edge
multiplied by 2^k (k = -3 .. 7: edges from ~0.5 A to ~1300 A); the machine is scale free (it compares cosines), the
orientations obey the scale law orient(s.cell, g/s) = s.orient(cell, g)  (Orient.tla, SCALE / ScaleLaw).
Ring pairs of an instance = the ordered pairs of the first 4 (quick) / 5 rings + the cell's NEAR-CUT ring pairs: the
specification computes, among the first 8 (quick) / 12 rings, the ring pairs holding the angle class with the largest
|cos| < 0.98 and the non-collinear class with the smallest |cos| >= 0.98 (filter_pairs' cut; CutOf) - they are model
cases (CutCase), recorded and judged like every other ring pair, and the run is void unless exactly these classes went
through orient() / were set aside.

TLC runs
  Orient_q / Orient_t   MODE "rule": every cell x ordered ring pair (quick: r1 <= r2 among the first 3 rings; the
                        trace run below covers every recorded ring pair) + near-cut ring pairs x tie rule x block-end variant;
                        invariants Complete (repaired ends), Irredundant, NoCrash, BlocksExact, DedupAgrees,
                        EvenBlocks, TrueFound, NoBoundaryTie, CellLaws (Aut+ is a group of the expected order; ring boxes
                        complete up to the merge horizon), ScaleLaw (integer side: rings, Aut+, sort keys, the 0.98 test
                        of m.G are those of G)
  Orient_asis           block ends as written: Complete must FAIL (design-level counterexample, F4)
  Orient_own            ownership machine: invariants Owned, ResultsStand; its histories are replayed (see Ownership)
  Orient_trace_q / _t   MODE "trace": the sorted pair order recorded from the REAL filter_pairs is validated
                        (permutation of ring1 x ring2, exact cosines never decrease) and the machine is run on
                        it for both block-end variants -> expected kept list, per pair the equivalent kept
                        entries, per observed angle and lookup mode the candidates and their classes; one trace
                        line stands for all scales of the cell at which exactly this order was recorded.
                        An order the specification rejects (what filter_pairs was handed is not the cosine table
                        of ring1 x ring2) is reported as a violation of the tree (kind "trace") unless the harness
                        cannot attribute it to the tree, and the property is then judged without the machine.

Instances replayed: every cell of the configuration at k = 0 with every rotation, plus the same cell at other scales
(quick: the smallest, the largest and one seed-chosen scale in between; thorough: all of Scales) with one
seed-chosen rotation each.  Every instance goes through every route below and is judged on its own; in addition
the scale law is compared bit for bit against the k = 0 instance (kept list, cosines, BT = s.BT0, UBIlist =
s.UBIlist0): a difference there is a conformance note - the verdict is the instance's own judgement.

Ownership (Orient.tla, third machine; Orient_own.cfg): a unit cell is a snapshot of the six numbers it was made from
and an orient() result a snapshot of the answer.  EVERY real cell of this check is made from a float64 array the caller
keeps using (a 6-vector, a row / a strided column of a table of cells, a slice of a longer vector; some scaled
instances from a list) which is overwritten with a very different, much smaller cell right after the constructor
returns and again after makerings; EVERY orient() call gets its g-vectors in arrays of the caller (rows / strided
columns in turn) that are overwritten as soon as it returns; the arrays handed out by the previous call are re-judged
after each call, the object (lattice_parameters, B, metric, ring table) and what getanglehkls handed out at the
beginning are re-judged after all calls.  A ring table that differs from the model's while the same numbers given as
a list give the model's rings is a violation (not a C03 set-aside).  The histories of the machine (overwrite the
parameter array | makerings | orient, two observations x nearest / crange | overwrite the g arrays; depth 5 x five
constructor arguments) are replayed on the hexagonal cell and on seed-chosen others with an audit of the object and of
every result handed out so far after every operation.

Binding (mode A, with the tie order of the unstable float sort taken from the code - see Orient.tla)
  unitcell.unitcell(cell, centring).makerings      ring table must be the model's (else the cell is set aside:
                                                   ring tables are C03's property)
  unitcell.getanglehkls(r1, r2) -> filter_pairs    cosangles_many vs exact cosines; kept pairs == model's list,
                                                   order included; cangs; BT matrices through quickorient;
                                                   second call served from the cache (same object, no recompute),
                                                   recomputed after makerings(tol') changed ringtol
  unitcell.anglehkls(ha, hb)                       angle / cosine of every kept pair
  unitcell.orient(r1, g1, r2, g2)                  nearest mode and crange 0.002 / 0.71, g = U.B.h for EVERY hkl
                                                   pair of the ring pair with |cos| < 0.98 (every family of a merged
                                                   ring: |g| is the reflection's own d*) and every rotation U
                                                   of the configuration (exact rational U; B = Cholesky factor
                                                   of the exact metric, harness arithmetic)
      property:    some member of UBIlist equals the true UBI up to a member of Aut+(G) (integer hkl for every
                   reflection of the grain), right handed, the cell's metric; no two members related by an
                   integer matrix.  Judged from the hkl pairs and Aut+ alone (the number of inequivalent pairs per
                   angle is counted on the pairs, not on a kept list), whether or not the kept list conforms.
                   Every candidate indexes g1 and g2 themselves - required only where every pair the lookup can
                   return has the observed angle and the observed lengths (c05_lib.same_lengths_only).
      conformance: UBIlist = exactly one Busing-Levy orientation per class of the model's candidates
  cImageD11.quickorient(g1, g2; BT cached by the code)  == Busing-Levy construction, for every kept pair
  the formula itself, for EVERY hkl pair with |cos| < 0.98 given its true indices (no lookup in between): the
  result must be the generating UBI
      unitcell.orient_BL(B, ha, hb, g1, g2)                  python triads
      unitcell.BTmat(ha, hb, B, BI) + cImageD11.quickorient  the C kernel with a freshly made BT
      indexing.ubi_fit_2pks(UBI, g1, g2)                     re-fit of the generating UBI to its own pair
"""
from __future__ import print_function
import os, sys, json, math, time, glob
import numpy as np
import common
import c05_lib as L

PROP = "C05"
RULE_ACTIONS = ["Tables", "PrintCell", "SortPairs", "Cluster", "SkipBlock", "KeepSingle", "KeepFirst", "TestSame", "TestNew",
                "CloseBlock", "Finish", "Lookup", "Dedup"]      # KeepCrash: unreachable (invariant NoCrash)
MODES = (0, 2, 710)


def _parse(res, name):
    recs, bad = [], 0
    for s in res.printed:
        try:
            recs.append(json.loads(s))
        except ValueError:
            bad += 1
    if bad:
        raise common.MachineryError("%s: %d unparsable TLC lines" % (name, bad))
    return recs


def tlc_rule(chk, tier, workers=16):
    cfg = os.path.join(common.SPECS, "Orient_q.cfg" if tier == "quick" else "Orient_t.cfg")
    res = common.run_tlc("Orient", cfg, workers=workers, timeout=2400, coverage=(tier == "thorough"))
    if res.violated:
        raise common.MachineryError("Orient (%s): model invariant %s violated (specification error)\n%s"
                                    % (tier, res.violated, res.stdout[-2000:]))
    chk.add_tlc("Orient rule " + tier, res, require_cover=RULE_ACTIONS if tier == "thorough" else ())
    if res.coverage and res.coverage.get("KeepCrash", (0, 0))[1] != 0:
        raise common.MachineryError("KeepCrash reached although NoCrash holds")
    recs = _parse(res, "Orient rule")
    cells = {r["cell"]: r for r in recs if r["kind"] == "cell"}
    kept = [r for r in recs if r["kind"] == "kept"]
    if res.coverage:
        chk.notes["action_coverage"] = {a: t for a, (d, t) in res.coverage.items()}
    return cells, kept


def tlc_asis(chk, workers=16):
    """the block ends as written must violate Complete in the model (F4 at design level)"""
    res = common.run_tlc("Orient", os.path.join(common.SPECS, "Orient_asis.cfg"), workers=workers, timeout=900)
    chk.add_tlc("Orient as-is block ends", res)
    if res.violated != ["CompleteAsIs"]:
        raise common.MachineryError("Orient_asis: expected the counterexample to CompleteAsIs, got %s\n%s"
                                    % (res.violated, res.stdout[-1500:]))
    last = res.trace[-1]["vars"] if res.trace else {}
    chk.notes["asis_counterexample"] = {"cs": last.get("cs", "?")[:300], "kept": last.get("kept", "?")[:200]}


def tlc_trace(chk, nr, lines, name, workers=16):
    path = os.path.join(common.scratch(), "orient_trace_%s.ndjson" % name)
    with open(path, "w") as f:
        for ln in lines:
            f.write(json.dumps(ln) + "\n")
    cfg = os.path.join(common.SPECS, "Orient_trace_q.cfg" if nr == 4 else "Orient_trace_t.cfg")
    res = common.run_tlc("Orient", cfg, workers=workers, timeout=2400, env_extra={"TRACE_FILE": path})
    if res.violated:
        raise common.MachineryError("Orient trace: model invariant %s violated (specification error)\n%s"
                                    % (res.violated, res.stdout[-2000:]))
    chk.add_tlc("Orient trace " + name, res)
    recs = _parse(res, "Orient trace")
    out = {}
    for r in recs:
        d = out.setdefault(r["t"], {"kept": {}, "lookup": {}, "bad": False, "crash": {}})
        if r["kind"] == "kept":
            d["kept"][r["bug"]] = r
        elif r["kind"] == "lookup":
            d["lookup"].setdefault(r["bug"], {})[(r["obs"], r["cr"])] = r
        elif r["kind"] == "crash":
            d["crash"][r["bug"]] = r
        elif r["kind"] == "badtrace":
            d["bad"] = True
    return out


# ----------------------------------------------------------------------------------------------

def ring_pairs(tier, nr, cut=()):
    """ordered ring pairs of the first nr rings (quick: r1 <= r2 and two transposed ones) + the cell's near-cut ring
    pairs (Orient.tla, NEAR-CUT RING PAIRS: they hold the angle classes next to |cos| = 0.98 on both sides)"""
    if tier == "quick":
        std = [(a, b) for a in range(1, nr + 1) for b in range(a, nr + 1)] + [(2, 1), (4, 2)]
    else:
        std = [(a, b) for a in range(1, nr + 1) for b in range(1, nr + 1)]
    return std + [tuple(p) for p in cut if tuple(p) not in std]


def check_floats(rc, real, table=True):
    """cosangles_many, cangs, anglehkls against the exact cosines (N / sqrt(Q(ha) Q(hb)), each pair its own lengths)"""
    probs = []
    if table:
        exact = L.exact_cos_table(rc, real["h1"], real["h2"])
        if real["c2a"].shape != exact.shape or not L.close(real["c2a"], exact, 1.0):
            probs.append("cosangles_many differs from the exact cosines")
    kN, kD, _ = L.pair_keys(rc, real["kept"]) if real["kept"] else ([], [], [])
    for (a, b), c, n, d in zip(real["kept"], real["cangs"], kN, kD):
        e = float(n) / math.sqrt(float(d))
        if abs(c - e) > 1e-9:
            probs.append("cangs entry %r for pair %s, exact %r" % (c, (a, b), e))
        ang, cs = rc.cell.anglehkls(a, b)
        if abs(cs - e) > 1e-9 or abs(ang - math.degrees(math.acos(max(-1.0, min(1.0, e))))) > 1e-6:
            probs.append("anglehkls%s = %r, exact cos %r" % ((a, b), (ang, cs), e))
    return probs


def check_quickorient(rc, rt, real, U):
    """cImageD11.quickorient with the BT matrix cached by the code == Busing-Levy construction"""
    probs = []
    UB = np.dot(U, rc.B)
    scale = float(np.abs(rc.BI).max())
    for (a, b), BT in zip(real["kept"], real["matrs"]):
        g1 = np.dot(UB, np.array(a, float))
        g2 = np.dot(UB, np.array(b, float))
        ubi = np.zeros((3, 3))
        ubi[0] = g1
        ubi[1] = g2
        rt.quickorient(ubi, BT)
        want = L.ubi_from_pair(rc.B, rc.BI, np.array(a, float), np.array(b, float), g1, g2)
        if not np.abs(ubi - want).max() <= 1e-9 * scale + 1e-12 * rc.s:
            probs.append("quickorient with the cached BT of %s differs from the Busing-Levy UBI" % ((a, b),))
            break
        # and that UBI is B^-1 U^T (the generating grain itself)
        if not np.abs(ubi - np.dot(rc.BI, U.T)).max() <= 1e-9 * scale + 1e-12 * rc.s:
            probs.append("orientation made from its own pair %s is not the generating UBI" % ((a, b),))
            break
    return probs


def scale_law_kept(rc, real, base):
    """the kept list of the cell scaled by 2^k against the k = 0 instance, bit for bit"""
    probs = []
    if base is None or base.get("error") or "kept" not in base:
        return probs
    if real["order"] != base["order"]:
        probs.append("scale law: the sorted pair order of the cell scaled by 2^%d differs from the unscaled cell's" % rc.k)
    if real["kept"] != base["kept"]:
        probs.append("scale law: the kept list of the cell scaled by 2^%d differs from the unscaled cell's (%d / %d pairs)"
                     % (rc.k, len(real["kept"]), len(base["kept"])))
        return probs
    if real["cangs"] != base["cangs"]:
        probs.append("scale law: the cosines of the kept pairs of the cell scaled by 2^%d are not bit for bit the unscaled cell's" % rc.k)
    if not all(np.array_equal(m, m0 * rc.s) for m, m0 in zip(real["matrs"], base["matrs"])):
        probs.append("scale law: the BT matrices of the cell scaled by 2^%d are not 2^%d times (bit for bit) the unscaled cell's"
                     % (rc.k, rc.k))
    return probs


def judge_ringpair(chk, rc, rt, r1, r2, real, model, rots, stats, xs=None, perturb=None, imod=None, base=None,
                   store=None, law=None):
    """returns list of (kind, text, example) for one recorded ring pair of one instance (cell, k).
    model = trace-run output for it; rots = [(index, U)]; base = the k = 0 instance's record of the same ring pair;
    store / law = {rotation index: {call key: UBIlist}} to fill / to compare with (scale law).
    kinds: 'property' and 'trace' are violations, 'conformance' is a note"""
    out = []
    if real.get("error"):
        crash = model["crash"].get(True)
        out.append(("property", "getanglehkls(%d,%d) raised %s%s" % (
            r1 - 1, r2 - 1, real["error"], " (the model's empty last block)" if crash else ""), None))
        return out
    bad = model["bad"]
    # the model's blocks are blocks of equal exact cosine: they are the code's blocks (float differences > 1e-8) only
    # if distinct exact cosines of the ring pair are well apart (a property of the instance, not of the tree)
    _, _, keys = L.pair_keys(rc, [(a, b) for a in rc.rings[r1 - 1] for b in rc.rings[r2 - 1]])
    _, gap = L.class_ranks(keys)
    if gap <= L.MIN_GAP:
        raise common.MachineryError("instance %s rings (%d,%d): two distinct exact cosines differ by %.3g only (the "
                                    "code clusters at 1e-8): not a usable instance" % (rc.name, r1 - 1, r2 - 1, gap))
    stats.min_cos_gap = min(stats.min_cos_gap, gap)
    if bad:
        # the specification does not accept the recorded order: either the tree handed its filter_pairs something that
        # is not the cosine table of ring1 x ring2 (a violation of the tree, reported; the property is then judged
        # without the block machine) or the recording is broken (harness)
        why = L.diagnose_order(rc, r1, r2, real)
        if not why:
            raise common.MachineryError("recorded order rejected by the specification (ValidOrder) although the hkl lists and "
                                        "the cosine table handed to filter_pairs are those of the rings: %s %d %d" % (rc.name, r1, r2))
        chk.notes["orders_rejected_by_specification"] = chk.notes.get("orders_rejected_by_specification", 0) + 1
        for w in why:
            out.append(("trace", "getanglehkls(%d,%d): the pair order the code sorted is not one the specification accepts "
                        "(ValidOrder): %s" % (r1 - 1, r2 - 1, w), None))
        mk, match = {}, []
    else:
        mk = model["kept"]
        match = [bug for bug in (False, True) if bug in mk and L.as_pairs(mk[bug]["keptpairs"]) == real["kept"]]
    which = match[0] if match else None
    cat = "order_rejected" if bad else {(False, True): "both_variants", (False,): "repaired_ends_only",
                                        (True,): "written_ends_only", (): "neither"}[tuple(match)]
    stats.conform[cat] = stats.conform.get(cat, 0) + 1
    for p in check_floats(rc, real, table=not bad):
        out.append(("property", p, None))
    if rc.k != 0:
        for p in scale_law_kept(rc, real, base):
            out.append(("conformance", p, None))
    if which is None:
        # neither variant of the block machine explains the list: judge the property on the list itself
        direct = L.judge_kept_direct(rc, real)
        chk.notes["kept_unexplained"] = chk.notes.get("kept_unexplained", 0) + 1
        for p in direct:
            out.append(("property", "kept list (not the model's): " + p, None))
        if not direct:
            chk.notes["kept_unexplained_but_valid"] = chk.notes.get("kept_unexplained_but_valid", 0) + 1
            out.append(("conformance", "kept list is not the block machine's (but complete and irredundant)", None))
        # orient() is then judged against the repaired model's classes as far as they apply
        which_for_orient = False
    else:
        which_for_orient = which
        rec = mk[which]
        if not rec["complete"]:
            miss = [x for x in range(rec["n"]) if rec["small"][x] and not rec["reps"][x]]
            out.append(("property", "kept list == model with block ends `len(c2as) - 1`: %d hkl pair(s) with |cos| < 0.98 are "
                        "neither kept nor equivalent to a kept pair, e.g. %s" % (len(miss), real["order"][miss[0]]),
                        {"x": miss[0]}))
        if not rec["irredundant"]:
            out.append(("property", "kept list contains equivalent pairs", None))
    if bad:
        rec = L.direct_rec(rc, r1, r2, real)
        lookups = {}
    else:
        rec = dict(mk[which_for_orient])
        rec["_order"] = real["order"]
        lookups = model["lookup"].get(which_for_orient, {})
    rec["_keptpairs"] = L.as_pairs(rec["keptpairs"])
    order = rec["_order"]
    for ui, U in rots:
        for p in check_quickorient(rc, rt, real, U):
            out.append(("property", p, None))
    # the formula's other implementations, every pair, true indices (one rotation of this instance)
    ui, U = rots[(common.seed() + r1 + r2) % len(rots)]
    probs, n = L.judge_direct_routes(rc, rt, imod, order, rec["small"], U)
    stats.direct_routes += n
    chk.case((rc.name, r1, r2, "direct", ui))
    for p in probs:
        out.append(("property", p, {"rot": ui}))
    nbad = {}
    q12 = rc.qs[r1 - 1] * rc.qs[r2 - 1]
    for ui, U in rots:
        st = store.setdefault(ui, {}) if store is not None else None
        lw = law.get(ui) if law is not None else None
        for x in (range(rec["n"]) if xs is None else xs):
            acos = abs(rec["nn"][x]) / math.sqrt(float(rec["dd"][x]))
            if not rec["small"][x]:
                if rec["nn"][x] ** 2 == rec["dd"][x]:
                    stats.skipped_collinear += 1
                else:
                    stats.skipped_near += 1
                    stats.near_cut_above[rc.id] = min(stats.near_cut_above.get(rc.id, 1.0), acos)
                continue
            stats.near_cut_below[rc.id] = max(stats.near_cut_below.get(rc.id, 0.0), acos)
            if rec["dd"][x] != q12:
                stats.merged_pairs += 1
            for mode in MODES:
                probs = L.judge_orient(rc, r1, r2, rec, lookups, U, x, mode, stats, perturb=perturb,
                                       conform=(which is not None), store=st, law=lw)
                chk.case((rc.name, r1, r2, x, ui, mode))
                for kind, text in probs:
                    key = (kind, text[:60], mode)
                    nbad[key] = nbad.get(key, 0) + 1
                    if nbad[key] == 1:
                        out.append((kind, "orient(%d, U.B.%s, %d, U.B.%s%s): %s" % (
                            r1 - 1, order[x][0], r2 - 1, order[x][1],
                            "" if mode == 0 else ", crange=%g" % L.CRS[mode], text),
                            {"x": x, "rot": ui, "mode": mode}))
    for i, (kind, text, ex) in enumerate(out):
        for key, n in nbad.items():
            if ex and key[0] == kind and key[2] == ex.get("mode") and key[1] in text and n > 1:
                out[i] = (kind, text + "  [%d such calls in this ring pair]" % n, ex)
    return out


def check_cache(rc, rec, pairs, reals):
    """second getanglehkls call is served from the cache; a changed ringtol invalidates it"""
    probs = []
    n0 = len(rec.calls)
    for (r1, r2) in pairs:
        real = reals.get((r1, r2))
        if real is None or real.get("error"):
            continue
        v = rc.cell.getanglehkls(r1 - 1, r2 - 1)
        if v is not real["val"]:
            probs.append("getanglehkls(%d,%d): second call did not return the cached value" % (r1 - 1, r2 - 1))
    if len(rec.calls) != n0:
        probs.append("cached ring pairs were recomputed (%d filter_pairs calls)" % (len(rec.calls) - n0))
    # same rings, different tolerance: cache must be rebuilt and give the same lists
    rc.cell.makerings(rc.limit, tol=0.0009 / rc.s)
    if rc.ring_problems():
        rc.cell.makerings(rc.limit, tol=rc.tol)
        return probs        # (tolerance changed the table - merged rings split: not this check's subject)
    n0 = len(rec.calls)
    for (r1, r2) in pairs[:3]:
        real = reals.get((r1, r2))
        if real is None or real.get("error"):
            continue
        v = rc.cell.getanglehkls(r1 - 1, r2 - 1)
        if v is real["val"]:
            probs.append("getanglehkls(%d,%d) after makerings(tol') still returns the old cache entry" % (r1 - 1, r2 - 1))
        elif [(tuple(a), tuple(b)) for a, b in v[0]] != real["kept"]:
            probs.append("getanglehkls(%d,%d) after makerings(tol') gives a different list" % (r1 - 1, r2 - 1))
    rc.cell.makerings(rc.limit, tol=rc.tol)
    return probs


def standing_problems(rc):
    """what getanglehkls handed out for the recorded ring pairs (the cache entries themselves) still has the recorded
    content after every orient / quickorient / direct-route call of the run; the ring table is still the model's"""
    probs = []
    for (r1, r2), real in sorted(rc.reals.items()):
        if real.get("error") or "val" not in real:
            continue
        try:
            pairs, cangs, matrs = real["val"]
            same = ([(tuple(int(v) for v in a), tuple(int(v) for v in b)) for a, b in pairs] == real["kept"]
                    and [float(c) for c in cangs] == real["cangs"]
                    and len(matrs) == len(real["matrs"])
                    and all(np.array_equal(np.asarray(m, float).reshape(3, 3), m0) for m, m0 in zip(matrs, real["matrs"])))
        except Exception:       # noqa
            same = False
        if not same:
            probs.append("what getanglehkls(%d,%d) handed out (hkl pairs, cosines, BT matrices) no longer holds what it held "
                         "when it was handed out" % (r1 - 1, r2 - 1))
            break
    rp = rc.ring_problems()
    if rp:
        probs.append("the ring table is no longer the cell's: %s" % rp[0])
    return probs


def tlc_own(chk, workers=16):
    res = common.run_tlc("Orient", os.path.join(common.SPECS, "Orient_own.cfg"), workers=workers, timeout=600, coverage=True)
    if res.violated:
        raise common.MachineryError("Orient ownership machine violates %s" % res.violated)
    chk.add_tlc("Orient ownership", res, require_cover=["OScribP", "ORings", "OOrient", "OScribG"])
    return [(r["how"], r["hist"]) for r in _parse(res, "Orient ownership") if r["kind"] == "own"]


def own_observations(rc):
    """two observations of one grain for the ownership histories: a ring pair as far out in the ring table as possible
    (the reflections most sensitive to the hkl search box) and two of its hkl pairs with |cos| < 0.98 whose angle class
    is alone within twice the narrow crange; returns r1, r2, [(ha, hb, decided)]: decided = one class of pairs only
    subtends the angle (the nearest lookup must then give the grain; otherwise only the crange lookup must)"""
    best = None
    for r2 in range(rc.nr, 0, -1):
        for r1 in range(r2 - 1, 0, -1):
            order = [[list(a), list(b)] for a in rc.rings[r1 - 1] for b in rc.rings[r2 - 1]]
            N, D, keys = L.pair_keys(rc, order)
            ranks, gap = L.class_ranks(keys)
            if gap <= L.MIN_GAP or len(order) > 600:
                continue
            counts = L.class_counts(rc, order, ranks)
            cosv = N / np.sqrt(D.astype(float))
            rk = np.asarray(ranks)
            ok = [x for x in range(len(order)) if L.is_small(N[x], D[x])
                  and np.all((rk == rk[x]) | (np.abs(cosv - cosv[x]) > 2 * L.CR_NARROW))]
            dec = [x for x in ok if counts[ranks[x]] == 1]
            if len(dec) >= 2:
                return r1, r2, [(order[dec[0]][0], order[dec[0]][1], True), (order[dec[len(dec) // 2]][0], order[dec[len(dec) // 2]][1], True)]
            if len(ok) >= 2 and best is None:
                best = (r1, r2, [(order[ok[0]][0], order[ok[0]][1], False), (order[ok[len(ok) // 2]][0], order[ok[len(ok) // 2]][1], False)])
    if best is None:
        raise common.MachineryError("no ring pair of %s with two hkl pairs whose angle class is isolated" % rc.name)
    return best


def replay_own(chk, ucmod, crec, nr, hists):
    """every history of the ownership machine on a fresh real cell made from what the history says (how); after every
    operation the object (parameters, B, metric, ring table once made) and every result handed out so far (the arrays
    themselves) are re-judged: the object is the cell of the numbers it was made from, every orientation handed out
    still indexes the grain of the observation it was made from"""
    viol = []
    ref = L.RealCell(ucmod, crec, 0, how="list", rings=False)
    r1, r2, obs = own_observations(ref)
    rots = [L.rot_matrix(r) for r in crec["rots"]]
    norient = 0
    for how, hist in hists:
        rc = L.RealCell(ucmod, crec, 0, how=how, rings=False)
        outs = []           # (handed-out list object, its members, copies, UB of the grain, description)
        gbuf = np.zeros((2, 3))
        bad = None
        for i, op in enumerate(hist):
            try:
                if op[0] == "scribp":
                    rc.scribble(rc.version + 1)
                elif op[0] == "rings":
                    rc.makerings()
                elif op[0] == "scribg":
                    gbuf[...] = gbuf[::-1] * 2.25 - 0.625
                elif op[0] == "orient":
                    ha, hb, decided = obs[op[1] - 1]
                    UB = np.dot(rots[(op[1] + common.seed()) % len(rots)], rc.B)
                    gbuf[0] = np.dot(UB, np.array(ha, float))
                    gbuf[1] = np.dot(UB, np.array(hb, float))
                    if op[2] == 0:
                        rc.cell.orient(r1 - 1, gbuf[0], r2 - 1, gbuf[1])
                    else:
                        rc.cell.orient(r1 - 1, gbuf[0], r2 - 1, gbuf[1], crange=L.CRS[op[2]])
                    norient += 1
                    held = rc.cell.UBIlist
                    outs.append((held, list(held), [np.array(u, float) for u in held], UB if (decided or op[2] != 0) else None,
                                 "orient(%d, U.B.%s, %d, U.B.%s%s)" % (r1 - 1, ha, r2 - 1, hb, "" if op[2] == 0 else ", crange=%g" % L.CRS[op[2]])))
            except Exception as e:      # noqa
                bad = "%s raised %r" % (op[0], e)
            # ---- audit
            if bad is None:
                probs = rc.ownership_problems()
                if rc.has_rings and not probs:
                    probs = ["ring table: " + t for t in rc.ring_problems()[:1]]
                for held, members, copies, UB, what in outs:
                    if probs:
                        break
                    now = [np.asarray(u, float) for u in held]
                    if len(now) != len(copies) or any(a is not b for a, b in zip(list(held), members)) or \
                            not all(np.array_equal(a, b) for a, b in zip(now, copies)):
                        probs.append("the result of %s no longer holds what it held when it was handed out" % what)
                    elif UB is not None and not L.found_true(rc, now, UB):
                        probs.append("no orientation handed out by %s indexes the generating grain" % what)
                if probs:
                    bad = probs[0]
            if bad is not None:
                viol.append(("property", "ownership history (cell made from %s) %s: after operation %d (%s): %s" % (
                    rc.describe_how(), [o[0] if o[0] != "orient" else "orient%d/%d" % (o[1], o[2]) for o in hist], i + 1, op[0], bad),
                    {"own": {"how": how, "hist": hist}}))
                break
        chk.traces += 1
        chk.case(("own", crec["cell"], how, tuple(map(tuple, hist))))
    chk.notes["ownership_histories"] = len(hists)
    chk.notes["ownership_orient_calls"] = norient
    chk.notes["ownership_observations"] = {"rings": [r1 - 1, r2 - 1], "pairs": obs}
    if hists and not viol and norient < len(hists):
        raise common.MachineryError("vacuity: %d orient calls in %d ownership histories" % (norient, len(hists)))
    return viol


def tlc_cache(chk, workers=16):
    res = common.run_tlc("Orient", os.path.join(common.SPECS, "Orient_cache.cfg"), workers=workers, timeout=600, coverage=True)
    if res.violated:
        raise common.MachineryError("Orient cache machine violates %s" % res.violated)
    chk.add_tlc("Orient getanglehkls cache", res, require_cover=["CGet", "CRetol"])
    return [r["hist"] for r in _parse(res, "Orient cache") if r["kind"] == "cache"]


OWN_STRIDE = (4, 24)    # every 4th (thorough) / 24th (quick) ownership history (a seed-chosen residue) per cell
CACHE_TOLS = {1: 0.001, 2: 0.04}      # version 2 merges neighbouring shells: the ring table changes


def replay_cache(chk, ucmod, crec, nr, hists):
    """every history of the cache machine on a fresh real cell: what getanglehkls hands out must be made of
    reflections of the rings in force (a stale entry after makerings(tol') is not); hit / miss as the model says"""
    viol = []
    mism = 0
    for hist in hists:
        rc = L.RealCell(ucmod, crec)
        if rc.build_error or rc.ownership_problems():
            viol.append(("property", "cache history %s: %s" % (hist, (rc.ownership_problems() + [rc.build_error])[0]), {"hist": hist}))
            break
        with L.Recorder(ucmod) as rec:
            for op in hist:
                if op[0] == "retol":
                    try:
                        rc.cell.makerings(rc.limit, tol=CACHE_TOLS[op[1]])
                    except Exception as e:      # noqa
                        viol.append(("property", "cache history %s: makerings raised %r" % (hist, e), {"hist": hist}))
                        break
                    continue
                r1, r2, hit = op[1] - 1, op[2] - 1, op[3]
                n0 = len(rec.calls)
                try:
                    pairs = rc.cell.getanglehkls(r1, r2)[0]
                except Exception as e:      # noqa
                    viol.append(("property", "cache history %s: getanglehkls raised %r" % (hist, e), {"hist": hist}))
                    break
                if (len(rec.calls) - n0 == 0) != bool(hit):
                    mism += 1
                try:
                    s1 = set(tuple(h) for h in rc.cell.ringhkls[rc.cell.ringds[r1]])
                    s2 = set(tuple(h) for h in rc.cell.ringhkls[rc.cell.ringds[r2]])
                except Exception as e:      # noqa
                    viol.append(("property", "cache history %s: rings %d, %d cannot be read from the ring table: %r" % (hist, r1, r2, e), {"hist": hist}))
                    break
                if any(tuple(a) not in s1 or tuple(b) not in s2 for a, b in pairs) or not pairs:
                    viol.append(("property", "getanglehkls(%d,%d) handed out hkl pairs that are not reflections of the rings in "
                                 "force (stale cache entry) after %s" % (r1, r2, hist), {"hist": hist}))
                    break
        chk.traces += 1
        chk.case(("cache", tuple(map(tuple, hist))))
    chk.notes["cache_histories"] = len(hists)
    chk.notes["cache_hit_miss_differs_from_model"] = mism
    return viol


class Stats(L.OrientStats):
    def __init__(self):
        L.OrientStats.__init__(self)
        self.conform = {}
        self.skipped_near = 0
        self.min_cos_gap = 2.0
        self.merged_pairs = 0       # hkl pairs judged whose |g| differs from the d* of the ring it is assigned to
        self.near_cut_below = {}    # per cell: largest |cos| < 0.98 among the pairs orient() was called for
        self.near_cut_above = {}    # per cell: smallest |cos| >= 0.98 among the non-collinear pairs set aside
        self.built = {}             # what the constructors were given (c05_lib.HOWS): number of instances


def instance_scales(tier, crec, idx, only_k=None):
    """the scale exponents at which a cell is replayed: k = 0 always; quick: the two ends of Scales and one
    seed-chosen member in between; thorough: all of Scales"""
    if only_k is not None:
        return [0] if only_k == 0 else [0, only_k]
    others = sorted(k for k in crec.get("scales", [0]) if k != 0)
    if tier != "quick" or len(others) <= 3:
        return [0] + others
    mid = others[1:-1]
    return [0, others[0], mid[(common.seed() + idx) % len(mid)], others[-1]]


def process(chk, ucmod, rt, cells, nr, tier, only=None, perturb=None, imod=None, scales=True):
    """build the real cells (cell x scale), record, run the trace specification, judge.
    only = (cellid, r1, r2, k) for replay; scales=False: k = 0 only (self-test)"""
    stats = Stats()
    rcs, lines, meta, linekey = {}, [], [], {}
    set_aside = {}
    viol = []
    with L.Recorder(ucmod) as rec:
        for idx, cid in enumerate(sorted(cells)):
            if only and cid != only[0]:
                continue
            ks = instance_scales(tier, cells[cid], idx, only[3] if only else None) if scales else [0]
            nrot = len(cells[cid]["rots"])
            for k in ks:
                # the constructor is given an array the caller keeps using: overwritten with a very different cell right
                # after construction and again after makerings (c05_lib.RealCell; Orient.tla, ownership)
                rc = L.RealCell(ucmod, cells[cid], k, how=L.how_of(cid, k))
                stats.built[rc.how] = stats.built.get(rc.how, 0) + 1
                own = rc.ownership_problems()
                for ptxt in own:
                    viol.append((cid, k, 1, 1, "property", "ownership: " + ptxt, {"how": rc.how}))
                rp = [rc.build_error] if rc.build_error else rc.ring_problems()
                if rp:
                    # the rings of a cell made from a list of the same numbers tell whose doing the difference is
                    twin = L.RealCell(ucmod, cells[cid], k, how="list") if rc.how != "list" else None
                    if twin is not None and not twin.build_error and not twin.ring_problems():
                        viol.append((cid, k, 1, 1, "property", "ownership: the cell was made from %s which the caller overwrote "
                                     "with another cell before makerings ran: the ring table is not the cell's (%s), while the "
                                     "same numbers given as a list give the model's rings" % (rc.describe_how(), "; ".join(rp[:2])),
                                     {"how": rc.how}))
                    else:
                        set_aside[rc.name] = rp[:3]
                    continue
                rcs[(cid, k)] = rc
                # k = 0: every rotation; other scales: one, seed-chosen (the k = 0 instance keeps its results for the law)
                rc.rotidx = list(range(nrot)) if k == 0 else [(common.seed() + idx + k) % nrot]
                rc.reals = {}
                rc.pairs = ring_pairs(tier, nr, rc.cut) if not only else [(only[1], only[2])]
                for (r1, r2) in rc.pairs:
                    real = L.record_ringpair(rc, rec, r1, r2)
                    rc.reals[(r1, r2)] = real
                    if "order" in real:
                        key = (cid, r1, r2, json.dumps(real["order"]))
                        if key not in linekey:
                            lines.append({"cell": cid, "r1": r1, "r2": r2, "ks": [], "order": real["order"]})
                            linekey[key] = len(lines)
                        t = linekey[key]
                        lines[t - 1]["ks"].append(k)
                        meta.append((t, cid, k, r1, r2))
        chk.notes["cells_set_aside_ring_table_differs"] = set_aside
        if not any(k == 0 for (_, k) in rcs):
            if viol:
                return stats, viol, rcs     # (nothing left to judge: the violations found while building are the result)
            raise common.MachineryError("no cell whose real ring table equals the model's: %s" % set_aside)
        chk.notes["instances_replayed"] = sorted(rc.name for rc in rcs.values())
        chk.notes["trace_lines"] = len(lines)
        models = tlc_trace(chk, nr, lines, tier if not only else "replay")
        stores = {}
        for (t, cid, k, r1, r2) in sorted(meta, key=lambda m: (m[1], m[2] != 0, m[2], m[3], m[4])):      # k = 0 first
            rc = rcs[(cid, k)]
            real = rc.reals[(r1, r2)]
            model = models.get(t)
            if model is None:
                raise common.MachineryError("no specification output for trace line %d" % t)
            allrots = [L.rot_matrix(r) for r in cells[cid]["rots"]]
            rots = [(ui, allrots[ui]) for ui in rc.rotidx]
            rc0 = rcs.get((cid, 0))
            base = rc0.reals.get((r1, r2)) if (rc0 is not None and k != 0) else None
            # the k = 0 instance keeps the UBIlists of the rotations its scaled siblings will use
            need = set(ui for (c2, k2), r2c in rcs.items() if c2 == cid and k2 != 0 for ui in r2c.rotidx)
            for c2 in [c for c in stores if c != cid]:
                del stores[c2]                  # (a finished cell's results are no longer needed)
            st = stores.setdefault(cid, {})
            res = judge_ringpair(chk, rc, rt, r1, r2, real, model, rots, stats, perturb=perturb, imod=imod, base=base,
                                 store=(_Only(st, need) if k == 0 else None), law=(st if k != 0 else None))
            chk.traces += 1
            for kind, text, ex in res:
                viol.append((cid, k, r1, r2, kind, text, ex))
            if len(chk.samples) < 3 and model["kept"].get(False):
                kk = model["kept"][False]
                chk.sample({"cell": rc.name, "r1": r1, "r2": r2, "n_pairs": kk["n"], "kept_model": kk["keptpairs"][:6],
                            "kept_real": [list(map(list, p)) for p in real.get("kept", [])[:6]]})
        # ring pairs whose recording failed before filter_pairs returned
        for (cid, k), rc in rcs.items():
            for key, real in rc.reals.items():
                if "order" not in real:
                    viol.append((cid, k, key[0], key[1], "property", "getanglehkls failed: %s" % real.get("error"), None))
        if perturb is None:
            # after all the calls: the object still is the cell it was made from and what getanglehkls handed out at the
            # beginning still holds what was recorded then (nothing in between wrote into it)
            for (cid, k), rc in sorted(rcs.items()):
                for ptxt in rc.ownership_problems() + standing_problems(rc):
                    viol.append((cid, k, 1, 1, "property", "after all calls: " + ptxt, {"how": rc.how}))
        if not only and perturb is None:
            for (cid, k), rc in rcs.items():
                if k != 0:
                    continue
                for p in check_cache(rc, rec, rc.pairs, rc.reals):
                    viol.append((cid, k, 0, 0, "conformance", p, None))
    return stats, viol, rcs


class _Only(object):
    """a store that keeps only the rotations somebody will compare with"""

    def __init__(self, d, need):
        self.d, self.need = d, need

    def setdefault(self, ui, v):
        return self.d.setdefault(ui, v) if ui in self.need else None


def report(chk, cells, nr, tier, viol):
    """one violation per (instance, ring pair, kind of failure)"""
    seen = set()
    conf = [v for v in viol if v[4] not in ("property", "trace")]
    # differences from the model that leave the stated property intact are evidence, not violations
    chk.notes["conformance_only_differences"] = len(conf)
    chk.notes["conformance_only_examples"] = ["%s*2^%d (%d,%d): %s" % (v[0], v[1], v[2] - 1, v[3] - 1, v[5][:200]) for v in conf[:8]]
    # property violations first, the unscaled instance first; a failure already reported for the unscaled cell is not
    # repeated for its scaled copies (counted)
    rank = {"property": 0, "trace": 1}
    same = 0
    for cid, k, r1, r2, kind, text, ex in sorted([v for v in viol if v[4] in rank],
                                                 key=lambda v: (rank[v[4]], v[1] != 0, v[0], v[2], v[3], abs(v[1]))):
        key = (cid, "ownership") if text.startswith("ownership:") else (cid, r1, r2, kind, text[:40])
        if key in seen:
            same += (k != 0)
            continue
        seen.add(key)
        chk.violation("%s cell %s%s rings (%d,%d): %s" % ("conformance (recorded order)" if kind == "trace" else kind, cid,
                                                         "" if k == 0 else " with every edge x 2^%d" % k, r1 - 1, r2 - 1, text),
                      {"cell": cells[cid], "k": k, "nr": nr, "tier": tier, "r1": r1, "r2": r2, "kind": kind, "example": ex})
    chk.notes["violations_repeated_at_other_scales_of_the_same_cell"] = same


def _indexing():
    """ImageD11.indexing (for ubi_fit_2pks); None when the module cannot be imported in this environment"""
    try:
        from ImageD11 import indexing
        return indexing if hasattr(indexing, "ubi_fit_2pks") else None
    except Exception:       # noqa
        return None


def run(tier, replay=None):
    chk = common.Check(PROP, tier)
    shadow = common.build_shadow("normal")
    common.use_shadow(shadow)
    from ImageD11 import unitcell as ucmod, cImageD11 as rt
    imod = _indexing()
    chk.rule = ("TLC enumerates named lattices (exact integer reciprocal metric, centring, ring tolerance; scale free; four of "
                "them with rings merging families of unequal d*) x (ordered ring pairs of the first NR rings + the ring pairs "
                "holding the angle classes next to the 0.98 cut on both sides among the first NRC rings) x tie rules x "
                "block-end variants; every lattice is instantiated at k = 0 (all rotations) and "
                "with every edge x 2^k for the scales of the configuration (quick: both ends and one seed-chosen scale; one "
                "seed-chosen rotation); for every ring pair of every instance the real filter_pairs is "
                "recorded and its kept list compared with the model run on the recorded order; orient() is then called "
                "for EVERY hkl pair with |cos| < 0.98 x rotation x (nearest, crange 0.002, crange 0.71), and orient_BL / "
                "BTmat+quickorient / ubi_fit_2pks for every such pair with its true indices; non-trivial = "
                "every orient call (distinct by instance, rings, pair, rotation, mode); every real cell is made from an "
                "array the caller overwrites with another cell after construction and after makerings, every g-vector array "
                "is overwritten after the call, earlier results are re-judged after later calls; + the histories of the "
                "ownership machine (quick: every 24th, two cells)")
    chk.assumptions = [
        "rings are makerings' rings of exact integer metrics (runs of Q within the ring tolerance of the first member: one "
        "shell for the small forms, merged families for ortM / triM / tetN / monN); the real ring table is compared with the model's, cells where it "
        "differs (C03 findings) are set aside and listed in the evidence",
        "blocks of equal angle = pairs of equal exact cosine: distinct exact cosines of every replayed ring pair differ by "
        "more than 1e-6 (checked; the code clusters at 1e-8)",
        "the order inside a block of equal cosines comes from the code's own unstable float sort: it is recorded, validated "
        "(ValidOrder) and fed to the model; the property is model-checked for two deterministic tie rules",
        "lattice symmetry = Aut+ of the cell's metric (for R centring this includes operations exchanging obverse and reverse: "
        "the property speaks of integer hkl only)",
        "nearest mode returns one candidate: when several inequivalent pairs subtend the observed angle it is judged for "
        "conformance only (counted as ambiguous_nearest); pairs with |cos| >= 0.98 are outside the code's documented domain",
        "irrational finishing (B = Cholesky factor, triads, U from exact rationals) is done by the harness in binary64; "
        "tolerance 1e-9 relative",
        "ownership is part of the property as stated: 'the unit cell's parameters' are those the object was made from and "
        "a generated orientation is a value - neither changes when the caller re-uses the arrays he passed in; arrays the "
        "object hands out (getanglehkls' cache entry, B, lattice_parameters) are never written to by the harness",
        "scaled instances are made from the k = 0 quantities by multiplication with exact powers of two and are given the "
        "ring tolerance 0.001 / 2^k (makerings' tolerance is an absolute d* difference: with the default the rings of a "
        "1000 A cell would merge, which is C03's subject)"]
    if replay:
        obj = json.load(open(replay))["case"]
        crec = obj["cell"]
        nr = obj["nr"]
        cells = {crec["cell"]: crec}
        # re-judge without touching evidence/ or replay/ (the replayed file stays as it is)
        bad = []
        chk.violation = lambda what, o: (bad.append(what), print("  violation: %s" % what))
        ex = obj.get("example") or {}
        if "own" in ex:
            viol = [(crec["cell"], 0, 1, 1) + v for v in replay_own(chk, ucmod, crec, nr, [(ex["own"]["how"], ex["own"]["hist"])])]
        elif "hist" in ex:
            viol = [(crec["cell"], 0, 1, 1) + v for v in replay_cache(chk, ucmod, crec, nr, [ex["hist"]])]
        else:
            stats, viol, _ = process(chk, ucmod, rt, cells, nr, obj.get("tier", "quick"),
                                     only=(crec["cell"], obj["r1"], obj["r2"], obj.get("k", 0)), imod=imod)
            viol = [v for v in viol if v[1] == obj.get("k", 0)]
        report(chk, cells, nr, obj.get("tier", "quick"), viol)
        if bad:
            print("VIOLATION property=%s replay=%s" % (PROP, replay))
        print("%s replay: ring pair re-recorded and re-judged, %d orient calls, violations=%d" % (PROP, chk.evaluations, len(bad)))
        return 1 if bad else 0

    for f in glob.glob(os.path.join(os.environ.get("VERIF_OUT_DIR", common.VERIF), "replay", PROP, "violation_*.json")):
        os.remove(f)
    t0 = time.time()
    cells, keptrule = tlc_rule(chk, tier)
    tlc_asis(chk)
    nr = 4 if tier == "quick" else 5
    chk.notes["model_cases"] = len(keptrule)
    chk.notes["model_incomplete_with_written_block_ends"] = sorted(set(
        "%s(%d,%d)" % (r["cell"], r["r1"] - 1, r["r2"] - 1) for r in keptrule if r["bug"] and not r["complete"]))[:60]
    if any((not r["complete"]) for r in keptrule if not r["bug"]):
        raise common.MachineryError("repaired model incomplete although invariant Complete passed")
    chk.notes["tlc_s"] = round(time.time() - t0, 1)
    t1 = time.time()
    stats, viol, rcs = process(chk, ucmod, rt, cells, nr, tier, imod=imod)
    chk.notes["replay_s"] = round(time.time() - t1, 1)
    chk.notes["orient_calls"] = stats.calls
    chk.notes["scale_law_orient_calls_bit_for_bit"] = stats.law_exact
    chk.notes["scale_law_orient_calls_differing"] = stats.law_differs
    chk.notes["direct_route_pairs(orient_BL,BTmat+quickorient,ubi_fit_2pks)"] = stats.direct_routes
    chk.notes["kept_lists_equal_model"] = stats.conform
    chk.notes["orient_multi_class_lookups"] = stats.multi
    chk.notes["orient_cross_block_lookups"] = stats.crossblock
    chk.notes["orient_lookups_where_ubi_equiv_merges_candidates"] = stats.dedup
    chk.notes["ambiguous_nearest"] = stats.ambiguous_nearest
    chk.notes["pairs_collinear"] = stats.skipped_collinear
    chk.notes["pairs_not_collinear_but_abs_cos_ge_0.98"] = stats.skipped_near
    chk.notes["orient_pairs_with_g_longer_than_the_ring_dstar(merged rings)"] = stats.merged_pairs
    chk.notes["smallest_difference_of_distinct_cosines"] = stats.min_cos_gap
    chk.notes["largest_abs_cos_below_0.98_per_cell"] = dict((c, round(v, 6)) for c, v in sorted(stats.near_cut_below.items()))
    chk.notes["smallest_abs_cos_at_or_above_0.98_per_cell"] = dict((c, round(v, 6)) for c, v in sorted(stats.near_cut_above.items()))
    chk.notes["cells_replayed"] = sorted(set(c for c, k in rcs))
    nprop = len([v for v in viol if v[4] in ("property", "trace")])
    # (the counters only cover ring pairs whose kept list the model explains: with violations pending the
    #  violations are the result, not a vacuity complaint)
    if nprop == 0 and (stats.calls < 1000 or stats.multi < 10 or stats.crossblock < 10 or stats.dedup < 10):
        raise common.MachineryError("vacuity: %d orient calls, %d multi-class, %d cross-block, %d merging lookups"
                                    % (stats.calls, stats.multi, stats.crossblock, stats.dedup))
    if nprop == 0:
        # the angle classes next to the cut (specification: CutOf) really went through orient() / were set aside, and
        # reflections of every family of a merged ring were used
        for cid in sorted(set(c for c, k in rcs)):
            lo, hi = cells[cid]["cutlo"], cells[cid]["cuthi"]
            if abs(stats.near_cut_below.get(cid, 0.0) - math.sqrt(lo[0] / float(lo[1]))) > 1e-12:
                raise common.MachineryError("vacuity: cell %s: the class next below the 0.98 cut (cos^2 = %d/%d) was not replayed"
                                            % (cid, lo[0], lo[1]))
            if hi[0] < hi[1] and abs(stats.near_cut_above.get(cid, 1.0) - math.sqrt(hi[0] / float(hi[1]))) > 1e-12:
                raise common.MachineryError("vacuity: cell %s: the class next above the 0.98 cut (cos^2 = %d/%d) was not replayed"
                                            % (cid, hi[0], hi[1]))
        if any(len(q) > 1 for c, k in rcs for q in cells[c]["qsets"][:nr]) and stats.merged_pairs < 100:
            raise common.MachineryError("vacuity: only %d orient calls with a reflection of a non-first family of a merged ring"
                                        % stats.merged_pairs)
    nscaled = len([1 for c, k in rcs if k != 0])
    if nprop == 0 and (nscaled == 0 or stats.law_exact + stats.law_differs < 100 * nscaled or stats.direct_routes < 1000):
        raise common.MachineryError("vacuity: %d scaled instances, %d scale law comparisons, %d direct route pairs"
                                    % (nscaled, stats.law_exact + stats.law_differs, stats.direct_routes))
    chk.notes["instances_built_from"] = stats.built
    if nprop == 0 and any(stats.built.get(h, 0) == 0 for h in L.HOWS_ARRAY):
        raise common.MachineryError("vacuity: constructor routes used %s" % stats.built)
    hists = tlc_cache(chk)
    if tier == "quick":
        hists = hists[::8]
    ccell = "hexP" if ("hexP", 0) in rcs or not rcs else sorted(rcs)[0][0]
    if ccell not in cells:
        ccell = sorted(cells)[0]
    for kind, text, ex in replay_cache(chk, ucmod, cells[ccell], nr, hists):
        viol.append((ccell, 0, 1, 1, kind, text, ex))
    # ownership of the constructor's argument and of the results handed out: every history of the third machine, on the
    # hexagonal cell (families are cut by a box that is too small) and on one seed-chosen other cell
    ohists = sorted(tlc_own(chk), key=lambda h: json.dumps(h))
    others = [c for c in sorted(cells) if c != ccell and ((c, 0) in rcs or not rcs)]
    nother = 1 if tier == "quick" else 3
    ocells = [ccell] + [others[(common.seed() + 3 * i) % len(others)] for i in range(min(nother, len(others)))]
    ocells = [c for i, c in enumerate(ocells) if c not in ocells[:i]]
    stride = OWN_STRIDE[tier == "quick"]
    for n, oc in enumerate(ocells):
        sel = ohists[(common.seed() + 5 * n) % stride::stride]
        for kind, text, ex in replay_own(chk, ucmod, cells[oc], nr, sel)[:4]:
            viol.append((oc, 0, 1, 1, kind, text, ex))
    report(chk, cells, nr, tier, viol)
    chk.exhaustive = (tier == "thorough") and not chk.notes["cells_set_aside_ring_table_differs"]
    if tier == "thorough":
        selftest(ucmod, rt, cells, nr)
    return chk.finish()


def selftest(ucmod=None, rt=None, cells=None, nr=4):
    """perturb the real output (drop / duplicate / invert a member of UBIlist, edit the kept list) and require
    the judgement to reject it"""
    if ucmod is None:
        shadow = common.build_shadow("normal")
        common.use_shadow(shadow)
        from ImageD11 import unitcell as ucmod, cImageD11 as rt
    if cells is None:
        chk0 = common.Check(PROP, "selftest")
        cells, _ = tlc_rule(chk0, "quick")
        nr = 4
    cid = "hexP" if "hexP" in cells else sorted(cells)[0]
    base = None
    for pert in (None, "drop", "dup", "flip"):
        chk = common.Check(PROP, "selftest")
        stats, viol, _ = process(chk, ucmod, rt, {cid: cells[cid]}, nr, "quick", only=(cid, 1, 3, 0), perturb=pert)
        if pert is None:
            base = viol
            if viol:
                return          # the unchanged tree already fails here: nothing to self-test against
        elif not viol:
            raise common.MachineryError("selftest: perturbation %r of UBIlist accepted" % pert)
    # a constructor that keeps the caller's array, an orient that hands out one work array again and again: each must
    # be reported
    orig_init = ucmod.unitcell.__init__

    def aliasing(self, lattice_parameters, *a, **k):
        orig_init(self, lattice_parameters, *a, **k)
        if isinstance(lattice_parameters, np.ndarray):
            self.lattice_parameters = lattice_parameters
    ucmod.unitcell.__init__ = aliasing
    try:
        chk = common.Check(PROP, "selftest")
        stats, viol, _ = process(chk, ucmod, rt, {cid: cells[cid]}, nr, "quick", only=(cid, 1, 3, 0))
        vo = replay_own(chk, ucmod, cells[cid], nr, [("column", [["scribp", 0, 0], ["rings", 0, 0], ["orient", 1, 2]])])
    finally:
        ucmod.unitcell.__init__ = orig_init
    if not [v for v in viol if v[4] == "property" and "ownership" in v[5]] or not vo:
        raise common.MachineryError("selftest: a unit cell that keeps the caller's parameter array was accepted")
    orig_orient = ucmod.unitcell.orient
    work = np.zeros((3, 3))

    def shared(self, *a, **k):
        orig_orient(self, *a, **k)
        work[...] = self.UBIlist[0]
        self.UBIlist[0] = work
    ucmod.unitcell.orient = shared
    try:
        chk = common.Check(PROP, "selftest")
        stats, viol, _ = process(chk, ucmod, rt, {cid: cells[cid]}, nr, "quick", only=(cid, 1, 3, 0))
    finally:
        ucmod.unitcell.orient = orig_orient
    if not [v for v in viol if v[4] == "property" and "PREVIOUS" in v[5]]:
        raise common.MachineryError("selftest: an orient() handing out the same work array at every call was accepted")

    # kept list edited: must not be accepted as either model variant
    chk = common.Check(PROP, "selftest")
    orig = ucmod.filter_pairs

    def edited(*a, **k):
        p, c, m = orig(*a, **k)
        return p[:-1], c[:-1], m[:-1]
    ucmod.filter_pairs = edited
    try:
        stats, viol, _ = process(chk, ucmod, rt, {cid: cells[cid]}, nr, "quick", only=(cid, 1, 3, 0))
    finally:
        ucmod.filter_pairs = orig
    if not viol:
        raise common.MachineryError("selftest: truncated kept list accepted")
    # a cosine table that is not the ring pair's (same ring: lower triangle flagged collinear) makes the recorded order
    # invalid: must come out as a violation of the tree (kind "trace"), not as a machinery error
    chk = common.Check(PROP, "selftest")
    orig_cos = ucmod.cosangles_many

    def tampered(h1, h2, gi):
        c = np.array(orig_cos(h1, h2, gi), float)
        if len(h1) == len(h2):
            c[np.tril_indices(len(h1))] = 1.0
        return c
    ucmod.cosangles_many = tampered
    try:
        stats, viol, _ = process(chk, ucmod, rt, {cid: cells[cid]}, nr, "quick", only=(cid, 3, 3, 0))
    finally:
        ucmod.cosangles_many = orig_cos
    if not any(v[4] == "trace" for v in viol):
        raise common.MachineryError("selftest: an order made from a corrupted cosine table was not reported")
    # the angle class next below the 0.98 cut: a filter_pairs whose cut lies just below it must be reported on the cell's
    # near-cut ring pair (the near-cut classes are bound)
    for cid2 in [c for c in ("cubF", "tetL") if c in cells] or sorted(cells)[:1]:
        lo = cells[cid2]["cutlo"]
        cutc = math.sqrt(lo[0] / float(lo[1])) - 1e-9

        def tight(*a, **k):
            p, c, m = orig(*a, **k)
            keep = [i for i in range(len(c)) if abs(c[i]) < cutc]
            return [p[i] for i in keep], [c[i] for i in keep], [m[i] for i in keep]
        ucmod.filter_pairs = tight
        try:
            hits = []
            for (r1, r2) in cells[cid2]["cut"]:
                chk = common.Check(PROP, "selftest")
                stats, viol, _ = process(chk, ucmod, rt, {cid2: cells[cid2]}, nr, "quick", only=(cid2, r1, r2, 0))
                hits += [v for v in viol if v[4] == "property"]
        finally:
            ucmod.filter_pairs = orig
        if not hits:
            raise common.MachineryError("selftest: a cut just below the largest |cos| < 0.98 of %s was accepted" % cid2)
    # a ring that merges families of unequal d*: an orient() that takes the ring's d* for |g| (the observed cosine
    # normalised with ringds) must be reported for reflections of the ring's other families
    merged = [(c, r + 1) for c in sorted(cells) for r in range(nr) if len(cells[c].get("qsets", [[0]] * nr)[r]) > 1]
    if merged:
        cidm, rm = merged[0]
        orig_orient = ucmod.unitcell.orient

        def ringnorm(self, ring1, g1, ring2, g2, verbose=0, crange=-1.):
            g1 = np.asarray(g1, float)
            g2 = np.asarray(g2, float)
            c = float(np.dot(g1, g2)) / (self.ringds[ring1] * self.ringds[ring2])
            c = max(-1.0, min(1.0, c))
            e1 = g1 / math.sqrt(float(np.dot(g1, g1)))
            e2 = g2 - np.dot(g2, e1) * e1
            e2 = e2 / math.sqrt(float(np.dot(e2, e2)))
            # a vector in the plane of g1, g2 at the (wrong) angle: same triad, looked up with the wrong cosine
            return orig_orient(self, ring1, g1, ring2, c * e1 + math.sqrt(1.0 - c * c) * e2, verbose, crange)
        ucmod.unitcell.orient = ringnorm
        try:
            chk = common.Check(PROP, "selftest")
            # (partner ring: another merged ring of the cell if there is one - the error grows with |cos|)
            other = ([r for c, r in merged if c == cidm and r != rm] + [r + 1 for r in range(nr) if r + 1 != rm])[0]
            stats, viol, _ = process(chk, ucmod, rt, {cidm: cells[cidm]}, nr, "quick", only=(cidm, min(rm, other), max(rm, other), 0))
        finally:
            ucmod.unitcell.orient = orig_orient
        if not [v for v in viol if v[4] == "property"]:
            raise common.MachineryError("selftest: an orient() normalising the observed cosine with the ring d* was accepted "
                                        "on the merged ring %d of %s" % (rm - 1, cidm))
    # an absolute threshold on |g1 x g2| inside the orientation kernel: invisible at k = 0, must be found on the
    # scaled cell (the scale family and the direct routes are bound)
    kbig = max(cells[cid].get("scales", [0]))
    if kbig > 0:
        origq = ucmod.cImageD11.quickorient

        def guarded(ubi, bt):
            g3 = np.cross(ubi[0], ubi[1])
            if math.sqrt(float(np.dot(g3, g3))) < 1e-3:
                ubi[1] = np.cross(ubi[0], [0.3, 0.5, 0.7])
            return origq(ubi, bt)
        ucmod.cImageD11.quickorient = guarded
        try:
            chk = common.Check(PROP, "selftest")
            stats, viol0, _ = process(chk, ucmod, rt, {cid: cells[cid]}, nr, "quick", only=(cid, 1, 3, 0))
            chk = common.Check(PROP, "selftest")
            stats, violk, _ = process(chk, ucmod, rt, {cid: cells[cid]}, nr, "quick", only=(cid, 1, 3, kbig))
        finally:
            ucmod.cImageD11.quickorient = origq
        if [v for v in viol0 if v[4] == "property"]:
            raise common.MachineryError("selftest: the 1e-3 guard is visible on the unscaled cell (scale family not needed?)")
        if not [v for v in violk if v[4] == "property" and v[1] == kbig]:
            raise common.MachineryError("selftest: an absolute threshold in quickorient was accepted on the cell scaled by 2^%d" % kbig)
        if not [v for v in violk if v[4] == "conformance" and "scale law" in v[5]]:
            raise common.MachineryError("selftest: scale law comparison did not notice the changed orientations")
